package address

import (
	"strings"
	"testing"

	"github.com/wollac/iota-crypto-demo/pkg/bech32"
)

// vMkAddr (white box, wb_test.go): the package's own address types filled through their unexported field.  Fallback:
// the same object obtained through the public parser from the driver's own encoding; last resort, the driver's own
// implementation of the exported Address interface.
var vMkAddr func(version int, hash []byte) Address

type vPlainAddr struct {
	v Version
	h []byte
}

func (a vPlainAddr) Version() Version { return a.v }
func (a vPlainAddr) Bytes() []byte    { return append([]byte{byte(a.v)}, a.h...) }
func (a vPlainAddr) String() string   { return "plain" }

func mkAddr(version int, hash []byte) Address {
	if vMkAddr != nil {
		return vMkAddr(version, hash)
	}
	if s, err := bech32.Encode("iota", append([]byte{byte(version)}, hash...)); err == nil {
		if _, a, err := ParseBech32(s); err == nil && a != nil {
			return a
		}
	}
	return vPlainAddr{Version(version), append([]byte{}, hash...)}
}

func parseOut(s string) M {
	var pre Prefix
	var addr Address
	var err error
	p := vCatch(func() { pre, addr, err = ParseBech32(s) })
	out := M{"ok": err == nil && p == "", "prefix": -1, "version": -1, "hash": []int{}, "panic": p, "reenc_ok": false, "reenc": []int{}}
	if err == nil && p == "" {
		out["prefix"] = int(pre)
		out["version"] = int(addr.Version())
		b := addr.Bytes()
		out["hash"] = vInts(b[1:])
		vKeep("Address.Bytes result", b) // kept by the caller while it goes on using the package
		var r string
		var e2 error
		p2 := vCatch(func() { r, e2 = Bech32(pre, addr) })
		out["reenc_ok"] = e2 == nil && p2 == ""
		out["reenc"] = vInts([]byte(r))
		vKeepStr("address.Bech32 result", r)
	}
	return out
}

func vRun(op string, in M) M {
	switch op {
	case "address.Parse":
		return parseOut(string(vBytes(in["s"])))
	case "address.tables":
		str := string(vBytes(in["s"]))
		out := M{"prefix_ok": false, "prefix": -1, "prefix_str": []int{}, "version_ok": false, "version": -1, "version_str": []int{}}
		out["panic"] = vCatch(func() {
			if p, err := ParsePrefix(str); err == nil {
				out["prefix_ok"], out["prefix"], out["prefix_str"] = true, int(p), vInts([]byte(p.String()))
			}
			if v, err := ParseVersion(str); err == nil {
				out["version_ok"], out["version"], out["version_str"] = true, int(v), vInts([]byte(v.String()))
			}
		})
		return out
	case "address.Bech32":
		pre, ver, hash := vIntOf(in["prefix"]), vIntOf(in["version"]), vBytes(in["hash"])
		var s string
		var err error
		p := vCatch(func() { s, err = Bech32(Prefix(pre), mkAddr(ver, hash)) })
		vKeepStr("address.Bech32 result", s)
		out := M{"ok": err == nil && p == "", "str": vInts([]byte(s)), "panic": p}
		po := parseOut(s)
		out["parse_ok"], out["parse_prefix"], out["parse_version"], out["parse_hash"] = po["ok"], po["prefix"], po["version"], po["hash"]
		return out
	}
	panic("unknown op " + op)
}

func TestVerifDriver(t *testing.T) {
	vMain(vRun, func(do func(string, M)) {
		r := vRand(19)
		n := vEnvInt("VERIF_N", 200)
		hrps := []string{"iota", "atoi", "smr", "rms", "iot", "smrx", "IOTA", "rmS", "x"}
		for _, t := range append(append([]string{}, hrps...), "Ed25519", "Alias", "NFT", "ed25519", "alias", "Nft", "", "NFT ") {
			do("address.tables", M{"s": vInts([]byte(t))})
		}
		// every production prefix x every address type: the valid string, its other valid spelling, and every near miss -
		// each near miss right after the valid string AND followed by it (what a rejected call leaves behind must not matter)
		for pre := 0; pre < 4; pre++ {
			for _, ver := range []int{0, 8, 16} {
				l := 20
				if ver == 0 {
					l = 32
				}
				h := make([]byte, l)
				r.Read(h)
				s, err := Bech32(Prefix(pre), mkAddr(ver, h))
				if err != nil {
					continue
				}
				parse := func(t string) { do("address.Parse", M{"s": vInts([]byte(t))}) }
				same, other := vBech32Neighbours(s)
				parse(s)
				for _, t := range same {
					parse(t)
				}
				for i, t := range other {
					parse(t)
					if (i+pre+ver)%3 == 0 {
						parse(s)
					}
				}
			}
		}
		for k := 0; k < n; k++ {
			ver := []int{0, 8, 16}[r.Intn(3)]
			l := 20
			if ver == 0 {
				l = 32
			}
			h := make([]byte, l)
			r.Read(h)
			do("address.Bech32", M{"prefix": r.Intn(4), "version": ver, "hash": vInts(h)})
			if k%4 == 0 { // right after a successful parse of an address: its spellings that are NOT valid
				if s, err := Bech32(Prefix(r.Intn(4)), mkAddr(ver, h)); err == nil {
					do("address.Parse", M{"s": vInts([]byte(s))})
					b := []byte(s)
					for i := range b {
						if b[i] >= 'a' && b[i] <= 'z' && (i*7+k)%3 == 0 {
							b[i] -= 32 // mixed case
						}
					}
					do("address.Parse", M{"s": vInts(b)})
					do("address.Parse", M{"s": vInts([]byte(strings.ToUpper(s)))}) // all upper case is valid
					if i := strings.IndexByte(s[5:], 'k'); i >= 0 {
						do("address.Parse", M{"s": vInts([]byte(strings.ToUpper(s[:5+i]) + "\u212a" + strings.ToUpper(s[5+i+1:])))})
					}
				}
			}
			// arbitrary version bytes / payload lengths under a valid checksum
			hrp := hrps[r.Intn(len(hrps))]
			v := byte(r.Intn(256))
			if r.Intn(2) == 0 {
				v = []byte{0, 8, 16}[r.Intn(3)]
			}
			pl := r.Intn(51)
			if r.Intn(3) == 0 {
				pl = []int{19, 20, 21, 31, 32, 33}[r.Intn(6)]
			}
			data := make([]byte, 1+pl)
			r.Read(data)
			data[0] = v
			if k%17 == 0 {
				data = data[:0]
			}
			lower := hrp
			s, err := bech32.Encode(lower, data)
			if err != nil {
				continue
			}
			b := []byte(s)
			switch k % 5 {
			case 1:
				for i, c := range b {
					if c >= 'a' && c <= 'z' {
						b[i] = c - 32
					}
				}
			case 2:
				b[r.Intn(len(b))] = "qpzry9x8"[r.Intn(8)]
			case 3: // upper case with U+212A KELVIN SIGN for every K of the data part
				var nb []byte
				for i, c := range b {
					if c >= 'a' && c <= 'z' {
						c -= 32
					}
					if c == 'K' && i > len(hrp) {
						nb = append(nb, 0xe2, 0x84, 0xaa)
					} else {
						nb = append(nb, c)
					}
				}
				b = nb
			}
			do("address.Parse", M{"s": vInts(b)})
		}
	})
}
