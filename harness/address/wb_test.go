package address

// white-box part of the address driver: the package's address types filled through their unexported field

func init() {
	vMkAddr = func(version int, hash []byte) Address {
		switch Version(version) {
		case Ed25519:
			var a Ed25519Address
			copy(a.hash[:], hash)
			return a
		case Alias:
			var a AliasAddress
			copy(a.hash[:], hash)
			return a
		case NFT:
			var a NFTAddress
			copy(a.hash[:], hash)
			return a
		}
		panic("bad version")
	}
}
