package b1t6

import (
	"errors"
	"testing"

	"github.com/iotaledger/iota.go/trinary"
)

func errKind(err error) string {
	switch {
	case err == nil:
		return ""
	case errors.Is(err, ErrInvalidTrits):
		return "trits"
	case errors.Is(err, ErrInvalidLength):
		return "length"
	}
	return "other"
}

func vRun(op string, in M) M {
	switch op {
	case "b1t6.Encode":
		src := vBuf("b1t6.Encode src", in["bytes"])
		keep := append([]byte{}, src...)
		dst := make(trinary.Trits, EncodedLen(len(src)))
		for i := range dst { // a reused destination: every trit must be written
			dst[i] = []int8{1, -1, 1, 0}[i%4]
		}
		var n int
		var trytes string
		p := vCatch(func() {
			n = Encode(dst, src)
			trytes = string(EncodeToTrytes(src))
		})
		vKeepStr("b1t6.EncodeToTrytes result", trytes)
		return M{"trits": vInts8(dst), "n": n, "trytes": vInts([]byte(trytes)), "panic": p,
			"enclen": EncodedLen(len(src)), "unmodified": string(keep) == string(src)}
	case "b1t6.Decode":
		src := trinary.Trits(vInt8s(in["trits"]))
		dst := make([]byte, DecodedLen(len(src))+1)
		// the destination is whatever the caller used it for before: zeros, ones, patterns (a decoder writes bytes, it
		// does not merge them into what is there)
		vDirtyNo++
		for i := range dst {
			dst[i] = []byte{0x00, 0xff, 0xa5, 0x5a, 0x0f}[vDirtyNo%5]
		}
		var n int
		var err error
		p := vCatch(func() { n, err = Decode(dst, src) })
		if n < 0 || n > len(dst) {
			return M{"ok": false, "err": "count-out-of-range", "n": n, "bytes": []int{}, "panic": p}
		}
		return M{"ok": err == nil && p == "", "err": errKind(err), "n": n, "bytes": vInts(dst[:n]), "panic": p}
	case "b1t6.DecodeTrytes":
		src := string(vBytes(in["trytes"]))
		var b []byte
		var err error
		p := vCatch(func() { b, err = DecodeTrytes(src) })
		vOwnOrKeep("b1t6.DecodeTrytes result", b)
		return M{"ok": err == nil && p == "", "err": errKind(err), "bytes": vInts(b), "panic": p}
	}
	panic("unknown op " + op)
}

const tryteAlphabet = "9ABCDEFGHIJKLMNOPQRSTUVWXYZ"

var vDirtyNo int

func TestVerifDriver(t *testing.T) {
	vMain(vRun, func(do func(string, M)) {
		rng := vRand(14)
		n := vEnvInt("VERIF_N", 400)
		// long inputs (an implementation may treat them differently, e.g. in chunks): lengths around 2^11 and 2^12
		for _, l := range []int{2047, 2048, 2049, 2053, 2048 + 1 + rng.Intn(2000), 4099} {
			b := make([]byte, l)
			rng.Read(b)
			do("b1t6.Encode", M{"bytes": vInts(b)})
		}
		var forLen func(l, k int)
		// every operation at lengths where an implementation working in blocks may change gear (81, 243, 256 trits / trytes /
		// bytes and their neighbours), each with the valid input and every kind of fault
		for _, l := range []int{13, 14, 27, 40, 41, 42, 43, 81, 82, 85, 86, 121, 122, 123, 127, 128, 129, 243, 244, 255, 256, 257, 364, 365, 729, 1000, 1458, 2047, 2048, 2049, 4099} {
			for k := 0; k < 20; k += 1 + l/200 {
				defer func(l, k int) { forLen(l, k) }(l, k)
			}
		}
		forLen = func(l, k int) {
			b := make([]byte, l)
			rng.Read(b)
			if k%7 == 0 {
				for i := range b {
					b[i] = []byte{0, 127, 128, 255, 1}[rng.Intn(5)]
				}
			}
			do("b1t6.Encode", M{"bytes": vInts(b)})
			// decode: valid encoding, mutated in several ways
			tr := make(trinary.Trits, EncodedLen(l))
			Encode(tr, b)
			switch k % 5 {
			case 1: // every remainder
				tr = append(tr, make(trinary.Trits, 1+rng.Intn(5))...)
				for i := EncodedLen(l); i < len(tr); i++ {
					tr[i] = int8(rng.Intn(3) - 1)
				}
			case 2: // one invalid group at a random position
				if l > 0 {
					g := rng.Intn(l)
					copy(tr[6*g:], invalidGroup6(rng))
				}
			case 3: // both faults
				if l > 0 {
					g := rng.Intn(l)
					copy(tr[6*g:], invalidGroup6(rng))
				}
				tr = append(tr, make(trinary.Trits, 1+rng.Intn(5))...)
			case 4: // arbitrary trits
				for i := range tr {
					tr[i] = int8(rng.Intn(3) - 1)
				}
			}
			do("b1t6.Decode", M{"trits": vInts8(tr)})
			// trytes
			ty := []byte(EncodeToTrytes(b))
			switch k % 4 {
			case 1:
				ty = append(ty, tryteAlphabet[rng.Intn(27)])
			case 2:
				if len(ty) > 0 {
					ty[rng.Intn(len(ty))] = tryteAlphabet[rng.Intn(27)]
				}
			case 3:
				for i := range ty {
					ty[i] = tryteAlphabet[rng.Intn(27)]
				}
			}
			do("b1t6.DecodeTrytes", M{"trytes": vInts(ty)})
		}
		for k := 0; k < n; k++ {
			forLen(k%41, k) // byte strings of every length 0..40
		}
	})
}

func invalidGroup6(rng interface{ Intn(int) int }) []int8 {
	for {
		g := make([]int8, 6)
		v, p := 0, 1
		for i := range g {
			g[i] = int8(rng.Intn(3) - 1)
			v += int(g[i]) * p
			p *= 3
		}
		if v < -128 || v > 127 {
			return g
		}
	}
}
