package b1t8

import (
	"errors"
	"testing"

	"github.com/iotaledger/iota.go/trinary"
)

func errKind(err error) string {
	switch {
	case err == nil:
		return ""
	case errors.Is(err, ErrInvalidTrit):
		return "trits"
	case errors.Is(err, ErrInvalidLength):
		return "length"
	}
	return "other"
}

func vRun(op string, in M) M {
	switch op {
	case "b1t8.Encode":
		src := vBuf("b1t8.Encode src", in["bytes"])
		keep := append([]byte{}, src...)
		dst := make(trinary.Trits, EncodedLen(len(src)))
		for i := range dst { // a reused destination: every trit must be written
			dst[i] = []int8{1, -1, 1, 0}[i%4]
		}
		var n int
		p := vCatch(func() { n = Encode(dst, src) })
		return M{"trits": vInts8(dst), "n": n, "panic": p,
			"enclen": EncodedLen(len(src)), "unmodified": string(keep) == string(src)}
	case "b1t8.Decode":
		src := trinary.Trits(vInt8s(in["trits"]))
		dst := make([]byte, DecodedLen(len(src))+1)
		// the destination is whatever the caller used it for before: zeros, ones, patterns (a decoder writes bytes, it
		// does not merge them into what is there)
		vDirtyNo++
		for i := range dst {
			dst[i] = []byte{0x00, 0xff, 0xa5, 0x5a, 0x0f}[vDirtyNo%5]
		}
		var n int
		var err error
		p := vCatch(func() { n, err = Decode(dst, src) })
		if n < 0 || n > len(dst) {
			return M{"ok": false, "err": "count-out-of-range", "n": n, "bytes": []int{}, "panic": p}
		}
		return M{"ok": err == nil && p == "", "err": errKind(err), "n": n, "bytes": vInts(dst[:n]), "panic": p}
	}
	panic("unknown op " + op)
}

var vDirtyNo int

func TestVerifDriver(t *testing.T) {
	vMain(vRun, func(do func(string, M)) {
		rng := vRand(148)
		n := vEnvInt("VERIF_N", 400)
		for _, l := range []int{2047, 2048, 2049, 2048 + 1 + rng.Intn(2000)} { // long inputs
			b := make([]byte, l)
			rng.Read(b)
			do("b1t8.Encode", M{"bytes": vInts(b)})
		}
		for g := 0; g < 12; g++ { // the first invalid trit in each of the first 12 groups of a longer input
			b := make([]byte, 16)
			rng.Read(b)
			tr := make(trinary.Trits, EncodedLen(len(b)))
			Encode(tr, b)
			tr[8*g+rng.Intn(8)] = -1
			do("b1t8.Decode", M{"trits": vInts8(tr)})
		}
		for k := 0; k < n; k++ {
			l := k % 41
			b := make([]byte, l)
			rng.Read(b)
			if k%7 == 0 {
				for i := range b {
					b[i] = []byte{0, 127, 128, 255, 1}[rng.Intn(5)]
				}
			}
			do("b1t8.Encode", M{"bytes": vInts(b)})
			tr := make(trinary.Trits, EncodedLen(l))
			Encode(tr, b)
			switch k % 6 {
			case 1: // every remainder, clean
				ext := 1 + rng.Intn(7)
				for i := 0; i < ext; i++ {
					tr = append(tr, int8(rng.Intn(2)))
				}
			case 2: // one invalid trit
				if l > 0 {
					tr[rng.Intn(len(tr))] = -1
				}
			case 3: // both faults: invalid group and remainder
				if l > 0 {
					tr[rng.Intn(len(tr))] = -1
				}
				ext := 1 + rng.Intn(7)
				for i := 0; i < ext; i++ {
					tr = append(tr, int8(rng.Intn(2)))
				}
			case 4: // remainder holding an invalid trit
				ext := 1 + rng.Intn(7)
				for i := 0; i < ext; i++ {
					tr = append(tr, int8(rng.Intn(3)-1))
				}
			case 5:
				for i := range tr {
					if rng.Intn(20) == 0 {
						tr[i] = -1
					}
				}
			}
			do("b1t8.Decode", M{"trits": vInts8(tr)})
		}
	})
}
