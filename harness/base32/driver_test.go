package base32

import (
	"errors"
	"testing"
)

// Driver for pkg/bech32/internal/base32 (the 8 <-> 5 bit regrouping under Bech32): exported functions only.

func vRun(op string, in M) M {
	switch op {
	case "base32.Encode":
		src := vBytes(in["src"])
		n := EncodedLen(len(src))
		dst := make([]uint8, n+3)
		for i := range dst { // dirty destination
			dst[i] = 0xA5
		}
		keep := append([]byte{}, src...)
		var w int
		p := vCatch(func() { w = Encode(dst, src) })
		tail := true
		for _, x := range dst[n:] {
			tail = tail && x == 0xA5
		}
		return M{"n": w, "len": n, "syms": vInts(dst[:n]), "tail_untouched": tail, "src_unchanged": string(keep) == string(src), "panic": p}
	case "base32.Decode":
		src := vBytes(in["syms"])
		m := DecodedLen(len(src))
		dst := make([]byte, m+3)
		for i := range dst {
			dst[i] = 0x5A
		}
		keep := append([]byte{}, src...)
		var w int
		var err error
		p := vCatch(func() { w, err = Decode(dst, src) })
		kind, off := "", -1
		var ce *CorruptInputError
		if errors.As(err, &ce) {
			off = ce.Offset
		}
		switch {
		case err == nil:
		case errors.Is(err, ErrInvalidLength):
			kind = "length"
		case errors.Is(err, ErrNonZeroPadding):
			kind = "padding"
		default:
			kind = "other"
		}
		tail := true
		for _, x := range dst[m:] {
			tail = tail && x == 0x5A
		}
		if w < 0 || w > len(dst) {
			return M{"ok": false, "n": w, "maxlen": m, "bytes": []int{}, "kind": "badcount", "off": off, "tail_untouched": tail, "src_unchanged": true, "panic": p}
		}
		return M{"ok": err == nil && p == "", "n": w, "maxlen": m, "bytes": vInts(dst[:w]), "kind": kind, "off": off,
			"tail_untouched": tail, "src_unchanged": string(keep) == string(src), "panic": p}
	}
	panic("unknown op " + op)
}

func TestVerifDriver(t *testing.T) {
	vMain(vRun, func(do func(string, M)) {
		r := vRand(45)
		n := vEnvInt("VERIF_N", 6)
		for l := 0; l <= 24; l++ {
			for k := 0; k < n; k++ {
				b := make([]byte, l)
				r.Read(b)
				if k == 0 {
					for i := range b {
						b[i] = 0xff
					}
				}
				do("base32.Encode", M{"src": vInts(b)})
			}
		}
		do("base32.Encode", M{"src": vInts(make([]byte, 200))})
		for l := 0; l <= 26; l++ {
			s := make([]byte, l)
			for k := 0; k < n; k++ {
				for i := range s {
					s[i] = byte(r.Intn(32))
				}
				do("base32.Decode", M{"syms": vInts(s)})
			}
			// every value of the last symbol (all padding patterns), and of the one before it
			for v := 0; l > 0 && v < 32; v++ {
				s[l-1] = byte(v)
				do("base32.Decode", M{"syms": vInts(s)})
				if l > 1 {
					s[l-2] = byte(31 - v)
					do("base32.Decode", M{"syms": vInts(s)})
				}
			}
		}
	})
}
