package bech32

import (
	"strings"
	"errors"
	"fmt"
	"hash/fnv"
	"os"
	"sync"
	"testing"
	"time"
)

// rejKind: the driver's own reading of WHY a string is not Bech32 (which stage of the specification's decoder rejects
// it).  Not judged by anything: the checks use it to pick one rejected input per kind for the failure histories.
func rejKind(s string) string {
	if len(s) > 90 {
		return "len"
	}
	sep := strings.LastIndexByte(s, '1')
	if sep < 0 {
		return "nosep"
	}
	if sep < 1 || sep+7 > len(s) {
		return "seppos"
	}
	lower, upper := false, false
	for i := 0; i < len(s); i++ {
		c := s[i]
		if i < sep && (c < 33 || c > 126) {
			return "hrpchar"
		}
		if i > sep && c >= 0x80 {
			return "nonascii"
		}
		lower = lower || (c >= 'a' && c <= 'z')
		upper = upper || (c >= 'A' && c <= 'Z')
	}
	if lower && upper {
		return "case"
	}
	for i := sep + 1; i < len(s); i++ {
		if strings.IndexByte(csAlphabet, s[i]|32) < 0 || (s[i] < 'A' && (s[i] < '0' || s[i] > '9')) {
			return "charset"
		}
	}
	return "checksum"
}

func vRun(op string, in M) M {
	switch op {
	case "bech32.Decode":
		s := string(vBytes(in["s"]))
		var hrp string
		var data []byte
		var err error
		p := vCatch(func() { hrp, data, err = Decode(s) })
		out := M{"ok": err == nil && p == "", "hrp": vInts([]byte(hrp)), "data": vInts(data), "off": -1, "panic": p,
			"reenc_ok": false, "reenc": []int{}}
		var se *SyntaxError
		if err != nil && errors.As(err, &se) {
			out["off"] = se.Offset
		}
		if err != nil {
			out["err"] = rejKind(s)
		}
		if err == nil && p == "" {
			var r string
			var e2 error
			p2 := vCatch(func() { r, e2 = Encode(hrp, data) })
			out["reenc_ok"] = e2 == nil && p2 == ""
			out["reenc"] = vInts([]byte(r))
			vKeepStr("bech32.Encode result", r)
		}
		vOwnOrKeep("bech32.Decode data", data) // the caller owns the returned bytes: it overwrites them, or keeps them
		return out
	case "bech32.Encode":
		hrp := string(vBytes(in["hrp"]))
		data := vBuf("bech32.Encode src", in["data"]) // the caller's buffer: reused for the next call with other content
		var s string
		var err error
		p := vCatch(func() { s, err = Encode(hrp, data) })
		vKeepStr("bech32.Encode result", s)
		out := M{"ok": err == nil && p == "", "str": vInts([]byte(s)), "panic": p,
			"dec_ok": false, "dec_hrp": []int{}, "dec_data": []int{}}
		if err == nil && p == "" {
			var h2 string
			var d2 []byte
			var e2 error
			p2 := vCatch(func() { h2, d2, e2 = Decode(s) })
			out["dec_ok"] = e2 == nil && p2 == ""
			out["dec_hrp"] = vInts([]byte(h2))
			out["dec_data"] = vInts(d2)
			vOwnOrKeep("bech32.Decode data", d2)
		}
		return out
	}
	if f, ok := vWB[op]; ok {
		return f(in)
	}
	panic("unknown op " + op)
}

// runParBatch decodes all strings concurrently (8 goroutines, several repetitions): every call must give the answer the
// specification gives for its own input, whatever other calls are doing.  A deviating answer wins over a conforming one.
func runParBatch(rec *vRec, ins []M) {
	outs := make([][]M, len(ins)) // the distinct answers seen for input i (index i is only touched by goroutine i%8)
	keys := make([]map[string]bool, len(ins))
	var wg sync.WaitGroup
	budget := time.Duration(vEnvInt("VERIF_PAR_MS", 1500)) * time.Millisecond
	start := make(chan struct{})
	t0 := time.Now()
	vConc = true
	for g := 0; g < 8; g++ {
		wg.Add(1)
		go func(g int) {
			defer wg.Done()
			<-start
			// at least 12 passes, then keep going until the time budget is used: the window in which two calls could
			// disturb each other is a few instructions wide
			for rep := 0; rep < 12 || time.Since(t0) < budget; rep++ {
				for i := g; i < len(ins); i += 8 {
					o := vRun(parOp(ins[i]), ins[i])
					k := fmt.Sprint(o)
					if keys[i] == nil {
						keys[i] = map[string]bool{}
					}
					if !keys[i][k] && len(outs[i]) < 4 {
						keys[i][k] = true
						outs[i] = append(outs[i], o)
					}
				}
			}
		}(g)
	}
	close(start)
	wg.Wait()
	vConc = false
	// every distinct answer is judged by the specification: a call that was disturbed by another one is rejected
	for i := range ins {
		for _, o := range outs[i] {
			rec.emit(parOp(ins[i]), ins[i], o)
		}
	}
}

// the operation of a concurrent-batch input is told by its shape (Encode inputs carry an hrp)
func parOp(in M) string {
	if _, ok := in["hrp"]; ok {
		return "bech32.Encode"
	}
	return "bech32.Decode"
}

// sameHrpBatch: Encode and Decode inputs that all share ONE human-readable part and one length (valid strings and
// their corrupted neighbours): calls that could share per-prefix state are made to collide
func sameHrpBatch(r rnd) []M {
	hrp := randHrp(r, 2+r.Intn(5))
	var ins []M
	for k := 0; k < 48; k++ {
		data := make([]byte, 20)
		r.Read(data)
		ins = append(ins, vNorm(M{"hrp": vInts([]byte(hrp)), "data": vInts(data), "par": true}))
		if s, err := Encode(hrp, data); err == nil {
			b := []byte(s)
			ins = append(ins, vNorm(M{"s": vInts(b), "par": true}))
			c := append([]byte{}, b...)
			pos := len(hrp) + 1 + r.Intn(len(c)-len(hrp)-1)
			c[pos] = csAlphabet[(strings.IndexByte(csAlphabet, c[pos]|0x20)+1+r.Intn(31))%32]
			ins = append(ins, vNorm(M{"s": vInts(c), "par": true}))
		}
	}
	return ins
}

const csAlphabet = "qpzry9x8gf2tvdw0s3jn54khce6mua7l"

type rnd interface {
	Intn(int) int
	Read([]byte) (int, error)
}

// csPolymod / csChecksum: the driver's own BIP-173 checksum (only used to choose inputs; the verdict on every input
// comes from the TLA+ specification, so an error here could only make inputs less interesting).
func csPolymod(values []byte) uint32 {
	gen := [5]uint32{0x3b6a57b2, 0x26508e6d, 0x1ea119fa, 0x3d4233dd, 0x2a1462b3}
	chk := uint32(1)
	for _, v := range values {
		top := chk >> 25
		chk = (chk&0x1ffffff)<<5 ^ uint32(v)
		for i := 0; i < 5; i++ {
			if (top>>uint(i))&1 == 1 {
				chk ^= gen[i]
			}
		}
	}
	return chk
}

func csChecksum(hrp string, syms []byte) []byte {
	var vals []byte
	for i := 0; i < len(hrp); i++ {
		vals = append(vals, hrp[i]>>5)
	}
	vals = append(vals, 0)
	for i := 0; i < len(hrp); i++ {
		vals = append(vals, hrp[i]&31)
	}
	vals = append(vals, syms...)
	vals = append(vals, 0, 0, 0, 0, 0, 0)
	pm := csPolymod(vals) ^ 1
	out := make([]byte, 6)
	for i := 0; i < 6; i++ {
		out[i] = byte((pm >> uint(5*(5-i))) & 31)
	}
	return out
}

// enc5 builds a checksum-correct string from arbitrary 5-bit symbols.
func enc5(hrp string, syms []byte) string {
	lower := []byte(hrp)
	for i, c := range lower {
		if c >= 'A' && c <= 'Z' {
			lower[i] = c + 32
		}
	}
	cs := csChecksum(string(lower), syms)
	out := append([]byte{}, lower...)
	out = append(out, '1')
	for _, v := range append(append([]byte{}, syms...), cs...) {
		out = append(out, csAlphabet[v])
	}
	return string(out)
}

func randHrp(r rnd, n int) string {
	b := make([]byte, n)
	kind := r.Intn(4)
	for i := range b {
		switch kind {
		case 0:
			b[i] = byte('a' + r.Intn(26))
		case 1:
			b[i] = byte(33 + r.Intn(94))
			if b[i] >= 'A' && b[i] <= 'Z' {
				b[i] += 32
			}
		case 2:
			b[i] = "0123456789"[r.Intn(10)]
		default:
			b[i] = "a1b!~1z"[r.Intn(7)]
		}
	}
	return string(b)
}

func upperASCII(s string) string {
	b := []byte(s)
	for i, c := range b {
		if c >= 'a' && c <= 'z' {
			b[i] = c - 32
		}
	}
	return string(b)
}

// sameKind returns a different character of the same kind (letter of the same
// case for a letter, digit for a digit); ok=false for other characters.
func sameKind(r rnd, c byte) (byte, bool) {
	for {
		var d byte
		switch {
		case c >= 'a' && c <= 'z':
			d = byte('a' + r.Intn(26))
		case c >= 'A' && c <= 'Z':
			d = byte('A' + r.Intn(26))
		case c >= '0' && c <= '9':
			d = byte('0' + r.Intn(10))
		default:
			return c, false
		}
		if d != c {
			return d, true
		}
	}
}

func otherCharsetChar(r rnd, c byte) byte {
	lc := c
	if lc >= 'A' && lc <= 'Z' {
		lc += 32
	}
	for {
		d := csAlphabet[r.Intn(32)]
		if d != lc {
			if c >= 'A' && c <= 'Z' && d >= 'a' && d <= 'z' {
				d -= 32
			}
			return d
		}
	}
}

// hashCollisions: pairs of human-readable parts of equal length that differ in at most 4 characters and collide under
// a common 32-bit string hash (FNV-1, FNV-1a).  These hashes carry their whole state in
// the output, so the collision survives any common suffix.  Inputs for C16: a decoder that memoises anything by such a
// hash of the HRP confuses the two.
func hashCollisions(r rnd, perHash int) [][2]string {
	const alpha = "abcdefghijklmnopqrstuvwxyz023456789"
	hashes := []func([]byte) uint32{
		func(b []byte) uint32 { h := fnv.New32a(); h.Write(b); return h.Sum32() },
		func(b []byte) uint32 { h := fnv.New32(); h.Write(b); return h.Sum32() },
	}
	var out [][2]string
	for _, hf := range hashes {
		// a word of 7..9 characters: positions 0, 2, 4, 6 vary, the others are fixed
		buf := make([]byte, 7+r.Intn(3))
		for i := range buf {
			buf[i] = alpha[r.Intn(26)]
		}
		seen := make(map[uint32]uint32, 1<<21)
		found := 0
		word := func(k uint32) []byte {
			for j := 0; j < 4; j++ {
				buf[2*j] = alpha[k%35]
				k /= 35
			}
			return buf
		}
		for k := uint32(0); k < 35*35*35*35 && found < perHash; k++ {
			h := hf(word(k))
			if o, ok := seen[h]; ok {
				a := string(word(o))
				out = append(out, [2]string{a, string(word(k))})
				found++
				continue
			}
			seen[h] = k
		}
	}
	return out
}

// genC16: substitutions of weight 1..4 in valid strings (C16).

// foldVariants: the string with one s / S replaced by U+017F (long s) or one k / K by U+212A (Kelvin sign): code points
// whose case mapping or case folding lands on an ASCII letter.  Never valid Bech32.
func foldVariants(s string) []string {
	var out []string
	for i := 0; i < len(s); i++ {
		switch s[i] {
		case 's', 'S':
			out = append(out, s[:i]+"\u017f"+s[i+1:])
		case 'k', 'K':
			out = append(out, s[:i]+"\u212a"+s[i+1:])
		}
	}
	return out
}

// encRaw: a string whose checksum is right for the byte string csHrp (each byte taken as a prefix character: high
// three bits, low five bits - the natural extension of BIP-173 to any byte) in front of hrp: when hrp is not a valid
// prefix, everything ELSE about the string is as valid as it can be, so only the prefix check can reject it.
func encRaw(hrp, csHrp string, syms []byte) string {
	out := []byte(hrp + "1")
	for _, v := range append(append([]byte{}, syms...), csChecksum(csHrp, syms)...) {
		out = append(out, csAlphabet[v])
	}
	return string(out)
}

// primingSeqs: every kind of rejected call, each followed at once by valid strings and by near misses of them, and
// valid strings followed at once by their near misses.  What a call leaves behind (pooled scratch, a remembered
// prefix, a running checksum, an error path that skips a clean-up) must not change the next answer.
func primingSeqs(r rnd, dec func(string), n int) {
	hrps := []string{"smr", "tk", "a", "iota", "sk1s", "test", "kk", "SMR", "TK"}
	for k := 0; k < n; k++ {
		hrp := hrps[k%len(hrps)]
		ns := 8 * (1 + r.Intn(3))
		syms := make([]byte, ns)
		for i := range syms {
			syms[i] = byte(r.Intn(32))
		}
		s := enc5(hrp, syms)
		if hrp[0] < 'a' {
			s = upperASCII(s)
		}
		sep := len(hrp)
		sub := func(t string, i int, c byte) string { b := []byte(t); b[i] = c; return string(b) }
		other := func(i int) byte { return otherCharsetChar(r, s[i]) }
		rejects := []string{
			sub(s, sep+3, 'b'), sub(s, len(s)-2, 'i'), sub(s, sep+1, 'o'), // not in the charset: data, checksum
			s + "q", s[:len(s)-1], sub(s, sep+2, other(sep+2)), // checksum
			upperASCII(s[:sep]) + strings.ToLower(s[sep:]), strings.ToLower(s[:sep]) + upperASCII(s[sep:]), // mixed case
			s + strings.Repeat("q", 91), hrp, "1" + s[sep+1:], // length, separator, empty prefix
			"\x7f" + s, " " + s, s[:sep+1] + "\u0161" + s[sep+2:], s[:sep+4] + "\xff" + s[sep+5:], // bytes
			"",
		}
		near := append([]string{s, sub(s, sep+2, other(sep+2)), sub(s, len(s)-1, other(len(s)-1)), s}, foldVariants(s)...)
		if hrp[0] >= 'a' {
			near = append(near, upperASCII(s))
			near = append(near, foldVariants(upperASCII(s))...)
		}
		for _, bad := range rejects {
			dec(bad)
			for _, f := range near {
				dec(f)
			}
		}
		for _, v := range foldVariants(s) {
			dec(s)
			dec(v)
		}
	}
	// prefixes that are not ASCII but look like it to code that truncates a code point to its low byte, or that takes
	// the bytes of the encoding one by one: the checksum is right under either reading
	for _, c := range []rune{0x0161, 0x4E61, 0x0141, 0x1F171, 0x0173, 0xFF41} {
		hrp := "a" + string(c) + "b"
		trunc := "a" + string([]byte{byte(c)}) + "b"
		syms := []byte{1, 2, 3, 4, 5, 6, 7, 16}
		dec(encRaw(hrp, hrp, syms))
		dec(encRaw(hrp, trunc, syms))
		dec(encRaw(string(c), string(c), syms))
		dec(encRaw(string(c), string([]byte{byte(c)}), syms))
		dec(encRaw(trunc, trunc, syms)) // the truncated spelling itself is an ordinary prefix (when its bytes are printable)
	}
}

func genC16(do func(string, M)) {
	r := vRand(16)
	n := vEnvInt("VERIF_N", 40)
	dec := func(s string) { do("bech32.Decode", M{"s": vInts([]byte(s))}) }
	primingSeqs(r, dec, 9)
	// colliding human-readable parts: the valid string of one, then the other's HRP in front of the same data part
	// (an HRP substitution of weight <= 4), in both orders
	for _, pr := range hashCollisions(r, 3) {
		data := make([]byte, 1+r.Intn(20))
		r.Read(data)
		for _, o := range [][2]string{{pr[0], pr[1]}, {pr[1], pr[0]}} {
			if s, err := Encode(o[0], data); err == nil {
				dec(s)
				dec(o[1] + s[len(o[0]):])
			}
		}
	}
	// the prefixes used in production (an implementation may treat them specially): the valid string of one, then
	// every other one of the same length in front of the same data part (a letter-for-letter substitution of weight <= 4)
	prod := []string{"iota", "atoi", "smr", "rms", "tst", "IOTA", "SMR", "RMS"}
	for _, a := range prod {
		data := make([]byte, 33)
		r.Read(data)
		s, err := Encode(a, data)
		if err != nil {
			continue
		}
		dec(s)
		for _, b := range prod {
			if b != a && len(b) == len(a) && (b[0] >= 'a') == (a[0] >= 'a') {
				dec(b + s[len(a):])
			}
		}
	}
	// white box: the real polymod on unit vectors (position x bit) and random vectors
	for pos := 1; vHasWB("bech32.polymod") && pos <= 100; pos += 1 {
		for bit := 0; bit < 5; bit++ {
			v := make([]byte, pos)
			v[0] = 1 << uint(bit)
			do("bech32.polymod", M{"values": vInts(v)})
		}
	}
	for k := 0; vHasWB("bech32.polymod") && k < 50; k++ {
		v := make([]byte, 1+r.Intn(100))
		for i := range v {
			v[i] = byte(r.Intn(32))
		}
		do("bech32.polymod", M{"values": vInts(v)})
	}
	// code words by the shape of their checksum: leading / trailing zero digits ('q') and all-ones digits ('l'), one to three
	// of them, and every digit value at the first and the last checksum position - an implementation that converts the
	// checksum through a number or a string may treat such digits specially.  Every substitution of weight 1 and every
	// pair inside the checksum must be rejected.
	type csShape struct {
		name string
		ok   func(cs []byte) bool
	}
	var shapes []csShape
	for k := 1; k <= 3; k++ {
		k := k
		for _, v := range []byte{0, 31} {
			v := v
			shapes = append(shapes, csShape{fmt.Sprintf("lead%d_%d", k, v), func(cs []byte) bool {
				for i := 0; i < k; i++ {
					if cs[i] != v {
						return false
					}
				}
				return cs[k] != v
			}}, csShape{fmt.Sprintf("trail%d_%d", k, v), func(cs []byte) bool {
				for i := 0; i < k; i++ {
					if cs[5-i] != v {
						return false
					}
				}
				return cs[5-k] != v
			}})
		}
	}
	for v := byte(1); v < 31; v += 5 {
		v := v
		shapes = append(shapes, csShape{fmt.Sprintf("first_%d", v), func(cs []byte) bool { return cs[0] == v }},
			csShape{fmt.Sprintf("last_%d", v), func(cs []byte) bool { return cs[5] == v }})
	}
	for si, sh := range shapes {
		hrp := []string{"a", "iota", "smr", "tb", "verif"}[si%5]
		data := make([]byte, 1+si%7)
		var s string
		found := false
		for tries := 0; tries < 200000 && !found; tries++ {
			r.Read(data)
			var err error
			if s, err = Encode(hrp, data); err != nil {
				break
			}
			cs := make([]byte, 6)
			for i := 0; i < 6; i++ {
				cs[i] = byte(strings.IndexByte(csAlphabet, s[len(s)-6+i]))
			}
			found = sh.ok(cs)
		}
		if !found {
			continue
		}
		if si%4 == 3 {
			s = upperASCII(s)
		}
		dec(s)
		b := []byte(s)
		alt := func(c byte, a int) byte {
			d := csAlphabet[a]
			if c >= 'A' && c <= 'Z' && d >= 'a' && d <= 'z' {
				d -= 32
			}
			return d
		}
		for i := len(b) - 6; i < len(b); i++ {
			for a := 0; a < 32; a++ {
				if c := alt(b[i], a); c != b[i] {
					m := append([]byte{}, b...)
					m[i] = c
					dec(string(m))
				}
			}
			for j := i + 1; j < len(b); j++ {
				for q := 0; q < 3; q++ {
					m := append([]byte{}, b...)
					m[i], m[j] = alt(b[i], (strings.IndexByte(csAlphabet, b[i]|32)+1+q*7)%32), otherCharsetChar(r, m[j])
					if m[i] != b[i] {
						dec(string(m))
					}
				}
			}
		}
	}
	for k := 0; k < n; k++ {
		hl := 1 + r.Intn(8)
		if k%5 == 0 {
			hl = 1 + r.Intn(40)
		}
		hrp := randHrp(r, hl)
		dl := r.Intn(12)
		if k%4 == 0 {
			dl = r.Intn((90-hl-7)*5/8 + 1)
		}
		data := make([]byte, dl)
		r.Read(data)
		s, err := Encode(hrp, data)
		if err != nil {
			continue
		}
		if k%3 == 1 {
			s = upperASCII(s)
		}
		dec(s)
		sep := len(hrp)
		b := []byte(s)
		// exhaustive weight 1 in the data part (all 31 alternatives per position)
		for i := sep + 1; i < len(b); i++ {
			for a := 0; a < 32; a++ {
				c := csAlphabet[a]
				if s[i] >= 'A' && s[i] <= 'Z' && c >= 'a' && c <= 'z' {
					c -= 32
				}
				if c == s[i] {
					continue
				}
				m := append([]byte{}, b...)
				m[i] = c
				dec(string(m))
			}
		}
		// weight 2: exhaustive over position pairs for short strings (one random alternative each), sampled otherwise
		pairs := 0
		for i := sep + 1; i < len(b) && pairs < 400; i++ {
			for j := i + 1; j < len(b) && pairs < 400; j++ {
				if len(b)-sep > 16 && r.Intn(8) != 0 {
					continue
				}
				m := append([]byte{}, b...)
				m[i] = otherCharsetChar(r, m[i])
				m[j] = otherCharsetChar(r, m[j])
				dec(string(m))
				pairs++
			}
		}
		// weight 1..4 mixing data-part and same-kind HRP substitutions
		for q := 0; q < 60; q++ {
			w := 1 + r.Intn(4)
			m := append([]byte{}, b...)
			used := map[int]bool{}
			changed := 0
			for tries := 0; changed < w && tries < 50; tries++ {
				i := r.Intn(len(m))
				if used[i] || i == sep {
					continue
				}
				if i < sep {
					d, ok := sameKind(r, m[i])
					if !ok {
						continue
					}
					m[i] = d
				} else {
					m[i] = otherCharsetChar(r, m[i])
				}
				used[i] = true
				changed++
			}
			if changed > 0 {
				dec(string(m))
			}
		}
	}
}

func init() { vWBNames["bech32.polymod"] = true }

func TestVerifDriver(t *testing.T) {
	if os.Getenv("VERIF_MODE") == "replay" {
		rec := vOpen()
		defer rec.close()
		var par []M
		flush := func() {
			if len(par) > 0 {
				runParBatch(rec, par)
				par = nil
			}
		}
		for _, v := range vReadInputs() {
			if v.In == nil {
				v.In = M{}
			}
			if v.In["par"] == true {
				par = append(par, v.In)
				continue
			}
			flush()
			if vSkipOp(v.Op) {
				continue
			}
			vForce = v.Mode
			rec.emit(v.Op, v.In, vRun(v.Op, v.In))
			vForce = ""
		}
		flush()
		return
	}
	if os.Getenv("VERIF_FOCUS") == "c16" {
		rec := vOpen()
		defer rec.close()
		var pool []M
		genC16(func(op string, in M) {
			in = vNorm(in)
			rec.emit(op, in, vRun(op, in))
			if op == "bech32.Decode" && len(pool) < 4000 {
				pool = append(pool, in)
			}
		})
		// concurrent phase: valid strings and their corrupted neighbours of the same length, interleaved
		var ins []M
		for i := 0; i < len(pool) && len(ins) < 400; i += 1 + len(pool)/400 {
			c := M{}
			for k, v := range pool[i] {
				c[k] = v
			}
			c["par"] = true
			ins = append(ins, c)
		}
		rec.newTrace()
		runParBatch(rec, ins)
		return
	}
	rec := vOpen()
	defer rec.close()
	defer func() { // after the sequential part: a concurrent batch on one human-readable part
		rec.newTrace()
		runParBatch(rec, sameHrpBatch(vRand(44)))
	}()
	func(do func(string, M)) {
		r := vRand(4)
		n := vEnvInt("VERIF_N", 300)
		dec := func(s string) { do("bech32.Decode", M{"s": vInts([]byte(s))}) }
		primingSeqs(r, dec, 9)
		// Encode right after every kind of rejected Decode (and after a rejected Encode): what a failing call leaves
		// behind must not reach the next string that is built
		{
			data := []byte{0xff}
			ok, _ := Encode("test", []byte{1, 2, 3})
			for k, bad := range []string{"test1\u212aq", "test1qq\xff", "test1q\u0161qqqqqq", ok[:len(ok)-1] + "b", "test1", "TEST1qqqqqq", "te st1qqqqqq", "1qqqqqq",
				ok + "q", strings.Repeat("q", 91), "", ok[:5] + "\x80" + ok[6:], ok[:len(ok)-3] + "\xc3\xa9" + ok[len(ok)-1:]} {
				dec(bad)
				do("bech32.Encode", M{"hrp": vInts([]byte("test")), "data": vInts(append(append([]byte{}, data...), make([]byte, k%4)...))})
				dec(bad)
				dec(bad)
				do("bech32.Encode", M{"hrp": vInts([]byte{'a', byte('a' + k)}), "data": vInts([]byte{byte(k), 0xff, byte(7 * k)})})
				do("bech32.Encode", M{"hrp": vInts([]byte("T\u212a")), "data": vInts(data)}) // a rejected Encode
				do("bech32.Encode", M{"hrp": vInts([]byte("test")), "data": vInts(data)})
			}
		}
		// prefixes beyond every limit handed to Encode (with and without data)
		for _, hl := range []int{83, 84, 85, 89, 90, 91, 92, 100, 255, 256, 1000, 70000} {
			for _, dl := range []int{0, 1, 20} {
				do("bech32.Encode", M{"hrp": vInts([]byte(strings.Repeat("a", hl))), "data": vInts(make([]byte, dl))})
			}
		}
		// every letter as the ONLY letter of its case: in a prefix handed to Encode, and in a string handed to Decode
		{
			const abc = "abcdefghijklmnopqrstuvwxyz"
			data := []byte{1, 2, 3, 4, 5}
			valid, _ := Encode(abc, data)
			for i := 0; i < 26; i++ {
				c := abc[i]
				do("bech32.Encode", M{"hrp": vInts([]byte{'m', c - 32}), "data": vInts(data)})
				do("bech32.Encode", M{"hrp": vInts([]byte{'M', '2', c}), "data": vInts(data)})
				if valid != "" {
					b := []byte(valid)
					b[i] -= 32
					dec(string(b))
					u := []byte(strings.ToUpper(valid))
					u[i] += 32
					dec(string(u))
				}
			}
		}
		// code points whose case mappings land in (or near) ASCII, plus other multi-byte material
		special := []string{"K", "ſ", "İ", "ı", "Ω", "Å", "ẞ", "Ⱥ", "ß", "é",
			"\xff", "\xc0\x80", "\xe2\x84", "̇", "�", "\U0001f600"}
		for k := 0; k < n; k++ {
			hl := 1 + r.Intn(6)
			if k%10 == 0 {
				hl = 1 + r.Intn(83)
			}
			hrp := randHrp(r, hl)
			// arbitrary 5-bit symbols (all padding patterns)
			maxSyms := 90 - hl - 7
			if maxSyms < 0 {
				maxSyms = 0
			}
			ns := r.Intn(maxSyms + 1)
			if k%3 == 0 && maxSyms > 12 {
				ns = r.Intn(12)
			}
			syms := make([]byte, ns)
			for i := range syms {
				syms[i] = byte(r.Intn(32))
			}
			if k%2 == 0 && ns > 0 { // make the padding zero more often
				rem := (5 * ns) % 8
				if rem < 5 {
					syms[ns-1] &^= byte(1<<uint(rem)) - 1
				}
			}
			s := enc5(hrp, syms)
			dec(s)
			dec(upperASCII(s))
			// one part (hrp / data / checksum) in the other case
			cut := []int{len(hrp), len(hrp) + 1 + ns}[r.Intn(2)]
			if r.Intn(2) == 0 {
				dec(upperASCII(s[:cut]) + s[cut:])
			} else {
				dec(s[:cut] + upperASCII(s[cut:]))
			}
			b := []byte(s)
			switch k % 8 {
			case 0: // substitution by a charset character
				b[r.Intn(len(b))] = csAlphabet[r.Intn(32)]
			case 1: // insertion
				i := r.Intn(len(b) + 1)
				b = append(b[:i], append([]byte{byte(33 + r.Intn(94))}, b[i:]...)...)
			case 2: // deletion
				i := r.Intn(len(b))
				b = append(b[:i], b[i+1:]...)
			case 3: // case flip of one letter
				i := r.Intn(len(b))
				if b[i] >= 'a' && b[i] <= 'z' {
					b[i] -= 32
				}
			case 4: // arbitrary byte
				b[r.Intn(len(b))] = byte(r.Intn(256))
			case 5: // multi-byte code point substituted for one character, both cases
				i := r.Intn(len(b))
				sp := special[r.Intn(len(special))]
				b = append(b[:i], append([]byte(sp), b[i+1:]...)...)
				if r.Intn(2) == 0 {
					b = []byte(upperASCII(string(b)))
				}
			case 6: // Kelvin sign / long s for every k / s of the upper-cased string
				u := []byte(upperASCII(s))
				var nb []byte
				for _, c := range u {
					if c == 'K' && r.Intn(2) == 0 {
						nb = append(nb, "K"...)
					} else if c == 'S' && r.Intn(4) == 0 {
						nb = append(nb, "ſ"...)
					} else {
						nb = append(nb, c)
					}
				}
				b = nb
			case 7: // truncation
				b = b[:r.Intn(len(b)+1)]
			}
			dec(string(b))
			// every single-bit flip of a valid string (bytes one bit away from charset characters: control bytes, other case, ...)
			if k%vEnvInt("VERIF_FLIPEVERY", 6) == 0 && len(s) <= 40 {
				for i := 0; i < len(s); i++ {
					for bit := uint(0); bit < 8; bit++ {
						m := []byte(s)
						m[i] ^= 1 << bit
						dec(string(m))
					}
				}
			}
			// random bytes
			if k%4 == 0 {
				rb := make([]byte, r.Intn(100))
				r.Read(rb)
				dec(string(rb))
			}
			// Encode
			dl := r.Intn(53)
			data := make([]byte, dl)
			r.Read(data)
			h := hrp
			switch k % 6 {
			case 1:
				h = upperASCII(h)
			case 2:
				hb := []byte(h)
				hb[r.Intn(len(hb))] = byte(r.Intn(256))
				h = string(hb)
			case 3:
				h = randHrp(r, 60+r.Intn(30))
			case 4:
				hb := []byte(h + "x")
				hb[0] = 'Q'
				h = string(hb)
			}
			do("bech32.Encode", M{"hrp": vInts([]byte(h)), "data": vInts(data)})
			if k%16 == 3 { // code points beyond ASCII whose low byte is a printable ASCII value
				for _, c := range []rune{0x0141, 0x0131, 0x4E2D, 0x0100 + rune('a'+r.Intn(26)), 0x10000 + rune('0'+r.Intn(10))} {
					do("bech32.Encode", M{"hrp": vInts([]byte("a" + string(c) + "b")), "data": vInts(data)})
				}
			}
		}
	}(func() func(op string, in M) {
		ndo := 0
		return func(op string, in M) {
			in = vNorm(in)
			rec.emit(op, in, vRun(op, in))
			ndo++
			if ndo%5 == 0 { // the same call again, twice (see vMain)
				rec.emit(op, in, vRun(op, in))
				rec.emit(op, in, vRun(op, in))
			}
			if op == "bech32.Encode" && ndo%3 == 0 { // the same prefix with other data of the same length, from the same buffer
				d2 := vBytes(in["data"])
				for i := range d2 {
					d2[i] = byte(int(d2[i])*7 + i + ndo)
				}
				in2 := vNorm(M{"hrp": in["hrp"], "data": vInts(d2)})
				rec.emit(op, in2, vRun(op, in2))
			}
		}
	}())
}
