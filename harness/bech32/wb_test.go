package bech32

// white-box part of the bech32 driver: operations on unexported functions

func init() {
	vWB["bech32.polymod"] = func(in M) M {
		vals := vBytes(in["values"])
		var v int
		p := vCatch(func() { v = bech32Polymod(vals) })
		return M{"v": v, "panic": p}
	}
}
