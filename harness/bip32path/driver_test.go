package bip32path

import (
	"strings"
	"testing"
)

const vHardened = uint32(1) << 31 // BIP-32 hardened bit (the driver's own constant)

func pathOut(p Path) [][]int {
	r := make([][]int, len(p))
	for i, v := range p {
		h := 0
		if v >= vHardened {
			h = 1
		}
		r[i] = []int{h, int(v &^ vHardened)}
	}
	return r
}

func pathIn(v interface{}) Path {
	if v == nil {
		return Path{}
	}
	a := v.([]interface{})
	p := make(Path, len(a))
	for i, x := range a {
		e := vIntList(x)
		p[i] = uint32(e[1])
		if e[0] == 1 {
			p[i] |= vHardened
		}
	}
	return p
}

func vRun(op string, in M) M {
	switch op {
	case "path.Parse":
		s := string(vBytes(in["s"]))
		var p Path
		var err error
		pn := vCatch(func() { p, err = ParsePath(s) })
		out := M{"ok": err == nil && pn == "", "path": pathOut(p), "panic": pn, "unmarshal_ok": false, "unmarshal": [][]int{}}
		if err != nil {
			out["path"] = [][]int{}
		}
		var u Path
		var e2 error
		p2 := vCatch(func() { e2 = u.UnmarshalText([]byte(s)) })
		out["unmarshal_ok"] = e2 == nil && p2 == ""
		if e2 == nil && p2 == "" {
			out["unmarshal"] = pathOut(u)
		}
		// the caller owns the returned paths: it overwrites them (a later parse of the same text must not care)
		for i := range p {
			p[i] ^= 0x5c5c5c5c
		}
		for i := range u {
			u[i] ^= 0x5c5c5c5c
		}
		return out
	case "path.String":
		p := pathIn(in["path"])
		var s string
		var mt []byte
		pn := vCatch(func() { s = p.String(); mt, _ = p.MarshalText() })
		out := M{"str": vInts([]byte(s)), "marshal": vInts(mt), "panic": pn, "reparse_ok": false, "reparse": [][]int{}}
		vKeepStr("Path.String result", s)
		vOwnOrKeep("Path.MarshalText result", mt)
		var q Path
		var err error
		p2 := vCatch(func() { q, err = ParsePath(s) })
		out["reparse_ok"] = err == nil && p2 == ""
		if err == nil && p2 == "" {
			out["reparse"] = pathOut(q)
		}
		for i := range q {
			q[i] ^= 0x5c5c5c5c
		}
		return out
	}
	panic("unknown op " + op)
}

func TestVerifDriver(t *testing.T) {
	vMain(vRun, func(do func(string, M)) {
		{ // long paths: any length prints and parses back
			lr := vRand(101)
			for _, ln := range []int{255, 256, 257, 300 + lr.Intn(700)} {
				p := make([][]int, ln)
				for i := range p {
					p[i] = []int{lr.Intn(2), lr.Intn(1 << 31)}
				}
				do("path.String", M{"path": p})
			}
		}
		// every byte value at every structural position of a path string (as marker, instead of the marker, inside the
		// digits, instead of the separator / the prefix, at both ends): only digits, H, ' and / mean anything
		for b := 0; b < 256; b++ {
			c := string([]byte{byte(b)})
			for _, t := range []string{"m/44" + c, "m/44" + c + "/0", "44" + c, "44" + c + "/0'/7", c + "/1", "m" + c + "1", "m/4" + c + "4", "m/44'" + c, "m/44H" + c + "/1", c, "m/" + c, "0/" + c + "/0"} {
				do("path.Parse", M{"s": vInts([]byte(t))})
			}
		}
		// components beyond every machine word: values around 2^31, 2^32, 2^63, 2^64, 2^128 and powers of ten, also values
		// that are small again modulo 2^32 / 2^64 (a hand-written digit loop wraps), plain / hardened, with leading zeros,
		// at the first, a middle and the last position
		{
			big := []string{"2147483647", "2147483648", "2147483649", "4294967295", "4294967296", "4294967340", "6442450944",
				"9223372036854775807", "9223372036854775808", "18446744073709551615", "18446744073709551616", "18446744073709551660",
				"18446744075857035263", "18446744075857035264", "36893488147419103232", "36893488147419103276",
				"10000000000", "99999999999", "10000000000000000000", "100000000000000000000",
				"340282366920938463463374607431768211456", "340282366920938463463374607431768211500",
				"115792089237316195423570985008687907853269984665640564039457584007913129639936", "1" + strings.Repeat("0", 400) + "7"}
			for _, v := range big {
				for _, z := range []string{"", "0", "000"} {
					for _, m := range []string{"", "'", "H"} {
						for _, t := range []string{"m/" + z + v + m, z + v + m + "/1", "m/44'/" + z + v + m + "/0", "m/0/" + z + v + m} {
							do("path.Parse", M{"s": vInts([]byte(t))})
						}
					}
				}
			}
		}
		r := vRand(10)
		n := vEnvInt("VERIF_N", 500)
		bound := []uint32{0, 1, 7, 8, 9, 10, 99, 100, 1<<31 - 1, 1 << 31, 1<<31 + 1, 1<<32 - 1, 1<<31 + 8, 1<<31 + 10}
		alpha := []string{"0", "1", "2", "7", "8", "9", "m", "/", "H", "'", "x", " ", "+", "-", "_", "٣", "00", "08", "010", "m/", "2147483648", "2147483647", "4294967295"}
		for k := 0; k < n; k++ {
			// round trip of random paths
			l := r.Intn(13)
			p := make(Path, l)
			for i := range p {
				switch r.Intn(3) {
				case 0:
					p[i] = bound[r.Intn(len(bound))]
				case 1:
					p[i] = r.Uint32()
				default:
					p[i] = uint32(r.Intn(1000)) | uint32(r.Intn(2))<<31
				}
			}
			do("path.String", M{"path": pathOut(p)})
			// the printed form with leading zeros / H markers / without prefix
			s := ""
			for i, v := range p {
				if i > 0 || r.Intn(4) != 0 {
					if i == 0 {
						s += "m"
					}
					s += "/"
				}
				for z := r.Intn(3); z > 0 && r.Intn(2) == 0; z-- {
					s += "0"
				}
				s += itoa(v &^ vHardened)
				if v >= vHardened {
					s += []string{"'", "H"}[r.Intn(2)]
				}
			}
			do("path.Parse", M{"s": vInts([]byte(s))})
			// random strings over the alphabet
			t := ""
			for i := r.Intn(8); i > 0; i-- {
				t += alpha[r.Intn(len(alpha))]
			}
			do("path.Parse", M{"s": vInts([]byte(t))})
			// mutate one byte of a valid string
			if len(s) > 0 {
				b := []byte(s)
				b[r.Intn(len(b))] = []byte("0189m/H'x ")[r.Intn(10)]
				do("path.Parse", M{"s": vInts(b)})
			}
		}
	})
}

func itoa(v uint32) string {
	if v == 0 {
		return "0"
	}
	var b []byte
	for v > 0 {
		b = append([]byte{byte('0' + v%10)}, b...)
		v /= 10
	}
	return string(b)
}
