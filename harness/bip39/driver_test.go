package bip39

import (
	"fmt"
	"time"
	"sync"
	"os/exec"
	"encoding/json"
	"unicode/utf8"
	"crypto/hmac"
	"crypto/sha256"
	"crypto/sha512"
	"errors"
	"math/rand"
	"os"
	"strings"
	"testing"
	"unicode"

	"github.com/wollac/iota-crypto-demo/pkg/bip39/wordlist"
	"golang.org/x/text/unicode/norm"
)

var curLang = ""
var rec *vRec

// customList: a run-time registered word list (growth of the specification: the registry is spec state)
type customList struct{ words []string }

func (c *customList) Contains(w string) bool { return c.Index2(w) >= 0 }
func (c *customList) Word(i int) string       { return c.words[i] }
func (c *customList) Index(w string) int {
	if i := c.Index2(w); i >= 0 {
		return i
	}
	panic("unknown word")
}
func (c *customList) Index2(w string) int {
	for i, x := range c.words {
		if x == w {
			return i
		}
	}
	return -1
}

func wordsOut(ws []string) [][]int {
	r := make([][]int, len(ws))
	for i, w := range ws {
		r[i] = vInts([]byte(w))
	}
	return r
}

func wordsIn(v interface{}) Mnemonic {
	var ws Mnemonic
	if a, ok := v.([]interface{}); ok {
		for _, x := range a {
			ws = append(ws, string(vBytes(x)))
		}
	}
	return ws
}

func errKind(err error) string {
	switch {
	case err == nil:
		return ""
	case errors.Is(err, ErrInvalidEntropySize):
		return "size"
	case errors.Is(err, ErrInvalidMnemonic):
		return "mnemonic"
	case errors.Is(err, ErrInvalidChecksum):
		return "checksum"
	}
	return "other"
}

// dumpWords: the selected word list.  White box (wb_test.go): read from the package variable.  Fallback through the
// public API: word i is the first word of the sentence of a 16-byte entropy whose leading 11 bits are i.
func dumpWords() []string {
	if f, ok := vWB["bip39.words"]; ok {
		return f(nil)["words"].([]string)
	}
	ws := make([]string, 2048)
	for i := range ws {
		e := make([]byte, 16)
		e[0], e[1] = byte(i>>3), byte(i&7)<<5
		m, err := EntropyToMnemonic(e)
		if err != nil || len(m) == 0 {
			panic("cannot dump the word list through EntropyToMnemonic")
		}
		ws[i] = m[0]
	}
	return ws
}

// candidate entropy by the driver's own bit slicing (only selects which SHA-256
// fact is logged; the specification re-derives the candidate and rejects a
// fact about anything else)
func candidate(ws Mnemonic) []byte {
	n := len(ws)
	if n == 0 || n%3 != 0 {
		return nil
	}
	idx := map[string]int{}
	for i, w := range dumpWords() {
		idx[w] = i
	}
	var bits []byte
	for _, w := range ws {
		i, ok := idx[w]
		if !ok {
			return nil
		}
		for b := 10; b >= 0; b-- {
			bits = append(bits, byte(i>>uint(b))&1)
		}
	}
	entBits := len(bits) * 32 / 33
	out := make([]byte, entBits/8)
	for i := 0; i < entBits; i++ {
		out[i/8] |= bits[i] << uint(7-i%8)
	}
	return out
}

func shaFacts(ent []byte) M {
	if ent == nil {
		return M{"ent": []int{}, "sha": []int{}}
	}
	h := sha256.Sum256(ent)
	return M{"ent": vInts(ent), "sha": vInts(h[:])}
}

// PBKDF2-HMAC-SHA512, 2048 iterations, 64 bytes, written from RFC 8018 with crypto/hmac only
func pbkdf2Ref(pw, salt []byte) []byte {
	prf := hmac.New(sha512.New, pw)
	prf.Write(salt)
	prf.Write([]byte{0, 0, 0, 1})
	u := prf.Sum(nil)
	t := append([]byte{}, u...)
	for i := 1; i < 2048; i++ {
		prf.Reset()
		prf.Write(u)
		u = prf.Sum(nil)
		for j := range t {
			t[j] ^= u[j]
		}
	}
	return t
}

func runF(op string, in M) (M, M) {
	switch op {
	case "bip39.SetWordList":
		lang := in["lang"].(string)
		var err error
		p := vCatch(func() { err = SetWordList(lang) })
		out := M{"ok": err == nil && p == "", "panic": p, "words": [][]int{}}
		if err == nil && p == "" {
			curLang = lang
			out["words"] = wordsOut(dumpWords())
		}
		return out, M{}
	case "bip39.RegisterWordList":
		lang := in["lang"].(string)
		var ws []string
		for _, x := range in["words"].([]interface{}) {
			ws = append(ws, string(vBytes(x)))
		}
		p := vCatch(func() { RegisterWordList(lang, func() wordlist.List { return &customList{ws} }) })
		return M{"panic": p}, M{}
	case "bip39.par":
		out := parChild(in)
		for try := 0; try < 4 && out["panic"] == ""; try++ { // each child is a fresh process: a fresh chance to collide
			out = parChild(in)
		}
		return out, M{}
	case "bip39.EntropyToMnemonic":
		ent := vBuf("EntropyToMnemonic entropy", in["entropy"]) // the caller's buffer, reused by later calls
		keep := append([]byte{}, ent...)
		var m Mnemonic
		var err error
		p := vCatch(func() { m, err = EntropyToMnemonic(ent) })
		out := M{"ok": err == nil && p == "", "err": errKind(err), "words": wordsOut(m), "panic": p, "unmodified": string(keep) == string(ent)}
		f := shaFacts(ent)
		for i := range m { // the caller owns the returned sentence
			m[i] = "overwritten"
		}
		return out, f
	case "bip39.MnemonicToEntropy":
		ws := wordsIn(in["words"])
		var ent []byte
		var err error
		p := vCatch(func() { ent, err = MnemonicToEntropy(ws) })
		out := M{"ok": err == nil && p == "", "err": errKind(err), "entropy": vInts(ent), "panic": p}
		vOwnOrKeep("MnemonicToEntropy result", ent)
		return out, shaFacts(candidate(ws))
	case "bip39.MnemonicToSeed":
		ws := wordsIn(in["words"])
		pass := string(vBytes(in["pass"]))
		var seed []byte
		var err error
		p := vCatch(func() { seed, err = MnemonicToSeed(ws, pass) })
		out := M{"ok": err == nil && p == "", "err": errKind(err), "seed": vInts(seed), "panic": p}
		vOwnOrKeep("MnemonicToSeed result", seed) // e.g. wiped by the caller after use
		f := shaFacts(candidate(ws))
		nf := norm.NFKD.String(pass)
		pw := []byte(strings.Join(ws, " "))
		salt := []byte("mnemonic" + nf)
		f["nfkd_in"], f["nfkd"] = vInts([]byte(pass)), vInts([]byte(nf))
		// "any Unicode string": byte strings that are not valid UTF-8 are outside C09's domain; so are the rare strings on
		// which libraries legitimately differ (x/text inserts U+034F after 30 combining marks, plain NFKD does not)
		out["pass_in_domain"] = utf8.ValidString(pass) && strings.Count(nf, "\u034f") == strings.Count(pass, "\u034f")
		f["pbkdf_pw"], f["pbkdf_salt"] = vInts(pw), vInts(salt)
		f["pbkdf_out"] = vInts(pbkdf2Ref(pw, salt))
		return out, f
	case "bip39.ParseMnemonic":
		s := string(vBytes(in["s"]))
		var m, m2, m3 Mnemonic
		var printed string
		p := vCatch(func() {
			m = ParseMnemonic(s)
			printed = m.String()
			m2 = ParseMnemonic(printed)
			mt, _ := m.MarshalText()
			m3 = Mnemonic{"left", "over", "words"} // the receiver held another sentence before
			_ = m3.UnmarshalText(mt)
		})
		out := M{"words": wordsOut(m), "reparse": wordsOut(m2), "unmarshal": wordsOut(m3), "printed": vInts([]byte(printed)), "panic": p}
		return out, M{"nfkd_in": vInts([]byte(s)), "nfkd": vInts([]byte(norm.NFKD.String(s)))}
	}
	panic("unknown op " + op)
}

func emit(op string, in M) M {
	in = vNorm(in)
	if op != "bip39.SetWordList" && op != "bip39.ParseMnemonic" && op != "bip39.RegisterWordList" {
		if l, ok := in["lang"].(string); ok && l != curLang {
			setLang(l)
		}
		in["lang"] = curLang
	}
	out, facts := runF(op, in)
	rec.i++
	writeEvent(rec, op, in, out, facts)
	// now and then the same call is made again, twice (what the first call left behind must not matter)
	nEmit++
	if nEmit%4 == 0 && (op == "bip39.MnemonicToSeed" || op == "bip39.MnemonicToEntropy" || op == "bip39.EntropyToMnemonic") {
		for q := 0; q < 2; q++ {
			o2, f2 := runF(op, in)
			rec.i++
			writeEvent(rec, op, in, o2, f2)
		}
	}
	return out
}

var nEmit int

func setLang(l string) {
	rec.newTrace()
	emit("bip39.SetWordList", M{"lang": l})
}

var passPool = []string{"", "TREZOR", "passphrase", "100%", "%s%d%v%%", "\uff05x", "a\\b\"c", "\x00nul", "tab\there", "\u00e9", "e\u0301", "\ufb01\u2460\uff46\uff55\uff4c\uff4c\u3000\uff57\uff49\uff44\uff54\uff48", "\u212b", "\u01c6", "\uff76\uff9e",
	"a long passphrase that goes on and on and on and on and on and on and on and on and on and on and on and on and on and on and on and on and on!",
	"\u33bf", "\u1e9b\u0323", "\xff\xfe", "\u0928\u092e\u0938\u094d\u0924\u0947", "  spaces  "}

// all Unicode white space (unicode.IsSpace) plus three look-alikes that are NOT white space
var spaces = []string{" ", "\t", "\n", "\v", "\f", "\r", "\u0085", "\u00a0", "\u1680", "\u2000", "\u2001", "\u2002", "\u2003", "\u2004", "\u2005",
	"\u2006", "\u2007", "\u2008", "\u2009", "\u200a", "\u2028", "\u2029", "\u202f", "\u205f", "\u3000", " \u200b ", " \u180e ", " \ufeff "}

// code points that are not white space themselves but whose NFKD form contains white space
// (e.g. U+00B4 -> U+0020 U+0301): the class where "normalise, then split" and "split, then normalise" differ
func nfkdSpacers() []string {
	var res []string
	for c := rune(0x80); c < 0x10000; c++ {
		if unicode.IsSpace(c) || (c >= 0xd800 && c < 0xe000) {
			continue
		}
		for _, d := range norm.NFKD.String(string(c)) {
			if unicode.IsSpace(d) {
				res = append(res, string(c))
				break
			}
		}
	}
	return res
}

func vBytesOfInts(a []int) []byte {
	b := make([]byte, len(a))
	for i, x := range a {
		b[i] = byte(x)
	}
	return b
}

func fullWidth(w string) string {
	var sb strings.Builder
	for _, c := range w {
		if c >= '!' && c <= '~' {
			sb.WriteRune(c - '!' + 0xff01)
		} else {
			sb.WriteRune(c)
		}
	}
	return sb.String()
}

// alsoSeed: every word sequence that chain() decodes is also handed to MnemonicToSeed (C09: "an invalid mnemonic yields
// an error and no seed" is about the same set of sequences as C03's decoder, so C09 inherits all of C03's input classes)
var alsoSeed bool

func emitDecode(in M) {
	emit("bip39.MnemonicToEntropy", in)
	if alsoSeed {
		c := M{"words": in["words"], "pass": vInts([]byte("p\u00e5ss"))}
		if l, ok := in["lang"]; ok {
			c["lang"] = l
		}
		emit("bip39.MnemonicToSeed", c)
	}
}

func chain(r *rand.Rand, ent []byte, full bool) {
	out := emit("bip39.EntropyToMnemonic", M{"entropy": vInts(ent)})
	if out["ok"] != true {
		return
	}
	ws := out["words"].([][]int)
	emitDecode(M{"words": ws})
	{ // the empty string is not a list word: in place of the first word, and of every leading occurrence of word 0
		c := make([][]int, len(ws))
		copy(c, ws)
		first := string(vBytesOfInts(ws[0]))
		for i := 0; i < len(c) && (i == 0 || string(vBytesOfInts(c[i])) == first); i++ {
			c[i] = []int{}
		}
		emitDecode(M{"words": c})
	}
	if !full {
		return
	}
	n := len(ws)
	mut := func(f func(w [][]int) [][]int) {
		c := make([][]int, len(ws))
		copy(c, ws)
		emitDecode(M{"words": f(c)})
	}
	all := dumpWords()
	// swap two words, replace the last word (incl. other valid-checksum candidates), unknown word, wrong counts
	mut(func(w [][]int) [][]int { i, j := r.Intn(n), r.Intn(n); w[i], w[j] = w[j], w[i]; return w })
	for q := 0; q < 4; q++ {
		mut(func(w [][]int) [][]int { w[n-1] = vInts([]byte(all[r.Intn(2048)])); return w })
	}
	mut(func(w [][]int) [][]int { w[r.Intn(n)] = vInts([]byte(all[r.Intn(2048)])); return w })
	mut(func(w [][]int) [][]int { w[r.Intn(n)] = vInts([]byte("notaword")); return w })
	// unknown words that mean something to a formatting routine, to a path or to a shell
	for _, bad := range []string{"%v", "50%off", "%s%s%s", "%!d(string=", "%", "a\x00b", "../x", "\\n", "{}", "$1"} {
		mut(func(w [][]int) [][]int { w[r.Intn(n)] = vInts([]byte(bad)); return w })
	}
	// every bit of the embedded checksum matters: flip each of the ENT/32 checksum bits through the last word
	idxOf := map[string]int{}
	for i, w := range all {
		idxOf[w] = i
	}
	for b := 0; b < n/3; b++ {
		pos, bit := n-1, uint(b) // checksum bit b (from the end) lives in the last word, or in the one before it if b >= 11
		if b >= 11 {
			pos, bit = n-2, uint(b-11)
		}
		mut(func(w [][]int) [][]int {
			w[pos] = vInts([]byte(all[idxOf[string(vBytesOfInts(w[pos]))]^(1<<bit)]))
			return w
		})
	}
	// a word spelled differently but Unicode-equivalent (NFC / full-width) is not a list word
	mut(func(w [][]int) [][]int {
		i := r.Intn(n)
		orig := string(vBytesOfInts(w[i]))
		alt := norm.NFC.String(orig)
		if alt == orig {
			alt = fullWidth(orig)
		}
		w[i] = vInts([]byte(alt))
		return w
	})
	// a sequence whose printed form equals the valid sentence but whose first element holds two words
	mut(func(w [][]int) [][]int {
		joined := append(append(append([]int{}, w[0]...), 32), w[1]...)
		return append([][]int{joined}, w[2:]...)
	})
	// history: the same words again after the valid decode (must give the same answer), then under the other list, then back
	emitDecode(M{"words": ws})
	if curLang == "english" || curLang == "japanese" {
		back := curLang
		other := map[string]string{"english": "japanese", "japanese": "english"}[back]
		emit("bip39.SetWordList", M{"lang": other})
		emitDecode(M{"words": ws, "lang": other})
		emit("bip39.SetWordList", M{"lang": back})
		emitDecode(M{"words": ws, "lang": back})
	}
	mut(func(w [][]int) [][]int { return w[:n-1] })
	mut(func(w [][]int) [][]int { return append(w, w[0]) })
	mut(func(w [][]int) [][]int { return append(w, w[0], w[1], w[2]) })
	mut(func(w [][]int) [][]int { return w[:r.Intn(n)] })
}

// reRegister: a list registered at run time, used, then ANOTHER list registered under the same key and selected again:
// the second registration replaces the first (spec: registry' = (lang :> words) @@ registry), nothing of the first survives
func reRegister(r *rand.Rand, rec *vRec) {
	setLang("english")
	eng := dumpWords()
	mk := func(suffix string, rev bool) [][]int {
		c := make([][]int, 2048)
		for i := range c {
			j := i
			if rev {
				j = 2047 - i
			}
			c[i] = vInts([]byte(eng[j] + suffix))
		}
		return c
	}
	rec.newTrace()
	emit("bip39.RegisterWordList", M{"lang": "again", "words": mk("y", true)})
	emit("bip39.SetWordList", M{"lang": "again"})
	e1 := make([]byte, 16)
	r.Read(e1)
	chain(r, e1, false)
	first := emit("bip39.EntropyToMnemonic", M{"entropy": vInts(e1)})
	emit("bip39.RegisterWordList", M{"lang": "again", "words": mk("y", false)}) // same words, other order
	emit("bip39.SetWordList", M{"lang": "again"})
	chain(r, e1, true)
	if ws, ok := first["words"].([][]int); ok {
		emitDecode(M{"words": ws}) // the sentence of the replaced list: judged under the new one
	}
	emit("bip39.RegisterWordList", M{"lang": "again", "words": mk("z", false)}) // other words
	emit("bip39.SetWordList", M{"lang": "again"})
	chain(r, e1, false)
	if ws, ok := first["words"].([][]int); ok {
		emitDecode(M{"words": ws})
	}
	emit("bip39.SetWordList", M{"lang": "english"})
}

// parChild: concurrent use of the package right after a word list was selected, in a child process (a data race on
// a map aborts the whole process: that, too, is an answer)
func parChild(in M) M {
	spec, _ := json.Marshal(in)
	cmd := exec.Command(os.Args[0], "-test.run", "^TestVerifParChild$", "-test.count=1")
	cmd.Env = append(os.Environ(), "VERIF_PAR_IN="+string(spec))
	done := make(chan struct{})
	var outb []byte
	go func() { outb, _ = cmd.CombinedOutput(); close(done) }()
	select {
	case <-done:
	case <-time.After(120 * time.Second):
		cmd.Process.Kill()
		panic("verif: bip39 concurrent child timed out (infrastructure)")
	}
	for _, ln := range strings.Split(string(outb), "\n") {
		if strings.HasPrefix(ln, "VERIF-PAR-RESULT") {
			return M{"panic": strings.TrimSpace(strings.TrimPrefix(ln, "VERIF-PAR-RESULT"))}
		}
	}
	for _, ln := range strings.Split(string(outb), "\n") {
		if strings.HasPrefix(ln, "panic:") || strings.HasPrefix(ln, "fatal error:") {
			return M{"panic": "verif: concurrent use crashed the process: " + ln}
		}
	}
	panic("verif: bip39 concurrent child gave no result (infrastructure): " + string(outb))
}

func TestVerifParChild(t *testing.T) {
	raw := os.Getenv("VERIF_PAR_IN")
	if raw == "" {
		t.Skip()
	}
	var in M
	if err := json.Unmarshal([]byte(raw), &in); err != nil {
		panic(err)
	}
	lang := in["lang"].(string)
	r := rand.New(rand.NewSource(int64(vIntOf(in["seed"]))))
	if err := SetWordList(lang); err != nil {
		panic(err)
	}
	const K = 16
	ents, sents, seeds := make([][]byte, K), make([]Mnemonic, K), make([][]byte, K)
	passes := []string{"", "TREZOR", "a", "bb", "\u00e9", "pass phrase", "0123456789", "zz", "1", "22", "333", "4444", "55555", "x y", "\u212b", "end"}
	for k := range ents {
		ents[k] = make([]byte, []int{16, 24, 32}[k%3])
		r.Read(ents[k])
		m, err := EntropyToMnemonic(ents[k])
		if err != nil {
			panic(err)
		}
		sents[k] = m
		seeds[k] = pbkdf2Ref([]byte(strings.Join(m, " ")), []byte("mnemonic"+norm.NFKD.String(passes[k])))
	}
	if err := SetWordList(lang); err != nil { // a freshly selected list: nothing has been decoded with it yet
		panic(err)
	}
	msg := ""
	var mu sync.Mutex
	var wg sync.WaitGroup
	start := make(chan struct{})
	deadline := time.Now().Add(time.Duration(vEnvInt("VERIF_PAR_MS", 1200)) * time.Millisecond)
	for g := 0; g < K; g++ {
		wg.Add(1)
		go func(g int) {
			defer wg.Done()
			<-start
			for rep := 0; rep < 6 || time.Now().Before(deadline); rep++ {
				e, err := MnemonicToEntropy(append(Mnemonic{}, sents[g]...))
				s, err2 := MnemonicToSeed(append(Mnemonic{}, sents[g]...), passes[g])
				if err != nil || err2 != nil || string(e) != string(ents[g]) || string(s) != string(seeds[g]) {
					mu.Lock()
					msg = "verif: a call made concurrently with other calls gave a different answer than alone"
					mu.Unlock()
					return
				}
			}
		}(g)
	}
	close(start)
	wg.Wait()
	fmt.Println("VERIF-PAR-RESULT " + msg)
}

func TestVerifDriver(t *testing.T) {
	rec = vOpen()
	defer rec.close()
	if vMode() == "replay" {
		for _, v := range vReadInputs() {
			if v.In == nil {
				v.In = M{}
			}
			if v.Op == "bip39.EntropyToMnemonic" && v.In["chain"] == true {
				if l, ok := v.In["lang"].(string); ok && l != curLang {
					setLang(l)
				}
				chain(vRand(3), vBytes(v.In["entropy"]), false)
				continue
			}
			vForce = v.Mode
			emit(v.Op, v.In)
			vForce = ""
		}
		return
	}
	r := vRand(3)
	r0 := vRand(33)
	n := vEnvInt("VERIF_N", 60)
	focus := os.Getenv("VERIF_FOCUS")
	langs := []string{"english", "japanese"}
	if vEnvInt("VERIF_PAR_MS", 1200) > 0 {
		defer func() {
			for _, lg := range langs {
				setLang(lg)
				emit("bip39.par", M{"seed": r0.Intn(1 << 30)})
			}
		}()
	}
	lens := []int{16, 20, 24, 28, 32, 36, 40, 44, 48, 52, 56, 60, 64}
	if focus != "c09" {
		setLang("klingon")
		for round := 0; round < 2+n/100; round++ {
			for _, lg := range langs {
				setLang(lg)
				for k := 0; k < n; k++ {
					l := lens[r.Intn(len(lens))]
					ent := make([]byte, l)
					r.Read(ent)
					switch k % 6 {
					case 1: // leading zero bytes
						for i := 0; i < 1+r.Intn(3); i++ {
							ent[i] = 0
						}
					case 2: // trailing zero bytes
						for i := 0; i < 1+r.Intn(3); i++ {
							ent[l-1-i] = 0
						}
					case 3:
						for i := range ent {
							ent[i] = []byte{0, 0xff}[r.Intn(2)]
						}
					case 4: // first word index sweeps all 2048 values over a run
						v := (k/6 + round*977 + int(vSeed())*131) % 2048
						ent[0] = byte(v >> 3)
						ent[1] = byte(v<<5) | ent[1]&0x1f
					}
					chain(r, ent, k%3 == 0)
					if k%10 == 0 {
						bad := make([]byte, []int{0, 1, 15, 17, 31, 33, 65, 68, 128}[r.Intn(9)])
						emit("bip39.EntropyToMnemonic", M{"entropy": vInts(bad)})
					}
				}
			}
		}
		// a list registered at run time: the English words in reverse order with a suffix
		{
			setLang("english")
			eng := dumpWords()
			custom := make([][]int, 2048)
			for i := range custom {
				custom[i] = vInts([]byte(eng[2047-i] + "x"))
			}
			rec.newTrace()
			emit("bip39.SetWordList", M{"lang": "custom"})       // not registered yet: must fail
			emit("bip39.RegisterWordList", M{"lang": "custom", "words": custom})
			emit("bip39.SetWordList", M{"lang": "custom"})
			for k := 0; k < 6; k++ {
				ent := make([]byte, lens[r.Intn(len(lens))])
				r.Read(ent)
				if k%2 == 0 {
					ent[0] = 0
				}
				chain(r, ent, k == 0)
			}
			emit("bip39.SetWordList", M{"lang": "english"})
			chain(r, make([]byte, 16), false)
		}
		reRegister(r, rec)
		// every word index of each list at least once (thorough: all, quick: a stride)
		stride := vEnvInt("VERIF_STRIDE", 16)
		for _, lg := range langs {
			setLang(lg)
			for v := int(vSeed()) % stride; v < 2048; v += stride {
				ent := make([]byte, 16)
				r.Read(ent)
				ent[0] = byte(v >> 3)
				ent[1] = byte(v<<5) | ent[1]&0x1f
				chain(r, ent, false)
			}
		}
		return
	}
	// C09: seeds and sentence parsing
	// ... first: every class of word sequences of C03, handed to MnemonicToSeed as well
	alsoSeed = true
	for _, lg := range langs {
		setLang(lg)
		for _, el := range []int{16, 32, 64} {
			ent := make([]byte, el)
			r.Read(ent)
			chain(r, ent, true)
		}
	}
	reRegister(r, rec)
	alsoSeed = false
	spacers := nfkdSpacers()
	for round := 0; round < 1+n/40; round++ {
		for _, lg := range langs {
			setLang(lg)
			for k := 0; k < n; k++ {
				ent := make([]byte, lens[r.Intn(len(lens))])
				r.Read(ent)
				m, _ := EntropyToMnemonic(ent)
				ws := wordsOut(m)
				pass := passPool[r.Intn(len(passPool))]
				if k%4 == 1 {
					pass += spacers[r.Intn(len(spacers))] + passPool[r.Intn(len(passPool))]
				}
				if k%5 == 0 {
					b := make([]byte, r.Intn(12))
					r.Read(b)
					pass = string(b)
				}
				if k%7 == 3 { // invalid mnemonic
					ws[len(ws)-1] = vInts([]byte(dumpWords()[r.Intn(2048)]))
				}
				if k%7 == 6 { // exactly one checksum bit wrong (the highest one for long sentences)
					all := dumpWords()
					b := len(m)/3 - 1 - r.Intn(2)
					pos, bit := len(m)-1, uint(b)
					if b >= 11 {
						pos, bit = len(m)-2, uint(b-11)
					}
					for i, w := range all {
						if w == m[pos] {
							ws[pos] = vInts([]byte(all[i^(1<<bit)]))
							break
						}
					}
				}
				if k%9 == 4 { // history: a valid sentence, then the same sentence under the other word list
					emit("bip39.MnemonicToSeed", M{"words": ws, "pass": vInts([]byte("x"))})
					other := map[string]string{"english": "japanese", "japanese": "english"}[lg]
					emit("bip39.SetWordList", M{"lang": other})
					emit("bip39.MnemonicToSeed", M{"words": ws, "pass": vInts([]byte("x")), "lang": other})
					joined := append(append(append([]int{}, ws[0]...), 32), ws[1]...)
					emit("bip39.SetWordList", M{"lang": lg})
					emit("bip39.MnemonicToSeed", M{"words": append([][]int{joined}, ws[2:]...), "pass": vInts([]byte("x")), "lang": lg})
				}
				if k%11 == 5 {
					ws = ws[:len(ws)-1]
				}
				emit("bip39.MnemonicToSeed", M{"words": ws, "pass": vInts([]byte(pass))})
				// parser: the sentence joined by arbitrary white space, in composed form, with compatibility characters
				var sb strings.Builder
				for i := r.Intn(3); i > 0; i-- {
					sb.WriteString(spaces[r.Intn(len(spaces))])
				}
				for _, w := range m {
					if r.Intn(4) == 0 {
						sb.WriteString(norm.NFC.String(w))
					} else if r.Intn(6) == 0 {
						sb.WriteString(passPool[r.Intn(len(passPool))])
					} else if r.Intn(6) == 0 {
						sb.WriteString(w[:len(w)/2] + spacers[r.Intn(len(spacers))] + w[len(w)/2:])
					} else {
						sb.WriteString(w)
					}
					for i := 1 + r.Intn(3); i > 0; i-- {
						sb.WriteString(spaces[r.Intn(len(spaces))])
					}
				}
				emit("bip39.ParseMnemonic", M{"s": vInts([]byte(sb.String()))})
			}
		}
	}
}
