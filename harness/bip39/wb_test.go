package bip39

// white-box part of the bip39 driver: the selected word list read from the package variable

func init() {
	vWB["bip39.words"] = func(M) M {
		ws := make([]string, 2048)
		for i := range ws {
			ws[i] = wordList.Word(i)
		}
		return M{"words": ws}
	}
}
