package btccurve

import (
	"math/rand"
	"fmt"
	"sync"
	"crypto/elliptic"
	"encoding/json"
	"math/big"
	"testing"
)

var toyParams = map[int][5]int64{ // p -> n, b, gx, gy
	13: {13, 7, 7, 7, 5}, 43: {43, 31, 7, 2, 12}, 61: {61, 61, 7, 2, 25}, 67: {67, 79, 7, 2, 22},
	79: {79, 67, 7, 1, 18}, 97: {97, 79, 7, 1, 28}, 127: {127, 127, 7, 1, 32},
}

// vToy (white box, wb_test.go): the package's generic curve type instantiated with other parameters.  Without it the
// toy-curve events are not produced and only the real-size legs run.
var vToy func(*elliptic.CurveParams) elliptic.Curve

func toyCurve(p int) elliptic.Curve {
	t := toyParams[p]
	return vToy(&elliptic.CurveParams{P: big.NewInt(t[0]), N: big.NewInt(t[1]), B: big.NewInt(t[2]),
		Gx: big.NewInt(t[3]), Gy: big.NewInt(t[4]), BitSize: 8, Name: "toy"})
}

func bi(v interface{}) *big.Int { return big.NewInt(int64(vIntOf(v))) }

func smallOut(x, y *big.Int, p string) M {
	if x == nil || y == nil {
		return M{"x": -1, "y": -1, "nil": true, "panic": p}
	}
	return M{"x": int(x.Int64()), "y": int(y.Int64()), "nil": false, "panic": p}
}

// ---- reference arithmetic for certificates (math/big, affine)
var (
	sp, _ = new(big.Int).SetString("FFFFFFFFFFFFFFFFFFFFFFFFFFFFFFFFFFFFFFFFFFFFFFFFFFFFFFFEFFFFFC2F", 16)
	sn, _ = new(big.Int).SetString("FFFFFFFFFFFFFFFFFFFFFFFFFFFFFFFEBAAEDCE6AF48A03BBFD25E8CD0364141", 16)
	sgx, _ = new(big.Int).SetString("79BE667EF9DCBBAC55A06295CE870B07029BFCDB2DCE28D959F2815B16F81798", 16)
	sgy, _ = new(big.Int).SetString("483ADA7726A3C4655DA4FBFC0E1108A8FD17B448A68554199C47D08FFB10D4B8", 16)
)

type pt struct{ x, y *big.Int }

func (a pt) isID() bool { return a.x.Sign() == 0 && a.y.Sign() == 0 }
func idPt() pt         { return pt{new(big.Int), new(big.Int)} }

func refLambda(a, b pt) *big.Int {
	num, den := new(big.Int), new(big.Int)
	if a.x.Cmp(b.x) == 0 && a.y.Cmp(b.y) == 0 {
		num.Mul(a.x, a.x).Mul(num, big.NewInt(3))
		den.Lsh(a.y, 1)
	} else {
		num.Sub(b.y, a.y)
		den.Sub(b.x, a.x)
	}
	den.Mod(den, sp)
	inv := new(big.Int).ModInverse(den, sp)
	if inv == nil {
		return new(big.Int)
	}
	return num.Mul(num, inv).Mod(num, sp)
}

func refAdd(a, b pt) pt {
	if a.isID() {
		return b
	}
	if b.isID() {
		return a
	}
	if a.x.Cmp(b.x) == 0 && new(big.Int).Mod(new(big.Int).Add(a.y, b.y), sp).Sign() == 0 {
		return idPt()
	}
	l := refLambda(a, b)
	x3 := new(big.Int).Mul(l, l)
	x3.Sub(x3, a.x).Sub(x3, b.x).Mod(x3, sp)
	y3 := new(big.Int).Sub(a.x, x3)
	y3.Mul(y3, l).Sub(y3, a.y).Mod(y3, sp)
	return pt{x3, y3}
}

func refMul(k *big.Int, a pt) pt {
	r := idPt()
	for i := k.BitLen() - 1; i >= 0; i-- {
		r = refAdd(r, r)
		if k.Bit(i) == 1 {
			r = refAdd(r, a)
		}
	}
	return r
}

func q(v *big.Int) []int { return vLimbs(new(big.Int).Div(v, sp)) }

func onCurveCert(a pt) M {
	lhs := new(big.Int).Mul(a.y, a.y)
	rhs := new(big.Int).Mul(a.x, a.x)
	rhs.Mul(rhs, a.x).Add(rhs, big.NewInt(7))
	return M{"qa": q(lhs), "qb": q(rhs)}
}

func sumCert(a, b, r pt) M {
	zero := []int{}
	c := M{"lam": zero, "s_qa": zero, "s_qb": zero, "x_qa": zero, "x_qb": zero, "y_qa": zero, "y_qb": zero}
	if a.isID() || b.isID() || r.x == nil || (a.x.Cmp(b.x) == 0 && new(big.Int).Mod(new(big.Int).Add(a.y, b.y), sp).Sign() == 0) {
		return c
	}
	l := refLambda(a, b)
	c["lam"] = vLimbs(l)
	var sa, sb *big.Int
	if a.x.Cmp(b.x) == 0 && a.y.Cmp(b.y) == 0 {
		sa = new(big.Int).Mul(l, new(big.Int).Lsh(a.y, 1))
		sb = new(big.Int).Mul(big.NewInt(3), new(big.Int).Mul(a.x, a.x))
	} else {
		sa = new(big.Int).Add(new(big.Int).Mul(l, b.x), a.y)
		sb = new(big.Int).Add(new(big.Int).Mul(l, a.x), b.y)
	}
	c["s_qa"], c["s_qb"] = q(sa), q(sb)
	xa := new(big.Int).Add(r.x, new(big.Int).Add(a.x, b.x))
	c["x_qa"], c["x_qb"] = q(xa), q(new(big.Int).Mul(l, l))
	ya := new(big.Int).Add(new(big.Int).Add(r.y, a.y), new(big.Int).Mul(l, r.x))
	c["y_qa"], c["y_qb"] = q(ya), q(new(big.Int).Mul(l, a.x))
	return c
}

func ptOut(x, y *big.Int) M {
	if x == nil || y == nil {
		return M{"x": []int{}, "y": []int{}}
	}
	return M{"x": vLimbs(x), "y": vLimbs(y)}
}

func ptIn(x, y interface{}) pt { return pt{vFromLimbs(x), vFromLimbs(y)} }

func runF(op string, in M) (M, M) {
	switch op {
	case "ecs.Add":
		c := toyCurve(vIntOf(in["p"]))
		var x, y *big.Int
		p := vCatch(func() { x, y = c.Add(bi(in["x1"]), bi(in["y1"]), bi(in["x2"]), bi(in["y2"])) })
		return smallOut(x, y, p), M{}
	case "ecs.Double":
		c := toyCurve(vIntOf(in["p"]))
		var x, y *big.Int
		p := vCatch(func() { x, y = c.Double(bi(in["x"]), bi(in["y"])) })
		return smallOut(x, y, p), M{}
	case "ecs.Mul":
		c := toyCurve(vIntOf(in["p"]))
		var x, y *big.Int
		p := vCatch(func() { x, y = c.ScalarMult(bi(in["x"]), bi(in["y"]), vBytes(in["k"])) })
		return smallOut(x, y, p), M{}
	case "ecs.BaseMul":
		c := toyCurve(vIntOf(in["p"]))
		var x, y *big.Int
		p := vCatch(func() { x, y = c.ScalarBaseMult(vBytes(in["k"])) })
		return smallOut(x, y, p), M{}
	case "ecs.OnCurve":
		c := toyCurve(vIntOf(in["p"]))
		var on bool
		p := vCatch(func() { on = c.IsOnCurve(bi(in["x"]), bi(in["y"])) })
		return M{"on": on, "panic": p}, M{}
	case "ecb.Add":
		a, b := ptIn(in["x1"], in["y1"]), ptIn(in["x2"], in["y2"])
		var x, y, dx, dy *big.Int
		p := vCatch(func() {
			x, y = Secp256k1().Add(a.x, a.y, b.x, b.y)
			if in["double"] == true {
				dx, dy = Secp256k1().Double(a.x, a.y)
			}
		})
		out := ptOut(x, y)
		out["panic"], out["nil"] = p, x == nil || y == nil
		d := ptOut(dx, dy)
		out["dx"], out["dy"] = d["x"], d["y"]
		// the caller owns the results: it changes them in place (negates a point, say); that must not reach the operands
		// it passed in, nor anything the package keeps (the generator's coordinates, a table)
		if p == "" {
			a0, b0 := ptIn(in["x1"], in["y1"]), ptIn(in["x2"], in["y2"])
			var cx, cy *big.Int
			if x != nil && y != nil {
				cx, cy = new(big.Int).Set(x), new(big.Int).Set(y)
			}
			for _, v := range []*big.Int{x, y, dx, dy} {
				if v != nil {
					v.Sub(sp, v).Lsh(v, 3)
				}
			}
			if a.x.Cmp(a0.x) != 0 || a.y.Cmp(a0.y) != 0 || b.x.Cmp(b0.x) != 0 || b.y.Cmp(b0.y) != 0 {
				out["panic"] = "verif: a result of Add / Double shares its big.Int with an operand (the caller changed the result, the operand changed)"
			}
			x, y = cx, cy
		}
		r := pt{x, y}
		if x == nil || y == nil {
			r = pt{nil, nil}
		}
		return out, M{"p1": onCurveCert(a), "p2": onCurveCert(b), "sum": sumCert(a, b, r)}
	case "ecb.hom":
		// the scalars live in the caller's buffers, reused from call to call with other scalars
		ab, bb := vBuf("scalar a", in["a"]), vBuf("scalar b", in["b"])
		var ax, ay, bx, by, sx, sy, abx, aby, mx, my, nx, ny *big.Int
		an, bn := new(big.Int).SetBytes(ab), new(big.Int).SetBytes(bb)
		sum := new(big.Int).Add(an, bn)
		qq, s := new(big.Int).DivMod(sum, sn, new(big.Int))
		sbytes := s.Bytes()
		p := vCatch(func() {
			// the buffer held another scalar a moment ago (used, then overwritten in place)
			for i := range ab {
				ab[i] ^= 0x5a
			}
			Secp256k1().ScalarBaseMult(ab)
			Secp256k1().ScalarMult(sgx, sgy, ab)
			for i := range ab {
				ab[i] ^= 0x5a
			}
			ax, ay = Secp256k1().ScalarBaseMult(ab)
			bx, by = Secp256k1().ScalarBaseMult(bb)
			sx, sy = Secp256k1().ScalarBaseMult(sbytes)
			mx, my = Secp256k1().ScalarMult(sgx, sgy, ab)
			nx, ny = Secp256k1().ScalarMult(sgx, new(big.Int).Sub(sp, sgy), ab) // the same scalar on -G, right after G
			if ax != nil && bx != nil {
				abx, aby = Secp256k1().Add(ax, ay, bx, by)
			}
		})
		scribble := []*big.Int{ax, ay, bx, by, sx, sy, abx, aby, mx, my, nx, ny}
		isNil := ax == nil || ay == nil || bx == nil || by == nil || sx == nil || sy == nil || abx == nil || aby == nil || mx == nil || my == nil || nx == nil || ny == nil
		out := M{"A": ptOut(ax, ay), "B": ptOut(bx, by), "S": ptOut(sx, sy), "AB": ptOut(abx, aby), "mulA": ptOut(mx, my), "negA": ptOut(nx, ny),
			"sbytes": vInts(sbytes), "panic": p, "nil": isNil}
		cert := M{"q": vLimbs(qq), "s": vLimbs(s), "pa": M{"qa": []int{}, "qb": []int{}}, "pb": M{"qa": []int{}, "qb": []int{}},
			"ps": M{"qa": []int{}, "qb": []int{}}, "sum": sumCert(idPt(), idPt(), idPt())}
		if !isNil {
			A, B, S := pt{ax, ay}, pt{bx, by}, pt{sx, sy}
			cert["pa"], cert["pb"], cert["ps"] = onCurveCert(A), onCurveCert(B), onCurveCert(S)
			cert["sum"] = sumCert(A, B, S)
		}
		for _, v := range scribble { // results belong to the caller: changed in place after use (events that follow must not notice)
			if v != nil {
				v.Sub(sp, v).Lsh(v, 3)
			}
		}
		if sgx.Cmp(Secp256k1().Params().Gx) != 0 || sgy.Cmp(Secp256k1().Params().Gy) != 0 {
			out["panic"] = "verif: the curve's generator changed after the caller modified a result it was given"
		}
		return out, cert
	case "ecb.par":
		res := ""
		for try := 0; try < 6 && res == ""; try++ { // each child is a fresh process: a fresh chance to collide during first use
			var crashed string
			res, crashed = vChild("TestVerifFirstUse", in)
			if crashed != "" {
				res = crashed
			}
		}
		return M{"panic": res}, M{}
	case "ecb.OnCurve":
		x, y := vFromLimbs(in["x"]), vFromLimbs(in["y"])
		var on bool
		p := vCatch(func() { on = Secp256k1().IsOnCurve(x, y) })
		lhs := new(big.Int).Mul(y, y)
		rhs := new(big.Int).Mul(x, x)
		rhs.Mul(rhs, x).Add(rhs, big.NewInt(7))
		q1, r1 := new(big.Int).DivMod(lhs, sp, new(big.Int))
		q2, r2 := new(big.Int).DivMod(rhs, sp, new(big.Int))
		return M{"on": on, "panic": p}, M{"q1": vLimbs(q1), "r1": vLimbs(r1), "q2": vLimbs(q2), "r2": vLimbs(r2)}
	}
	panic("unknown op " + op)
}

func TestVerifFirstUse(t *testing.T) {
	in := vChildSpec()
	if in == nil {
		t.Skip()
	}
	rr := rand.New(rand.NewSource(int64(vIntOf(in["seed"]))))
	const K = 32
	ks := make([][]byte, K)
	for i := range ks {
		ks[i] = make([]byte, 32)
		rr.Read(ks[i])
	}
	mul := func(i int) string {
		x, y := Secp256k1().ScalarBaseMult(ks[i])
		x2, y2 := Secp256k1().ScalarMult(x, y, ks[(i+1)%K])
		if x == nil || y == nil || x2 == nil || y2 == nil {
			return "nil"
		}
		return x.String() + "," + y.String() + "," + x2.String() + "," + y2.String()
	}
	got := make([]string, K)
	var wg sync.WaitGroup
	start := make(chan struct{})
	for g := 0; g < K; g++ {
		wg.Add(1)
		go func(g int) { defer wg.Done(); <-start; got[g] = mul(g) }(g)
	}
	close(start)
	wg.Wait()
	msg := ""
	for g := 0; g < K; g++ {
		if mul(g) != got[g] {
			msg = "verif: a multiple computed during concurrent first use of the curve differs from the one computed later"
		}
	}
	fmt.Println("VERIF-CHILD-OUT " + msg)
}

func TestVerifDriver(t *testing.T) {
	rec := vOpen()
	defer rec.close()
	emit := func(op string, in M) {
		if len(op) > 4 && op[:4] == "ecs." && vToy == nil {
			return
		}
		in = vNorm(in)
		out, cert := runF(op, in)
		rec.i++
		rec.count++
		vPost(out)
		b, err := json.Marshal(map[string]interface{}{"t": rec.t, "i": rec.i, "op": op, "in": in, "out": out, "cert": cert})
		if err != nil {
			panic(err)
		}
		rec.w.Write(b)
		rec.w.WriteByte('\n')
	}
	if vMode() == "replay" {
		for _, v := range vReadInputs() {
			vForce = v.Mode
			emit(v.Op, v.In)
			vForce = ""
		}
		return
	}
	r := vRand(17)
	n := vEnvInt("VERIF_N", 30)
	if vEnvInt("VERIF_PAR_MS", 1200) > 0 {
		emit("ecb.par", M{"seed": r.Intn(1 << 30)})
	}
	g := pt{sgx, sgy}
	rndScalar := func() *big.Int {
		b := make([]byte, 32)
		r.Read(b)
		return new(big.Int).SetBytes(b)
	}
	addEv := func(a, b pt, dbl bool) {
		emit("ecb.Add", M{"x1": vLimbs(a.x), "y1": vLimbs(a.y), "x2": vLimbs(b.x), "y2": vLimbs(b.y), "double": dbl})
	}
	neg := func(a pt) pt {
		if a.isID() {
			return a
		}
		return pt{a.x, new(big.Int).Sub(sp, a.y)}
	}
	specials := [][]byte{{}, {0}, {1}, {0, 0, 1}, {2}, sn.Bytes(), new(big.Int).Sub(sn, big.NewInt(1)).Bytes(), new(big.Int).Add(sn, big.NewInt(1)).Bytes(),
		append([]byte{0, 0}, sn.Bytes()...), bytesOfOnes(32), bytesOfOnes(33), new(big.Int).Lsh(sn, 1).Bytes()}
	// scalars whose double-and-add ladder runs into a special case of the group law: after a prefix m with
	// 2m = 1 (mod n) the ladder adds G to an accumulator equal to G (k = n+2 and its continuations), with
	// 2m = -1 it adds G to -G (k = n), with 2m = 0 it adds G to the identity (k = 2n+1 ...)
	for _, base := range []int64{2, 0, 1} {
		for t := int64(0); t < 3; t++ {
			k0 := new(big.Int).Add(new(big.Int).Mul(sn, big.NewInt(2*t+1)), big.NewInt(base)) // (2t+1) n + base
			for j := uint(0); j < 3; j++ {
				for rr := int64(0); rr < 1<<j; rr++ {
					v := new(big.Int).Add(new(big.Int).Lsh(k0, j), big.NewInt(rr))
					specials = append(specials, v.Bytes())
				}
			}
		}
	}
	for i, sc := range specials {
		if i%vEnvInt("VERIF_SPECIAL_STRIDE", 1) == int(vSeed())%vEnvInt("VERIF_SPECIAL_STRIDE", 1) {
			emit("ecb.hom", M{"a": vInts(sc), "b": vInts(rndScalar().Bytes())})
		}
	}
	// points with edge coordinates: IsOnCurve must accept them (and reject their neighbours), Add / Double must
	// treat them like any other point
	crafted := craftedPoints(r, rndScalar)
	stride := vEnvInt("VERIF_SPECIAL_STRIDE", 1)
	for i, c := range crafted {
		if i%stride != int(vSeed())%stride {
			continue
		}
		emit("ecb.OnCurve", M{"x": vLimbs(c.x), "y": vLimbs(c.y)})
		emit("ecb.OnCurve", M{"x": vLimbs(c.x), "y": vLimbs(new(big.Int).Mod(new(big.Int).Add(c.y, big.NewInt(1)), sp))})
		if i%4 == 0 {
			addEv(c, c, true)
			addEv(c, neg(c), false)
			addEv(c, crafted[(i+1)%len(crafted)], false)
			addEv(g, c, false)
		}
		if i%4 == 1 && !c.isID() {
			// the edge point as a RESULT: (c - Q) + Q and 2 * (c / 2), operands from the driver's reference arithmetic
			q := refMul(rndScalar(), g)
			addEv(refAdd(c, neg(q)), q, false)
			half := refMul(new(big.Int).Rsh(new(big.Int).Add(sn, big.NewInt(1)), 1), c)
			addEv(half, half, true)
			addEv(half, half, false)
		}
	}
	for k := 0; k < n; k++ {
		a := refMul(rndScalar(), g)
		b := refMul(rndScalar(), g)
		switch k % 6 {
		case 0:
			addEv(a, b, false)
		case 1:
			addEv(a, a, true) // P = Q
		case 2:
			addEv(a, neg(a), false) // P = -Q
		case 3:
			addEv(a, idPt(), false)
			addEv(idPt(), a, false)
		case 4:
			addEv(idPt(), idPt(), true)
			addEv(g, g, true)
		default:
			addEv(a, refAdd(a, b), false)
		}
		// scalars
		sa := rndScalar().Bytes()
		sb := rndScalar().Bytes()
		switch k % 5 {
		case 1:
			sa = specials[(k/5+int(vSeed()))%len(specials)]
		case 2:
			sb = specials[(k/5+int(vSeed()))%len(specials)]
		case 3: // b = n - a
			sb = new(big.Int).Sub(sn, new(big.Int).Mod(new(big.Int).SetBytes(sa), sn)).Bytes()
		case 4:
			sa = append([]byte{0, 0, 0}, sa...)
		}
		emit("ecb.hom", M{"a": vInts(sa), "b": vInts(sb)})
		// IsOnCurve on points, neighbours and random coordinates in [0, p)
		x, y := a.x, a.y
		switch k % 4 {
		case 1:
			y = new(big.Int).Mod(new(big.Int).Add(y, big.NewInt(1)), sp)
		case 2:
			x, y = new(big.Int).Mod(rndScalar(), sp), new(big.Int).Mod(rndScalar(), sp)
		case 3:
			x, y = new(big.Int), new(big.Int)
		}
		emit("ecb.OnCurve", M{"x": vLimbs(x), "y": vLimbs(y)})
	}
}

// craftedPoints: genuine curve points with coordinates at the edges of the field (tiny x, tiny y, x or y in [n, p),
// close to p), where reductions and range checks of an implementation are exercised.  p = 3 (mod 4) and p = 7
// (mod 9), so square and cube roots are single exponentiations; each root is verified before use.
func craftedPoints(r interface{ Intn(int) int }, rnd func() *big.Int) []pt {
	sqrtP := func(v *big.Int) *big.Int {
		e := new(big.Int).Rsh(new(big.Int).Add(sp, big.NewInt(1)), 2)
		y := new(big.Int).Exp(v, e, sp)
		if new(big.Int).Mod(new(big.Int).Mul(y, y), sp).Cmp(new(big.Int).Mod(v, sp)) != 0 {
			return nil
		}
		return y
	}
	cbrtP := func(v *big.Int) *big.Int {
		e := new(big.Int).Div(new(big.Int).Add(sp, big.NewInt(2)), big.NewInt(9))
		x := new(big.Int).Exp(v, e, sp)
		c := new(big.Int).Exp(x, big.NewInt(3), sp)
		if c.Cmp(new(big.Int).Mod(v, sp)) != 0 {
			return nil
		}
		return x
	}
	fromX := func(x *big.Int) *pt {
		v := new(big.Int).Exp(x, big.NewInt(3), sp)
		v.Add(v, big.NewInt(7)).Mod(v, sp)
		if y := sqrtP(v); y != nil {
			if r.Intn(2) == 0 {
				y = new(big.Int).Sub(sp, y)
			}
			return &pt{new(big.Int).Set(x), y}
		}
		return nil
	}
	fromY := func(y *big.Int) *pt {
		v := new(big.Int).Mul(y, y)
		v.Sub(v, big.NewInt(7)).Mod(v, sp)
		if x := cbrtP(v); x != nil {
			return &pt{x, new(big.Int).Set(y)}
		}
		return nil
	}
	var out []pt
	add := func(q *pt) {
		if q != nil {
			out = append(out, *q)
		}
	}
	gap := new(big.Int).Sub(sp, sn) // the coordinates in [n, p)
	for k := int64(1); k <= 24; k++ {
		add(fromX(big.NewInt(k)))                        // tiny x
		add(fromY(big.NewInt(k)))                        // tiny y
		add(fromX(new(big.Int).Sub(sp, big.NewInt(k)))) // x just below p
		add(fromY(new(big.Int).Sub(sp, big.NewInt(k)))) // y just below p
		add(fromX(new(big.Int).Add(sn, big.NewInt(k-1)))) // x = n, n+1, ...
		add(fromY(new(big.Int).Add(sn, big.NewInt(k-1))))
		add(fromX(new(big.Int).Add(sn, new(big.Int).Mod(rnd(), gap)))) // x anywhere in [n, p)
		add(fromY(new(big.Int).Add(sn, new(big.Int).Mod(rnd(), gap))))
	}
	return out
}

func bytesOfOnes(n int) []byte {
	b := make([]byte, n)
	for i := range b {
		b[i] = 0xff
	}
	return b
}
