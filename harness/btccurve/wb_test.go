package btccurve

import "crypto/elliptic"

// white-box part of the btccurve driver: the unexported generic curve type, instantiated with toy parameters

func init() {
	vToy = func(p *elliptic.CurveParams) elliptic.Curve { return koblitzCurve{p} }
}
