package address_test

// Composition driver (IotaCrypto.tla): sentence -> seed -> SLIP-10 ed25519 path -> key -> address -> Bech32.

import (
	stded "crypto/ed25519"
	"crypto/hmac"
	"crypto/sha512"
	"encoding/binary"
	"encoding/json"
	"strings"
	"testing"

	"github.com/wollac/iota-crypto-demo/pkg/bech32/address"
	"github.com/wollac/iota-crypto-demo/pkg/bip39"
	"github.com/wollac/iota-crypto-demo/pkg/slip10"
	"github.com/wollac/iota-crypto-demo/pkg/slip10/eddsa"
	"golang.org/x/crypto/blake2b"
	"golang.org/x/text/unicode/norm"
)

func pbkdf2Ref(pw, salt []byte) []byte {
	prf := hmac.New(sha512.New, pw)
	prf.Write(salt)
	prf.Write([]byte{0, 0, 0, 1})
	u := prf.Sum(nil)
	t := append([]byte{}, u...)
	for i := 1; i < 2048; i++ {
		prf.Reset()
		prf.Write(u)
		u = prf.Sum(nil)
		for j := range t {
			t[j] ^= u[j]
		}
	}
	return t
}

func hm(key, data []byte) []byte {
	h := hmac.New(sha512.New, key)
	h.Write(data)
	return h.Sum(nil)
}

func wordsIn(v interface{}) bip39.Mnemonic {
	var ws bip39.Mnemonic
	if a, ok := v.([]interface{}); ok {
		for _, x := range a {
			ws = append(ws, string(vBytes(x)))
		}
	}
	return ws
}

func runF(op string, in M) (M, M) {
	ws := wordsIn(in["words"])
	pass := string(vBytes(in["pass"]))
	var path []uint32
	for _, x := range in["path"].([]interface{}) {
		e := vIntList(x)
		path = append(path, uint32(e[1])|uint32(e[0])<<31)
	}
	prefix := address.Prefix(vIntOf(in["prefix"]))
	out := M{"ok": false, "seed": []int{}, "key": []int{}, "chain": []int{}, "pub": []int{}, "addr": []int{}, "bech32": []int{},
		"parse_ok": false, "parse_prefix": -1, "parse_hash": []int{}}
	out["panic"] = vCatch(func() {
		seed, err := bip39.MnemonicToSeed(ws, pass)
		if err != nil {
			return
		}
		key, err := slip10.DeriveKeyFromPath(seed, eddsa.Ed25519(), path)
		if err != nil {
			return
		}
		pub, _ := key.Key.(eddsa.Seed).Ed25519Key()
		addr := address.AddressFromPublicKey(pub)
		s, err := address.Bech32(prefix, addr)
		if err != nil {
			return
		}
		out["ok"] = true
		out["seed"], out["key"], out["chain"], out["pub"] = vInts(seed), vInts(key.Key.Bytes()), vInts(key.ChainCode), vInts(pub)
		out["addr"], out["bech32"] = vInts(addr.Bytes()[1:]), vInts([]byte(s))
		p2, a2, e2 := address.ParseBech32(s)
		out["parse_ok"] = e2 == nil
		if e2 == nil {
			out["parse_prefix"], out["parse_hash"] = int(p2), vInts(a2.Bytes()[1:])
		}
	})
	// facts (independent of the packages under test)
	nf := norm.NFKD.String(pass)
	pw := []byte(strings.Join(ws, " "))
	salt := []byte("mnemonic" + nf)
	seed := pbkdf2Ref(pw, salt)
	var chainF []M
	I := hm([]byte("ed25519 seed"), seed)
	chainF = append(chainF, M{"key": vInts([]byte("ed25519 seed")), "data": vInts(seed), "out": vInts(I)})
	for _, i := range path {
		ib := make([]byte, 4)
		binary.BigEndian.PutUint32(ib, i)
		data := append(append([]byte{0}, I[:32]...), ib...)
		k := I[32:]
		I = hm(k, data)
		chainF = append(chainF, M{"key": vInts(k), "data": vInts(data), "out": vInts(I)})
	}
	edpub := stded.NewKeyFromSeed(I[:32]).Public().(stded.PublicKey)
	bl := blake2b.Sum256(edpub)
	f := M{"nfkd_in": vInts([]byte(pass)), "nfkd": vInts([]byte(nf)), "pbkdf_pw": vInts(pw), "pbkdf_salt": vInts(salt), "pbkdf_out": vInts(seed),
		"hmac": chainF, "edpub_of": vInts(I[:32]), "edpub": vInts(edpub), "blake_of": vInts(edpub), "blake": vInts(bl[:])}
	return out, f
}

func TestVerifDriver(t *testing.T) {
	rec := vOpen()
	defer rec.close()
	emit := func(op string, in M) {
		in = vNorm(in)
		out, facts := runF(op, in)
		rec.i++
		rec.count++
		vPost(out)
		b, err := json.Marshal(map[string]interface{}{"t": rec.t, "i": rec.i, "op": op, "in": in, "out": out, "facts": facts})
		if err != nil {
			panic(err)
		}
		rec.w.Write(b)
		rec.w.WriteByte('\n')
	}
	if vMode() == "replay" {
		for _, v := range vReadInputs() {
			vForce = v.Mode
			emit(v.Op, v.In)
			vForce = ""
		}
		return
	}
	r := vRand(99)
	n := vEnvInt("VERIF_N", 10)
	passes := []string{"", "TREZOR", "éﬁ①", "é", "pass phrase"}
	for k := 0; k < n; k++ {
		ent := make([]byte, []int{16, 20, 24, 32, 64}[r.Intn(5)])
		r.Read(ent)
		if k%4 == 0 {
			ent[0] = 0
		}
		m, err := bip39.EntropyToMnemonic(ent)
		if err != nil {
			panic(err)
		}
		ws := make([][]int, len(m))
		for i, w := range m {
			ws[i] = vInts([]byte(w))
		}
		depth := r.Intn(6)
		path := make([][]int, depth)
		for i := range path {
			path[i] = []int{1, []int{0, 1, 44, 4218, 1<<31 - 1, r.Intn(1 << 31)}[r.Intn(6)]}
		}
		emit("compose.kdf", M{"words": ws, "pass": vInts([]byte(passes[r.Intn(len(passes))])), "path": path, "prefix": r.Intn(4)})
	}
}
