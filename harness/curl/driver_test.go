package curl

import (
	"sync/atomic"
	"runtime"
	"fmt"
	"time"
	"sync"
	"strings"
	"errors"
	"crypto/sha256"
	"math/rand"
	"os"
	"runtime/debug"
	"syscall"
	"testing"
	"unsafe"

	"github.com/iotaledger/iota.go/consts"
	iotagocurl "github.com/iotaledger/iota.go/curl"
	"github.com/iotaledger/iota.go/trinary"
)

// envScramble: the environment writes to exported, mutable package-level state of the module's dependencies (the rotation
// table of the reference implementation - its own permutation works from a private copy made at start-up).  The sponge
// and the permutations of this package are functions of their arguments and their own history only.
var envSaved *[len(iotagocurl.Indices)]int

func envScramble(on bool) {
	if on && envSaved == nil {
		keep := iotagocurl.Indices
		envSaved = &keep
		for i := range iotagocurl.Indices {
			iotagocurl.Indices[i] = keep[len(keep)-1-i]
		}
	} else if !on && envSaved != nil {
		iotagocurl.Indices = *envSaved
		envSaved = nil
	}
}

// ---------------------------------------------------------------- C20

const pageSize = 4096

// guarded allocates a [StateSize]uint whose end (atEnd) or start touches a PROT_NONE page.
func guarded(atEnd bool) *[StateSize]uint {
	size := StateSize * 8
	pages := (size + pageSize - 1) / pageSize
	m, err := syscall.Mmap(-1, 0, (pages+2)*pageSize, syscall.PROT_READ|syscall.PROT_WRITE, syscall.MAP_ANON|syscall.MAP_PRIVATE)
	if err != nil {
		panic(err)
	}
	if err := syscall.Mprotect(m[:pageSize], syscall.PROT_NONE); err != nil {
		panic(err)
	}
	if err := syscall.Mprotect(m[(pages+1)*pageSize:], syscall.PROT_NONE); err != nil {
		panic(err)
	}
	off := pageSize
	if atEnd {
		off = (pages+1)*pageSize - size
	}
	return (*[StateSize]uint)(unsafe.Pointer(&m[off]))
}

var gbuf [2][4]*[StateSize]uint

func buffers(atEnd bool) [4]*[StateSize]uint {
	k := 0
	if atEnd {
		k = 1
	}
	if gbuf[k][0] == nil {
		for i := range gbuf[k] {
			gbuf[k][i] = guarded(atEnd)
		}
	}
	return gbuf[k]
}

func fillState(l, h *[StateSize]uint, seed int64, pattern string) {
	r := rand.New(rand.NewSource(seed))
	for i := 0; i < StateSize; i++ {
		switch pattern {
		case "ones": // the reset state
			l[i], h[i] = ^uint(0), ^uint(0)
		case "zeros":
			l[i], h[i] = 0, 0
		case "valid": // every lane holds valid trits
			var a, b uint
			for j := uint(0); j < 64; j++ {
				switch r.Intn(3) {
				case 0:
					a |= 1 << j
					b |= 1 << j
				case 1:
					b |= 1 << j
				default:
					a |= 1 << j
				}
			}
			l[i], h[i] = a, b
		case "sparse":
			l[i], h[i] = ^uint(0), ^uint(0)
			if r.Intn(40) == 0 {
				l[i] &^= 1 << uint(r.Intn(64))
			}
			if r.Intn(40) == 0 {
				h[i] &^= 1 << uint(r.Intn(64))
			}
		case "lowfixed": // low plane constant, high plane varies
			l[i], h[i] = ^uint(0), uint(r.Uint64())
		case "zerorate": // the first 243 cells hold the trit 0 in every lane, the rest is arbitrary
			l[i], h[i] = uint(r.Uint64()), uint(r.Uint64())
			if i < 243 {
				l[i], h[i] = ^uint(0), ^uint(0)
			}
		case "zerocap": // the other way round
			l[i], h[i] = ^uint(0), ^uint(0)
			if i < 243 {
				l[i], h[i] = uint(r.Uint64()), uint(r.Uint64())
			}
		default: // "any": arbitrary words, all four cell values
			l[i], h[i] = uint(r.Uint64()), uint(r.Uint64())
		}
	}
}

func laneCells(l, h *[StateSize]uint, lane uint) []int {
	c := make([]int, StateSize)
	for i := range c {
		c[i] = int((l[i]>>lane)&1) + 2*int((h[i]>>lane)&1)
	}
	return c
}

func runTransform(in M) M {
	seed := int64(vIntOf(in["seed"]))
	pattern := in["pattern"].(string)
	atEnd := in["guard"].(string) == "end"
	b := buffers(atEnd)
	lto, hto, lfrom, hfrom := b[0], b[1], b[2], b[3]
	fillState(lfrom, hfrom, seed, pattern)
	if in["env"] == true {
		envScramble(true)
		defer envScramble(false)
	}
	if pattern == "leftover" && haveLeft { // the state the previous call left in its source buffers is the next input
		*lfrom, *hfrom = leftL, leftH
	}
	for i := range lto {
		lto[i], hto[i] = 0x5555555555555555, 0x3333333333333333
	}
	var keepL, keepH, gl, gh [StateSize]uint
	keepL, keepH = *lfrom, *hfrom
	audit := vIntList(in["audit"])
	incells := make([][]int, len(audit))
	for k, ln := range audit {
		incells[k] = laneCells(lfrom, hfrom, uint(ln))
	}
	fault := false
	p := vCatch(func() {
		debug.SetPanicOnFault(true)
		defer debug.SetPanicOnFault(false)
		defer func() {
			if r := recover(); r != nil {
				fault = true
			}
		}()
		vTransform(lto, hto, lfrom, hfrom)
	})
	leftL, leftH, haveLeft = *lfrom, *hfrom, true
	// the portable reference on ordinary memory
	var fl, fh [StateSize]uint
	fl, fh = keepL, keepH
	vTransformGeneric(&gl, &gh, &fl, &fh)
	outcells := make([][]int, len(audit))
	for k, ln := range audit {
		outcells[k] = laneCells(lto, hto, uint(ln))
	}
	// transformGeneric swaps its buffer roles every round: after 81 rounds the result is in (gl, gh)
	return M{"panic": p, "fault": fault, "equal_generic": *lto == gl && *hto == gh,
		"incells": incells, "outcells": outcells, "build": buildName()}
}

var leftL, leftH [StateSize]uint
var haveLeft bool

func buildName() string {
	if os.Getenv("VERIF_BUILD") != "" {
		return os.Getenv("VERIF_BUILD")
	}
	return "default"
}

// ---------------------------------------------------------------- C06

var curls = map[int]*Curl{}
var pool [][]int8 // pool[k-1] is block key k

func stateFP(c *Curl) [32]byte {
	var l, h [StateSize]uint
	c.CopyState(l[:], h[:])
	hs := sha256.New()
	for i := range l {
		var b [16]byte
		for k := 0; k < 8; k++ {
			b[k] = byte(l[i] >> (8 * uint(k)))
			b[8+k] = byte(h[i] >> (8 * uint(k)))
		}
		hs.Write(b[:])
	}
	hs.Write([]byte{byte(vDirOf(c))})
	var r [32]byte
	copy(r[:], hs.Sum(nil))
	return r
}

func fpTrits(t trinary.Trits) []int {
	b := make([]byte, len(t))
	for i, x := range t {
		b[i] = byte(x + 1)
	}
	s := sha256.Sum256(b)
	return vInts(s[:6])
}

func isFresh(c *Curl) bool {
	var l, h [StateSize]uint
	c.CopyState(l[:], h[:])
	for i := 0; i < StateSize; i++ {
		if l[i] != ^uint(0) || h[i] != ^uint(0) {
			return false
		}
	}
	return vDirOf(c) == 0
}

func errName(err error) string {
	switch {
	case err == nil:
		return ""
	case errors.Is(err, consts.ErrInvalidBatchSize):
		return "batch"
	case errors.Is(err, consts.ErrInvalidTritsLength), errors.Is(err, consts.ErrInvalidSqueezeLength):
		return "length"
	}
	return "other:" + err.Error()
}

func blockOf(key int) []int8 {
	if key == 0 {
		return make([]int8, 243)
	}
	return pool[key-1]
}

func runSponge(op string, in M) M {
	switch op {
	case "curl.pool":
		r := rand.New(rand.NewSource(int64(vIntOf(in["seed"]))))
		n := vIntOf(in["n"])
		pool = nil
		out := make([][]int, n)
		for k := 0; k < n; k++ {
			b := make([]int8, 243)
			for i := range b {
				b[i] = int8(r.Intn(3) - 1)
			}
			if k == 1 { // a block of all ones, and one with trailing zeros
				for i := range b {
					b[i] = 1
				}
			}
			if k == 2 {
				for i := 100; i < 243; i++ {
					b[i] = 0
				}
			}
			pool = append(pool, b)
			out[k] = vInts8(b)
		}
		curls = map[int]*Curl{}
		return M{"blocks": out}
	case "curl.env":
		p := vCatch(func() { envScramble(in["scramble"] == true) })
		return M{"panic": p}
	case "curl.new":
		var c *Curl
		p := vCatch(func() { c = NewCurlP81() })
		curls[vIntOf(in["id"])] = c
		return M{"panic": p, "fresh": c != nil && isFresh(c)}
	case "curl.par":
		// distinct instances used from distinct goroutines at the same time: each must behave as if it were alone
		seed := int64(vIntOf(in["seed"]))
		history := func(k int64) string { return curlHistory(seed, k) }
		msg := ""
		p := vCatch(func() {
			const K = 8
			want := make([]string, K)
			for k := range want {
				want[k] = history(int64(k))
			}
			deadline := time.Now().Add(time.Duration(vEnvInt("VERIF_PAR_MS", 1200)) * time.Millisecond)
			var wg sync.WaitGroup
			var mu sync.Mutex
			for g := 0; g < K; g++ {
				wg.Add(1)
				go func(g int) {
					defer wg.Done()
					defer func() { // a panic of the code under test in this goroutine is an answer, not the end of the driver
						if r := recover(); r != nil {
							mu.Lock()
							msg = fmt.Sprint("verif: panic in an instance used concurrently with other instances: ", r)
							mu.Unlock()
						}
					}()
					for rep := 0; rep < 4 || time.Now().Before(deadline); rep++ {
						if got := history(int64(g)); got != want[g] {
							mu.Lock()
							msg = "verif: an instance used concurrently with other instances gave different output than when used alone"
							mu.Unlock()
							return
						}
					}
				}(g)
			}
			wg.Wait()
		})
		if p == "" {
			p = msg
		}
		return M{"panic": p}
	case "curl.first":
		res := ""
		for try := 0; try < vEnvInt("VERIF_FIRST_TRIES", 32) && res == ""; try++ { // each child is a fresh process: a fresh chance to collide during first use
			r, crashed := vChild("TestVerifFirstUse", M{"seed": vIntOf(in["seed"]) + try})
			if crashed != "" {
				res = crashed
			} else if r != "ok" {
				res = r
			}
		}
		return M{"panic": res}
	case "curl.reset":
		c := curls[vIntOf(in["id"])]
		p := vCatch(func() { c.Reset() })
		return M{"panic": p, "fresh": isFresh(c)}
	case "curl.clone":
		c := curls[vIntOf(in["id"])]
		var d *Curl
		p := vCatch(func() { d = c.Clone() })
		curls[vIntOf(in["newid"])] = d
		return M{"panic": p, "same_state": d != nil && d != c && stateFP(c) == stateFP(d)}
	case "curl.absorb":
		c := curls[vIntOf(in["id"])]
		nb := vIntOf(in["nblocks"])
		bad := in["bad"].(string)
		var src []trinary.Trits
		if a, ok := in["lanes"].([]interface{}); ok {
			for _, ln := range a {
				var t trinary.Trits
				for _, key := range vIntList(ln) {
					t = append(t, blockOf(key)...)
				}
				src = append(src, t)
			}
		}
		count := nb * 243
		switch bad {
		case "batch0":
			src = nil
		case "batch65":
			for len(src) < 65 {
				src = append(src, make(trinary.Trits, count))
			}
		case "len":
			count = nb*243 + 1 + vIntOf(in["id"])%241
			for i := range src {
				src[i] = append(src[i], make(trinary.Trits, 243)...)
			}
		case "trit":
			// outside C06's domain: a value that is not a trit, late in the last lane.  Whether such a call is accepted is
			// not specified - but IF it is rejected, the state must be untouched like for any rejected call.  Done on a
			// clone, so the instance's own history goes on whatever happens.
			c = c.Clone()
			last := src[len(src)-1]
			last[len(last)-1-vIntOf(in["id"])%200] = []int8{2, -2, 3, 127, -128}[vIntOf(in["nblocks"])%5]
		}
		keep := make([]trinary.Trits, len(src))
		for i := range src {
			keep[i] = append(trinary.Trits{}, src[i]...)
		}
		before := stateFP(c)
		var err error
		p := vCatch(func() { err = c.Absorb(src, count) })
		same := true
		for i := range src {
			same = same && string(bytesOf(src[i])) == string(bytesOf(keep[i]))
		}
		return M{"panic": p, "err": errName(err), "state_same": stateFP(c) == before, "src_unchanged": same}
	case "curl.squeeze":
		c := curls[vIntOf(in["id"])]
		nl, nb := vIntOf(in["nlanes"]), vIntOf(in["nblocks"])
		bad := in["bad"].(string)
		count := nb * 243
		dst := make([]trinary.Trits, nl)
		if vIntOf(in["id"])%2 == 1 && nl > 1 {
			// the caller hands in result slots it carved out of ONE buffer (empty, capacity reaching to the buffer's end):
			// the lanes' outputs must not run into each other
			shared := make(trinary.Trits, nl*243)
			for j := range dst {
				dst[j] = shared[j*243 : j*243]
			}
		}
		switch bad {
		case "batch0":
			dst = nil
		case "batch65":
			dst = make([]trinary.Trits, 65)
		case "len":
			count = nb*243 + 1 + nl%241
		}
		before := stateFP(c)
		var err error
		p := vCatch(func() { err = c.Squeeze(dst, count) })
		out := M{"panic": p, "err": errName(err), "state_same": stateFP(c) == before, "fp": [][][]int{}, "audit": []M{}}
		if err == nil && p == "" && bad == "" {
			fp := make([][][]int, nl)
			for j := 0; j < nl; j++ {
				fp[j] = make([][]int, nb)
				for b := 0; b < nb; b++ {
					fp[j][b] = fpTrits(dst[j][b*243 : (b+1)*243])
				}
			}
			out["fp"] = fp
			var au []M
			for _, ln := range vIntList(in["audit"]) {
				if ln < nl {
					au = append(au, M{"lane": ln + 1, "trits": vInts8(dst[ln])})
				}
			}
			if au != nil {
				out["audit"] = au
			}
		}
		return out
	}
	panic("unknown op " + op)
}

func bytesOf(t trinary.Trits) []byte {
	b := make([]byte, len(t))
	for i, x := range t {
		b[i] = byte(x)
	}
	return b
}

// White-box access (wb_test.go sets these from init): the package-level permutations and the sponge direction.  Without
// them the transform leg is skipped and the direction is left out of state fingerprints.
var vTransform, vTransformGeneric func(lto, hto, lfrom, hfrom *[StateSize]uint)
var vDirOf = func(c *Curl) int { return 0 }

func vRun(op string, in M) M {
	if op == "curl.transform" {
		return runTransform(in)
	}
	return runSponge(op, in)
}

// ---------------------------------------------------------------- generators

func genTransform(do func(string, M)) {
	r := vRand(20)
	n := vEnvInt("VERIF_N", 40)
	naudit := vEnvInt("VERIF_AUDIT", 12)
	patterns := []string{"any", "valid", "ones", "zeros", "sparse", "lowfixed", "zerorate", "zerocap"}
	for k := 0; k < n; k++ {
		audit := []int{}
		if k < naudit {
			audit = []int{[]int{0, 63, r.Intn(64)}[k%3]}
		}
		pat := patterns[k%len(patterns)]
		if k >= len(patterns)*2 {
			pat = []string{"any", "valid", "leftover"}[k%3]
		}
		do("curl.transform", M{"seed": r.Intn(1 << 30), "pattern": pat, "guard": []string{"end", "start"}[k%2], "audit": audit})
	}
	// the same while the environment has changed mutable state of the dependencies (one audited lane each)
	for k := 0; k < 2; k++ {
		do("curl.transform", M{"seed": r.Intn(1 << 30), "pattern": []string{"valid", "any"}[k], "guard": []string{"end", "start"}[k], "audit": []int{[]int{0, 63}[k]}, "env": true})
	}
}

func genSponge(do func(string, M)) {
	r := vRand(6)
	if vEnvInt("VERIF_PAR_MS", 1200) > 0 {
		defer func() {
			do("curl.pool", M{"seed": 1, "n": 1})
			do("curl.par", M{"seed": r.Intn(1 << 30)})
			do("curl.first", M{"seed": r.Intn(1 << 30)})
		}()
	}
	ntr := vEnvInt("VERIF_N", 12)
	audits := vEnvInt("VERIF_AUDIT", 6)
	nkeys := 12
	for tr := 0; tr < ntr; tr++ {
		do("curl.pool", M{"seed": r.Intn(1 << 30), "n": nkeys})
		// the same per-lane histories absorbed in one call (instance 8) and split over successive calls
		// (instance 9): "any split across successive Absorb calls" must give the same outputs
		{
			hl := 2 + r.Intn(2)
			ha, hb := make([]int, hl), make([]int, hl)
			for i := range ha {
				ha[i], hb[i] = 1+r.Intn(nkeys), r.Intn(nkeys+1)
			}
			bs := []int{1, 2, 17, 64}[r.Intn(4)]
			mk := func(from, to int) [][]int {
				lanes := make([][]int, bs)
				for j := range lanes {
					if j%2 == 0 {
						lanes[j] = append([]int{}, ha[from:to]...)
					} else {
						lanes[j] = append([]int{}, hb[from:to]...)
					}
				}
				return lanes
			}
			do("curl.new", M{"id": 8})
			do("curl.new", M{"id": 9})
			do("curl.absorb", M{"id": 8, "lanes": mk(0, hl), "nblocks": hl, "bad": ""})
			cut := 1 + r.Intn(hl-1)
			do("curl.absorb", M{"id": 9, "lanes": mk(0, cut), "nblocks": cut, "bad": ""})
			do("curl.absorb", M{"id": 9, "lanes": mk(cut, hl), "nblocks": hl - cut, "bad": ""})
			au := []int{}
			if audits > 0 {
				au = []int{[]int{0, bs - 1}[r.Intn(2)]}
				audits--
			}
			do("curl.squeeze", M{"id": 9, "nlanes": bs, "nblocks": 1, "bad": "", "audit": au})
			do("curl.squeeze", M{"id": 8, "nlanes": bs, "nblocks": 2, "bad": "", "audit": []int{}})
			do("curl.squeeze", M{"id": 9, "nlanes": bs, "nblocks": 1, "bad": "", "audit": []int{}})
		}
		// an all-zero block at a later position in EVERY lane of the batch (the rate then holds only zero trits), and in
		// lane 0 / in the last lane only; anchored by TLC's own Curl-P-81 in the first traces (a deviation that is a function
		// of the lane history is invisible to the relational clauses)
		for v, bs := range []int{1, 3, 3, 2} {
			lanes := make([][]int, bs)
			for j := range lanes {
				lanes[j] = []int{1 + r.Intn(nkeys), 0}
				if (v == 2 && j != 0) || (v == 3 && j != bs-1) {
					lanes[j][1] = 1 + r.Intn(nkeys)
				}
			}
			au := []int{}
			if tr < 2 && (v+tr)%2 == 0 {
				au = []int{[]int{0, bs - 1}[(v/2+tr)%2]}
			}
			do("curl.new", M{"id": 6})
			do("curl.absorb", M{"id": 6, "lanes": lanes, "nblocks": 2, "bad": ""})
			do("curl.squeeze", M{"id": 6, "nlanes": bs, "nblocks": 1, "bad": "", "audit": au})
			do("curl.squeeze", M{"id": 6, "nlanes": bs, "nblocks": 1, "bad": "", "audit": []int{}})
		}
		// a history while the environment has changed mutable state of the dependencies, anchored by TLC's Curl-P-81
		if tr < 2 {
			do("curl.env", M{"scramble": true})
			do("curl.new", M{"id": 5})
			do("curl.absorb", M{"id": 5, "lanes": [][]int{{1 + r.Intn(nkeys)}, {1 + r.Intn(nkeys)}}, "nblocks": 1, "bad": ""})
			do("curl.squeeze", M{"id": 5, "nlanes": 2, "nblocks": 1, "bad": "", "audit": []int{tr}})
			do("curl.env", M{"scramble": false})
		}
		// squeezing zero blocks is squeezing nothing: the sponge goes on absorbing / the next block is the first one
		{
			k1, k2 := 1+r.Intn(nkeys), 1+r.Intn(nkeys)
			au := []int{}
			if tr < 2 {
				au = []int{tr}
			}
			do("curl.new", M{"id": 4})
			do("curl.absorb", M{"id": 4, "lanes": [][]int{{k1}, {k2}}, "nblocks": 1, "bad": ""})
			do("curl.squeeze", M{"id": 4, "nlanes": 2, "nblocks": 0, "bad": "", "audit": []int{}})
			do("curl.absorb", M{"id": 4, "lanes": [][]int{{k2}, {k1}}, "nblocks": 1, "bad": ""})
			do("curl.squeeze", M{"id": 4, "nlanes": 2, "nblocks": 1, "bad": "", "audit": au})
			do("curl.new", M{"id": 3})
			do("curl.absorb", M{"id": 3, "lanes": [][]int{{k1}, {k2}, {k1}}, "nblocks": 1, "bad": ""})
			do("curl.squeeze", M{"id": 3, "nlanes": 3, "nblocks": 0, "bad": "", "audit": []int{}})
			do("curl.squeeze", M{"id": 3, "nlanes": 3, "nblocks": 1, "bad": "", "audit": au})
			do("curl.squeeze", M{"id": 3, "nlanes": 1, "nblocks": 0, "bad": "", "audit": []int{}})
			do("curl.squeeze", M{"id": 3, "nlanes": 3, "nblocks": 1, "bad": "", "audit": []int{}})
		}
		// a fresh instance that is squeezed before anything was absorbed, reset, and used again
		do("curl.new", M{"id": 7})
		do("curl.squeeze", M{"id": 7, "nlanes": 2, "nblocks": 1, "bad": "", "audit": []int{}})
		do("curl.reset", M{"id": 7})
		do("curl.absorb", M{"id": 7, "lanes": [][]int{{1 + r.Intn(nkeys)}, {1 + r.Intn(nkeys)}}, "nblocks": 1, "bad": ""})
		do("curl.squeeze", M{"id": 7, "nlanes": 2, "nblocks": 2, "bad": "", "audit": []int{}})
		do("curl.new", M{"id": 1})
		live := []int{1}
		next := 2
		dir := map[int]bool{} // true once squeezed
		absorbed := map[int]int{}
		steps := 8 + r.Intn(10)
		for s := 0; s < steps; s++ {
			id := live[r.Intn(len(live))]
			switch x := r.Intn(20); {
			case x < 8 && !dir[id]: // absorb: batch sizes 1..64, lanes share keys so that equal histories occur at different lane positions
				bs := []int{1, 2, 3, 7, 31, 32, 33, 63, 64, 1 + r.Intn(64)}[r.Intn(10)]
				nb := 1 + r.Intn(2)
				base := make([]int, nb)
				for i := range base {
					base[i] = 1 + r.Intn(nkeys)
				}
				lanes := make([][]int, bs)
				for j := range lanes {
					lanes[j] = make([]int, nb)
					for b := range lanes[j] {
						switch r.Intn(4) {
						case 0:
							lanes[j][b] = 1 + r.Intn(nkeys)
						case 1:
							lanes[j][b] = 0 // an explicit all-zero block: same history as a lane outside the batch
						default:
							lanes[j][b] = base[b]
						}
					}
				}
				do("curl.absorb", M{"id": id, "lanes": lanes, "nblocks": nb, "bad": ""})
				absorbed[id] += nb
			case x < 14: // squeeze
				nl := []int{1, 2, 5, 33, 64, 1 + r.Intn(64)}[r.Intn(6)]
				nb := 1 + r.Intn(2)
				au := []int{}
				if audits > 0 && absorbed[id] <= 2 && r.Intn(3) == 0 {
					au = []int{[]int{0, nl - 1, r.Intn(nl)}[r.Intn(3)]}
					audits--
				}
				do("curl.squeeze", M{"id": id, "nlanes": nl, "nblocks": nb, "bad": "", "audit": au})
				dir[id] = true
			case x < 15 && len(live) < 3:
				do("curl.clone", M{"id": id, "newid": next})
				live = append(live, next)
				dir[next], absorbed[next] = dir[id], absorbed[id]
				next++
			case x < 16:
				do("curl.reset", M{"id": id})
				dir[id], absorbed[id] = false, 0
			case x < 18 && !dir[id]: // rejected absorb
				do("curl.absorb", M{"id": id, "lanes": [][]int{{1}}, "nblocks": 1, "bad": []string{"batch0", "batch65", "len"}[r.Intn(3)]})
				nbt := 1 + r.Intn(3)
				do("curl.absorb", M{"id": id, "lanes": [][]int{make([]int, nbt), make([]int, nbt), make([]int, nbt)}[:1+r.Intn(3)], "nblocks": nbt, "bad": "trit"})
			default: // rejected squeeze
				do("curl.squeeze", M{"id": id, "nlanes": 1 + r.Intn(64), "nblocks": 1, "bad": []string{"batch0", "batch65", "len"}[r.Intn(3)], "audit": []int{}})
			}
		}
		// make sure every live instance is squeezed at the end (clones and originals continue)
		for _, id := range live {
			do("curl.squeeze", M{"id": id, "nlanes": 64, "nblocks": 2, "bad": "", "audit": []int{}})
		}
	}
}

// curlHistory: one instance, three absorbed blocks of random lanes, squeezed twice (itself and a clone); the outputs as text
func curlHistory(seed, k int64) string {
	rr := rand.New(rand.NewSource(seed + k))
	c := NewCurlP81()
	bs := 1 + rr.Intn(64)
	var sb strings.Builder
	for round := 0; round < 3; round++ {
		src := make([]trinary.Trits, bs)
		for j := range src {
			src[j] = make(trinary.Trits, 243)
			for i := range src[j] {
				src[j][i] = int8(rr.Intn(3) - 1)
			}
		}
		if err := c.Absorb(src, 243); err != nil {
			return "error " + err.Error()
		}
	}
	d := c.Clone()
	for _, x := range []*Curl{c, d} {
		dst := make([]trinary.Trits, bs)
		if err := x.Squeeze(dst, 486); err != nil {
			return "error " + err.Error()
		}
		for j := range dst {
			for _, t := range dst[j] {
				sb.WriteByte(byte('1' + t))
			}
		}
	}
	return sb.String()
}

// TestVerifFirstUse (child process): the FIRST use of the package in a process made by several goroutines at the same
// moment, each with its own instance (whatever the package prepares on first use - tables, CPU feature switches - must be
// ready for all of them); compared with the same histories computed afterwards, one by one.
func TestVerifFirstUse(t *testing.T) {
	in := vChildSpec()
	if in == nil {
		t.Skip()
	}
	seed := int64(vIntOf(in["seed"]))
	K := runtime.GOMAXPROCS(0)
	if K > 16 {
		K = 16
	}
	one := func(g int, c *Curl) string { // one lane, one block in, one block out: the first call already permutes
		rr := rand.New(rand.NewSource(seed + int64(g)))
		src := []trinary.Trits{make(trinary.Trits, 243)}
		for i := range src[0] {
			src[0][i] = int8(rr.Intn(3) - 1)
		}
		return func() string {
			if c == nil {
				c = NewCurlP81()
			}
			if err := c.Absorb(src, 243); err != nil {
				return "error " + err.Error()
			}
			dst := make([]trinary.Trits, 1)
			if err := c.Squeeze(dst, 243); err != nil {
				return "error " + err.Error()
			}
			return fmt.Sprint(dst[0])
		}()
	}
	got := make([]string, K)
	var ready, release int32
	var wg sync.WaitGroup
	for g := 0; g < K; g++ {
		wg.Add(1)
		go func(g int) {
			defer wg.Done()
			var c *Curl
			if g%2 == 0 && seed%2 == 0 {
				c = NewCurlP81() // half of the runs: instances built beforehand, so that the permutation itself is what is used first
			}
			atomic.AddInt32(&ready, 1)
			for atomic.LoadInt32(&release) == 0 { // spin: all goroutines leave within nanoseconds of each other
			}
			got[g] = one(g, c)
		}(g)
	}
	for atomic.LoadInt32(&ready) < int32(K) {
		runtime.Gosched()
	}
	atomic.StoreInt32(&release, 1)
	wg.Wait()
	res := "ok"
	for g := 0; g < K; g++ {
		if one(g, nil) != got[g] {
			res = "verif: instances first used at the same moment by several goroutines gave other outputs than the same histories afterwards"
		}
	}
	fmt.Println("VERIF-CHILD-OUT " + res)
}

func TestVerifDriver(t *testing.T) {
	if vMode() == "record" {
		rec := vOpen()
		defer rec.close()
		do := func(op string, in M) {
			in = vNorm(in)
			if op == "curl.pool" {
				rec.newTrace()
			}
			rec.emit(op, in, vRun(op, in))
		}
		if os.Getenv("VERIF_FOCUS") == "sponge" {
			genSponge(do)
		} else if vTransform != nil {
			genTransform(do)
		}
		return
	}
	vMain(vRun, nil)
}
