package curl

// white-box part of the curl driver: the package-level permutations (C20) and the sponge direction field

func init() {
	vTransform = func(lto, hto, lfrom, hfrom *[StateSize]uint) { transform(lto, hto, lfrom, hfrom) }
	vTransformGeneric = func(lto, hto, lfrom, hfrom *[StateSize]uint) { transformGeneric(lto, hto, lfrom, hfrom) }
	vDirOf = func(c *Curl) int {
		if c.direction == SpongeAbsorbing {
			return 0
		}
		return 1 + int(c.direction)
	}
}
