package ed25519

import (
	"bytes"
	"crypto"
	stded "crypto/ed25519"
	"crypto/sha512"
	"encoding/hex"
	"encoding/json"
	"fmt"
	"io"
	"math/big"
	"sync"
	"math/rand"
	"testing"
	"time"

	"filippo.io/edwards25519"
)

var edL, _ = new(big.Int).SetString("7237005577332262213973186563042994240857116359379907606001950938285454250989", 10)

func leInt(b []byte) *big.Int {
	r := make([]byte, len(b))
	for i := range b {
		r[len(b)-1-i] = b[i]
	}
	return new(big.Int).SetBytes(r)
}

func le32(x *big.Int) []byte {
	b := x.FillBytes(make([]byte, 32))
	for i, j := 0, 31; i < j; i, j = i+1, j-1 {
		b[i], b[j] = b[j], b[i]
	}
	return b
}

func remCert(a *big.Int) M {
	q, r := new(big.Int).DivMod(a, edL, new(big.Int))
	return M{"q": vLimbs(q), "r": vLimbs(r)}
}

// the eight torsion points T_t = [t]T8
var torsion [8]*edwards25519.Point

func init() {
	b, _ := hex.DecodeString("c7176a703d4dd84fba3c0b760d10670f2a2053fa2c39ccc64ec7fd7792ac037a")
	t8, err := new(edwards25519.Point).SetBytes(b)
	if err != nil {
		panic(err)
	}
	torsion[0] = edwards25519.NewIdentityPoint()
	for i := 1; i < 8; i++ {
		torsion[i] = new(edwards25519.Point).Add(torsion[i-1], t8)
	}
	if new(edwards25519.Point).Add(torsion[7], t8).Equal(torsion[0]) != 1 || torsion[4].Equal(torsion[0]) == 1 {
		panic("verif: torsion generator does not have order 8")
	}
}

func scalarOf(x *big.Int) *edwards25519.Scalar {
	s, err := edwards25519.NewScalar().SetCanonicalBytes(le32(new(big.Int).Mod(x, edL)))
	if err != nil {
		panic(err)
	}
	return s
}

// non-canonical encodings of small-order points (t = 0, 2, 4, 6)
func aliasEnc(t int, r *rand.Rand) []byte {
	p := torsion[t]
	can := p.Bytes()
	switch t {
	case 0: // identity (0, 1): y = 1 with sign bit, y = p + 1 with or without sign bit
		opts := [][]byte{append(append([]byte{1}, make([]byte, 30)...), 0x80), pEnc(0xee, 0x7f), pEnc(0xee, 0xff)}
		return opts[r.Intn(len(opts))]
	case 4: // (0, -1): y = p - 1 with sign bit
		return pEnc(0xec, 0xff)
	default: // y = 0 -> y = p, keeping the sign of x
		return pEnc(0xed, 0x7f|can[31]&0x80)
	}
}

func pEnc(first, last byte) []byte {
	b := make([]byte, 32)
	for i := range b {
		b[i] = 0xff
	}
	b[0], b[31] = first, last
	return b
}

func undecodable(r *rand.Rand) []byte {
	for {
		b := make([]byte, 32)
		r.Read(b)
		if _, err := new(edwards25519.Point).SetBytes(b); err != nil {
			return b
		}
	}
}

type built struct {
	pk, msg, sig []byte
	facts        M
}

// concretize builds (pk, msg, sig) for a class descriptor, with the exponent-level facts
func concretize(c M, cseed int64) built {
	r := rand.New(rand.NewSource(cseed))
	str := func(k string) string { s, _ := c[k].(string); return s }
	num := func(k string) int {
		if v, ok := c[k]; ok {
			return vIntOf(v)
		}
		return 0
	}
	seed := make([]byte, 32)
	r.Read(seed)
	h := sha512.Sum512(seed)
	aS, _ := edwards25519.NewScalar().SetBytesWithClamping(h[:32])
	a := leInt(aS.Bytes()) // clamped scalar reduced mod L
	msg := make([]byte, r.Intn(80))
	if num("bigmsg") == 1 { // long messages keep concurrent calls inside the hash for a long time
		msg = make([]byte, 1<<16)
	}
	if num("mlen") > 0 { // a message of exactly this length
		msg = make([]byte, num("mlen"))
	}
	r.Read(msg)
	rb := make([]byte, 64)
	r.Read(rb)
	rr := new(big.Int).Mod(leInt(rb), edL)
	kind := str("kind")
	if kind == "" {
		kind = "class"
	}
	// boundary values of S around the two thresholds of the verifier (2^253 pre-check, group order L); only
	// constructible for a small-order key, where S = r can be chosen freely: R = [S mod L]B + T_u
	var sFixed *big.Int
	if kind == "sfix" {
		two := func(e uint) *big.Int { return new(big.Int).Lsh(big.NewInt(1), e) }
		vals := []*big.Int{big.NewInt(0), big.NewInt(1), new(big.Int).Sub(two(252), big.NewInt(1)), two(252), new(big.Int).Add(two(252), big.NewInt(1)),
			new(big.Int).Sub(edL, big.NewInt(1)), new(big.Int).Set(edL), new(big.Int).Add(edL, big.NewInt(1)), new(big.Int).Sub(two(253), big.NewInt(1)),
			two(253), new(big.Int).Add(two(253), big.NewInt(5)), two(254), two(255), new(big.Int).Sub(two(256), big.NewInt(1)),
			new(big.Int).Add(two(252), new(big.Int).Rand(r, new(big.Int).Sub(edL, two(252))))}
		sFixed = vals[num("sidx")%len(vals)]
		rr = new(big.Int).Mod(sFixed, edL)
	}
	// ---- A
	var pk []byte
	decA := true
	aExp := a
	switch str("akind") {
	case "small":
		aExp = new(big.Int)
		if str("aenc") == "a" {
			pk = aliasEnc(num("at"), r)
		} else {
			pk = torsion[num("at")].Bytes()
		}
	case "undec":
		pk, decA, aExp = undecodable(r), false, new(big.Int)
	default:
		A := new(edwards25519.Point).ScalarBaseMult(aS)
		A.Add(A, torsion[num("at")])
		pk = A.Bytes()
	}
	// ---- R
	var rbytes []byte
	decR := true
	rExp := rr
	switch str("rkind") {
	case "small":
		rExp = new(big.Int)
		if str("renc") == "a" {
			rbytes = aliasEnc(num("rt"), r)
		} else {
			rbytes = torsion[num("rt")].Bytes()
		}
	case "undec":
		rbytes, decR, rExp = undecodable(r), false, new(big.Int)
	default:
		R := new(edwards25519.Point).ScalarBaseMult(scalarOf(rr))
		R.Add(R, torsion[num("rt")])
		rbytes = R.Bytes()
	}
	kOf := func(m []byte) []byte {
		hh := sha512.New()
		hh.Write(rbytes)
		hh.Write(pk)
		hh.Write(m)
		return hh.Sum(nil)
	}
	ksign := new(big.Int).Mod(leInt(kOf(msg)), edL)
	S := new(big.Int).Add(rExp, new(big.Int).Mul(ksign, aExp))
	S.Mod(S, edL)
	if sFixed != nil {
		S = sFixed
	}
	switch str("skind") {
	case "plusL":
		j := int64(num("j"))
		if num("jmax") == 1 { // the largest j with S + jL < 2^256
			j = new(big.Int).Div(new(big.Int).Sub(new(big.Int).Lsh(big.NewInt(1), 256), new(big.Int).Add(S, big.NewInt(1))), edL).Int64()
		}
		S.Add(S, new(big.Int).Mul(edL, big.NewInt(j)))
	case "plus1":
		S.Add(S, big.NewInt(1)).Mod(S, edL)
	case "negr": // the signature equation solved for -R instead of R: [S]B - [k]A = -R (same y coordinate, other x)
		S = new(big.Int).Sub(new(big.Int).Mul(ksign, aExp), rExp)
		S.Mod(S, edL)
	case "topbits":
		S.Add(S, new(big.Int).Lsh(big.NewInt(int64(1+r.Intn(7))), 253))
	}
	sig := append(append([]byte{}, rbytes...), le32(S)...)
	vmsg := msg
	if str("msg") == "changed" {
		vmsg = append(append([]byte{}, msg...), 1)
	}
	cls := "known"
	switch kind {
	case "flipS": // bit flip in S: still an integer TLC can judge
		sig[32+num("bit")/8] ^= 1 << uint(num("bit")%8)
	case "flipR":
		sig[num("bit")/8] ^= 1 << uint(num("bit")%8)
		cls = "unknown"
	case "flipA":
		pk = append([]byte{}, pk...)
		pk[num("bit")/8] ^= 1 << uint(num("bit")%8)
		cls = "unknown"
	case "flipM":
		if len(vmsg) == 0 {
			vmsg = []byte{0}
		}
		vmsg = append([]byte{}, vmsg...)
		vmsg[0] ^= 1
	case "random":
		pk, sig = make([]byte, 32), make([]byte, 64)
		r.Read(pk)
		r.Read(sig)
		cls = "unknown"
	}
	if l, ok := c["len"]; ok && vIntOf(l) != 64 {
		n := vIntOf(l)
		if n < 64 {
			sig = sig[:n]
		} else {
			sig = append(sig, make([]byte, n-64)...)
		}
	}
	if cls == "unknown" {
		return built{pk, vmsg, sig, M{"cls": cls, "decA": false, "decR": false, "a": []int{}, "r": []int{}, "kdigest": []int{},
			"kcert": M{"q": []int{}, "r": []int{}}, "rhs": M{"q": []int{}, "r": []int{}}, "lhs": M{"q": []int{}, "r": []int{}}}}
	}
	// facts about the verification-time hash and the exponent equation
	var sigR []byte
	if len(sig) >= 32 {
		sigR = sig[:32]
	}
	hh := sha512.New()
	hh.Write(sigR)
	hh.Write(pk)
	hh.Write(vmsg)
	kd := hh.Sum(nil)
	kv := new(big.Int).Mod(leInt(kd), edL)
	rhs := new(big.Int).Add(rExp, new(big.Int).Mul(kv, aExp))
	var sInt *big.Int
	if len(sig) == 64 {
		sInt = leInt(sig[32:])
	} else {
		sInt = new(big.Int)
	}
	f := M{"cls": cls, "decA": decA, "decR": decR, "a": vLimbs(aExp), "r": vLimbs(rExp), "kdigest": vInts(kd), "kcert": remCert(leInt(kd)),
		"rhs": remCert(rhs), "lhs": remCert(sInt)}
	return built{pk, vmsg, sig, f}
}

func runVerify(in M) (M, M) {
	c, _ := in["class"].(map[string]interface{})
	if c == nil {
		c = M{}
	}
	b := concretize(c, int64(vIntOf(in["cseed"])))
	in["pk"], in["msg"], in["sig"] = vInts(b.pk), vInts(b.msg), vInts(b.sig)
	if len(b.msg) > 512 { // long messages are determined by (class, cseed); only their length is logged
		in["msg"], in["msglen"] = []int{}, len(b.msg)
	}
	var ok, std bool
	p := vCatch(func() {
		if in["par"] == true {
			ok = Verify(append([]byte{}, b.pk...), b.msg, b.sig)
			return
		}
		// sequential calls go through buffers that are overwritten in place from call to call:
		// the verdict must depend on the bytes only, not on the history of the buffers
		// (vBuf: same backing arrays for all calls of a run, spare capacity of varying size behind the bytes, canary)
		pkB, msgB, sigB := vBuf("ed25519 public key", b.pk), vBuf("ed25519 message", b.msg), vBuf("ed25519 signature", b.sig)
		ok = Verify(PublicKey(pkB), msgB, sigB)
		// the same slices again: the first call must have left them alone, so the verdict is the same
		if ok2 := Verify(PublicKey(pkB), msgB, sigB); ok2 != ok {
			panic(fmt.Sprintf("verif: Verify answered %v and then %v for the same three slices", ok, ok2))
		}
	})
	vCatch(func() { std = stded.Verify(b.pk, b.msg, b.sig) })
	return M{"ok": ok, "std": std, "panic": p}, b.facts
}


type genReader struct {
	data    []byte
	pattern string
	n       int
	calls   int
}

func (g *genReader) Read(p []byte) (int, error) {
	if len(g.data) == 0 {
		return 0, io.EOF
	}
	k := len(p)
	switch g.pattern {
	case "halves":
		k = 16
	case "onebyte":
		k = 1
	case "short": // only 20 bytes are ever available
		if g.n >= 20 {
			return 0, io.ErrUnexpectedEOF
		}
		k = 20 - g.n
	case "dataeof": // the last bytes arrive together with io.EOF (allowed by io.Reader; io.ReadFull takes the data)
		k = 24
		if len(g.data) <= k && len(p) >= len(g.data) {
			n := copy(p, g.data)
			g.data = nil
			g.n += n
			return n, io.EOF
		}
	case "pauses": // reads that deliver nothing (0, nil) in between, as a slow source may
		g.calls++
		if g.calls%2 == 0 {
			return 0, nil
		}
		k = 8
	}
	if k > len(p) {
		k = len(p)
	}
	if k > len(g.data) {
		k = len(g.data)
	}
	copy(p, g.data[:k])
	g.data = g.data[k:]
	g.n += k
	return k, nil
}

func runGenKey(in M) (M, M) {
	seed := vBytes(in["seed"])
	pat := in["pattern"].(string)
	out := M{}
	var pub PublicKey
	var priv PrivateKey
	var err error
	out["panic"] = vCatch(func() { pub, priv, err = GenerateKey(&genReader{data: append([]byte{}, seed...), pattern: pat}) })
	spub, spriv, serr := stded.GenerateKey(&genReader{data: append([]byte{}, seed...), pattern: pat})
	out["ok"], out["std_ok"] = err == nil, serr == nil
	out["pub"], out["std_pub"], out["std_priv"] = vInts(pub), vInts(spub), vInts(spriv)
	// the caller owns what it got: it scribbles over the public key (and over the one priv.Public() hands out) and
	// only then looks at the private key - the two results must not share memory
	if err == nil && out["panic"] == "" {
		out["panic"] = vCatch(func() {
			// an append to one result writes into its spare capacity: that must not reach the other result
			pubKeep, privKeep := append([]byte{}, pub...), append([]byte{}, priv...)
			for x, i := []byte(priv)[:cap(priv)], len(priv); i < len(x); i++ {
				x[i] ^= 0xff
			}
			for x, i := []byte(pub)[:cap(pub)], len(pub); i < len(x); i++ {
				x[i] ^= 0xff
			}
			if !bytes.Equal(pub, pubKeep) || !bytes.Equal(priv, privKeep) {
				panic("verif: appending to one of the keys returned by GenerateKey changed the other one (results share memory)")
			}
			for i := range pub {
				pub[i] ^= 0xff
			}
			if p2, ok := priv.Public().(PublicKey); ok {
				for i := range p2 {
					p2[i] ^= 0xff
				}
			}
			sd := priv.Seed()
			for i := range sd {
				sd[i] ^= 0xff
			}
			if err == nil && serr == nil && !bytes.Equal(Sign(priv, []byte("after the caller changed its copies")), stded.Sign(spriv, []byte("after the caller changed its copies"))) {
				panic("verif: signature of the generated key differs from crypto/ed25519 after the caller overwrote the public key / seed it was given")
			}
		})
	}
	out["priv"] = vInts(priv)
	return out, M{}
}


type hashedOpts struct{}

func (hashedOpts) HashFunc() crypto.Hash { return crypto.SHA512 }

func runSign(in M) (M, M) {
	// seed and message live in the caller's buffers (reused from call to call, spare capacity behind them)
	seed, msg := vBuf("ed25519 seed", in["seed"]), vBuf("ed25519 message", in["msg"])
	out := M{}
	var priv PrivateKey
	var sig, sig2 []byte
	out["panic"] = vCatch(func() {
		// what happened before must not matter: a verification that fails early (R is not a point) precedes the signing
		bad := make([]byte, SignatureSize)
		bad[0] = 2
		Verify(PublicKey(make([]byte, PublicKeySize)), msg, bad)
		// every signature of a run goes through ONE reused private key buffer (keys overwritten in place):
		// signing must depend on the key bytes only, not on the history of the buffer
		// (vBuf: one backing array per run, capacity behind the 64 bytes varies: none, 1, 64 more, 96, 4096)
		keyB := PrivateKey(vBuf("ed25519 private key", []byte(NewKeyFromSeed(seed))))
		priv = append(PrivateKey{}, keyB...)
		sig = Sign(keyB, msg)
		sig2 = Sign(NewKeyFromSeed(append([]byte{}, seed...)), append([]byte{}, msg...))
	})
	spriv := stded.NewKeyFromSeed(seed)
	out["priv"], out["std_priv"] = vInts(priv), vInts(spriv)
	out["pub"], out["std_pub"] = vInts(priv.Public().(PublicKey)), vInts(spriv.Public().(stded.PublicKey))
	out["sig"], out["sig2"], out["std_sig"] = vInts(sig), vInts(sig2), vInts(stded.Sign(spriv, msg))
	out["verify_ok"] = Verify(priv.Public().(PublicKey), msg, sig)
	s1, e1 := priv.Sign(nil, msg, crypto.Hash(0))
	out["signer_sig"], out["signer_err"] = vInts(s1), ""
	if e1 != nil {
		out["signer_err"] = e1.Error()
	}
	// the randomness source handed to the Signer must not matter (Ed25519 signing is deterministic): a source of
	// constant bytes and an exhausted one; a deviating answer replaces the one reported
	for _, rd := range []io.Reader{bytes.NewReader(bytes.Repeat([]byte{0xA7}, 256)), bytes.NewReader(nil)} {
		sr, er := priv.Sign(rd, msg, crypto.Hash(0))
		if er != nil {
			out["signer_err"] = er.Error()
		} else if !bytes.Equal(sr, s1) {
			out["signer_sig"] = vInts(sr)
		}
	}
	vOwnOrKeep("Sign result", sig)
	accepted := []int{}
	for h := 1; h < 24; h++ {
		var he error
		pn := vCatch(func() { _, he = priv.Sign(nil, msg, crypto.Hash(h)) })
		if he == nil && pn == "" { // refusing = an error (what accompanies it is not specified)
			accepted = append(accepted, h)
		}
	}
	out["signer_accepted_hashes"] = accepted
	d := sha512.Sum512(msg)
	s2, e2 := priv.Sign(nil, d[:], hashedOpts{})
	out["signer_hashed_sig"], out["signer_hashed_err"] = vInts(s2), ""
	if e2 != nil {
		out["signer_hashed_err"] = e2.Error()
	}
	// facts
	h := sha512.Sum512(seed)
	rd := sha512.New()
	rd.Write(h[32:])
	rd.Write(msg)
	rdig := rd.Sum(nil)
	f := M{"hseed_of": vInts(seed), "hseed": vInts(h[:]), "rdigest_of": vInts(append(append([]byte{}, h[32:]...), msg...)), "rdigest": vInts(rdig),
		"rcert": remCert(leInt(rdig)), "kdigest_of": []int{}, "kdigest": []int{}, "kcert": remCert(new(big.Int)), "scert": remCert(new(big.Int))}
	if len(sig) == 64 {
		kin := append(append(append([]byte{}, sig[:32]...), priv[32:]...), msg...)
		kdig := sha512.Sum512(kin)
		aS, _ := edwards25519.NewScalar().SetBytesWithClamping(h[:32])
		// the clamped scalar as an integer (not reduced): bytes with the clamping applied
		cl := append([]byte{}, h[:32]...)
		cl[0] &= 248
		cl[31] &= 63
		cl[31] |= 64
		_ = aS
		rr := new(big.Int).Mod(leInt(rdig), edL)
		kk := new(big.Int).Mod(leInt(kdig[:]), edL)
		f["kdigest_of"], f["kdigest"], f["kcert"] = vInts(kin), vInts(kdig[:]), remCert(leInt(kdig[:]))
		f["scert"] = remCert(new(big.Int).Add(rr, new(big.Int).Mul(kk, leInt(cl))))
	}
	return out, f
}

// runSignPar: Sign / NewKeyFromSeed / Verify called by several goroutines at the same time, each with its own key and
// messages of its own lengths; every answer is compared with crypto/ed25519 (computed beforehand, one by one).
func runSignPar(in M) M {
	rr := rand.New(rand.NewSource(int64(vIntOf(in["seed"]))))
	const K = 8
	type job struct {
		seed []byte
		msgs [][]byte
		sigs [][]byte
		pub  []byte
	}
	jobs := make([]job, K)
	for g := range jobs {
		sd := make([]byte, 32)
		rr.Read(sd)
		sp := stded.NewKeyFromSeed(sd)
		j := job{seed: sd, pub: []byte(sp.Public().(stded.PublicKey))}
		for _, l := range []int{0, 1 + rr.Intn(64), 111, 200 + rr.Intn(2000)} {
			m := make([]byte, l)
			rr.Read(m)
			j.msgs, j.sigs = append(j.msgs, m), append(j.sigs, stded.Sign(sp, m))
		}
		jobs[g] = j
	}
	msg := ""
	var mu sync.Mutex
	fail := func(s string) {
		mu.Lock()
		if msg == "" {
			msg = s
		}
		mu.Unlock()
	}
	p := vCatch(func() {
		var wg sync.WaitGroup
		start := make(chan struct{})
		deadline := time.Now().Add(time.Duration(vEnvInt("VERIF_PAR_MS", 1200)) * time.Millisecond)
		for g := 0; g < K; g++ {
			wg.Add(1)
			go func(j job) {
				defer wg.Done()
				defer func() {
					if r := recover(); r != nil {
						fail(fmt.Sprint("verif: panic in a Sign / Verify call made concurrently with other calls: ", r))
					}
				}()
				<-start
				for rep := 0; rep < 4 || time.Now().Before(deadline); rep++ {
					priv := NewKeyFromSeed(j.seed)
					for i, m := range j.msgs {
						sig := Sign(priv, m)
						if !bytes.Equal(sig, j.sigs[i]) {
							fail("verif: a signature made concurrently with other Sign calls differs from crypto/ed25519")
							return
						}
						if !bytes.Equal(priv.Public().(PublicKey), j.pub) || !Verify(PublicKey(j.pub), m, sig) {
							fail("verif: public key / verification of the own signature differs when called concurrently with other calls")
							return
						}
					}
				}
			}(jobs[g])
		}
		close(start)
		wg.Wait()
	})
	if p == "" {
		p = msg
	}
	return M{"panic": p}
}

func TestVerifDriver(t *testing.T) {
	rec := vOpen()
	defer rec.close()
	auto := int64(0)
	emit := func(op string, in M) {
		in = vNorm(in)
		var out, facts M
		if op == "ed.Verify" {
			if in["cseed"] == nil {
				auto++
				in["cseed"] = float64(vSeed()*100003 + auto)
			}
			if in["exp"] == nil {
				in["exp"] = ""
			}
			out, facts = runVerify(in)
		} else if op == "ed.GenerateKey" {
			out, facts = runGenKey(in)
		} else if op == "ed.SignPar" {
			out, facts = runSignPar(in), M{}
		} else {
			out, facts = runSign(in)
		}
		in = vNorm(in)
		rec.i++
		rec.count++
		vPost(out)
		b, err := json.Marshal(map[string]interface{}{"t": rec.t, "i": rec.i, "op": op, "in": in, "out": out, "facts": facts})
		if err != nil {
			panic(err)
		}
		rec.w.Write(b)
		rec.w.WriteByte('\n')
	}
	runPar := func(ins []M) {
		vConc = true
		defer func() { vConc = false }()
		// the same scenarios verified by 8 goroutines at once: every verdict must be the one the specification gives
		type res struct{ in, out, facts M }
		results := make([][]res, len(ins)) // the answers seen for input i (index i belongs to goroutine i%8)
		var wg sync.WaitGroup
		budget := time.Duration(vEnvInt("VERIF_PAR_MS", 1200)) * time.Millisecond
		start := make(chan struct{})
		t0 := time.Now()
		for g := 0; g < 8; g++ {
			wg.Add(1)
			go func(g int) {
				defer wg.Done()
				<-start
				for rep := 0; rep < 3 || time.Since(t0) < budget; rep++ {
					for i := g; i < len(ins); i += 8 {
						in := vNorm(ins[i])
						in["par"] = true
						o, f := runVerify(in)
						fresh := true
						for _, x := range results[i] {
							if x.out["ok"] == o["ok"] {
								fresh = false
							}
						}
						if fresh { // every distinct verdict is kept and judged: a disturbed call cannot be overwritten
							results[i] = append(results[i], res{in, o, f})
						}
					}
				}
			}(g)
		}
		close(start)
		wg.Wait()
		for _, xs := range results {
			for _, x := range xs {
				rec.i++
				rec.count++
				b, _ := json.Marshal(map[string]interface{}{"t": rec.t, "i": rec.i, "op": "ed.Verify", "in": vNorm(x.in), "out": x.out, "facts": x.facts})
				rec.w.Write(b)
				rec.w.WriteByte('\n')
			}
		}
	}
	if vMode() == "replay" {
		var par []M
		for _, v := range vReadInputs() {
			if v.Op == "ed.Verify" && v.In["par"] == true {
				par = append(par, v.In)
				continue
			}
			vForce = v.Mode
			emit(v.Op, v.In)
			vForce = ""
		}
		if len(par) > 0 {
			for len(par) < 64 { // keep the goroutines busy also when only a few events are replayed
				par = append(par, par[len(par)%8])
			}
			runPar(par)
		}
		return
	}
	r := vRand(1)
	n := vEnvInt("VERIF_N", 30)
	honest := M{"akind": "honest", "at": 0, "aenc": "c", "rkind": "honest", "rt": 0, "renc": "c", "skind": "ok", "j": 1, "msg": "same", "len": 64}
	with := func(kv ...interface{}) M {
		c := M{}
		for k, v := range honest {
			c[k] = v
		}
		for i := 0; i+1 < len(kv); i += 2 {
			c[kv[i].(string)] = kv[i+1]
		}
		return c
	}
	if vEnvFocus() != "sign" {
		var parIns []M
		for k := 0; k < n; k++ {
			cs := r.Intn(1 << 30)
			emit("ed.Verify", M{"class": with(), "cseed": cs})
			// S + j*L for EVERY j that fits 256 bits
			emit("ed.Verify", M{"class": with("skind", "plusL", "j", 1+k%15), "cseed": cs})
			emit("ed.Verify", M{"class": with("skind", "plusL", "jmax", 1), "cseed": cs})
			emit("ed.Verify", M{"class": with("at", r.Intn(8), "rt", r.Intn(8)), "cseed": cs})
			// every single-bit flip of S, R, A over the run; message flip; random bytes
			stride := vEnvInt("VERIF_BITSTRIDE", 16)
			for bit := k % stride; bit < 256; bit += stride {
				emit("ed.Verify", M{"class": with("kind", "flipS", "bit", bit), "cseed": cs})
				emit("ed.Verify", M{"class": with("kind", "flipR", "bit", bit), "cseed": cs})
				emit("ed.Verify", M{"class": with("kind", "flipA", "bit", bit), "cseed": cs})
			}
			for sidx := k % 3; sidx < 15; sidx += 3 {
				emit("ed.Verify", M{"class": with("kind", "sfix", "sidx", sidx, "akind", "small", "at", r.Intn(8), "rt", r.Intn(8)), "cseed": cs})
			}
			emit("ed.Verify", M{"class": with("kind", "flipM"), "cseed": cs})
			emit("ed.Verify", M{"class": with("skind", "negr"), "cseed": cs})
			emit("ed.Verify", M{"class": with("skind", "negr", "at", r.Intn(8), "rt", r.Intn(8)), "cseed": cs})
			if k < 16 { // message lengths around the block sizes an implementation may buffer by (honest signatures, and a changed message)
				ml := []int{111, 112, 1984, 1985, 2000, 2047, 2048, 2049, 4032, 4033, 4095, 4096, 4097, 5000, 8191, 20000}[k]
				emit("ed.Verify", M{"class": with("mlen", ml), "cseed": cs})
				emit("ed.Verify", M{"class": with("mlen", ml, "kind", "flipM"), "cseed": cs})
			}
			emit("ed.Verify", M{"class": with("kind", "random"), "cseed": cs})
			parIns = append(parIns, M{"class": with("bigmsg", 1), "cseed": cs, "exp": ""}, M{"class": with("bigmsg", 1, "at", r.Intn(8), "rt", r.Intn(8)), "cseed": cs, "exp": ""},
				M{"class": with("skind", "plusL", "j", 1), "cseed": cs, "exp": ""}, M{"class": with("msg", "changed"), "cseed": cs, "exp": ""},
				M{"class": with("akind", "small", "at", r.Intn(8), "rkind", "small", "rt", r.Intn(8)), "cseed": cs, "exp": ""})
		}
		for len(parIns) < 64 {
			parIns = append(parIns, parIns...)
		}
		rec.newTrace()
		runPar(parIns)
		return
	}
	// C07: seeds x messages around the SHA-512 block / padding boundaries of both hashes (32+len and 64+len)
	lens := []int{0, 1, 2, 31, 32, 33, 1984, 1985, 2048, 2049, 4095, 4096, 4097, 5000, 8191, 8192, 8193, 20000}
	for _, base := range []int{111, 112, 127, 128, 239, 240, 255, 256} {
		for _, off := range []int{32, 64} {
			for d := -1; d <= 1; d++ {
				if l := base - off + d; l >= 0 {
					lens = append(lens, l, l+128)
				}
			}
		}
	}
	lens = append(lens, 300, 1000, 1023, 1024, 1025, 1056, 1057, 2049)
	for k := 0; k < n; k++ {
		seed := make([]byte, 32)
		r.Read(seed)
		switch k % 9 {
		case 1:
			seed = make([]byte, 32)
		case 2:
			for i := range seed {
				seed[i] = 0xff
			}
		}
		l := lens[k%len(lens)]
		if k >= len(lens) {
			l = r.Intn(400)
		}
		msg := make([]byte, l)
		r.Read(msg)
		emit("ed.Sign", M{"seed": vInts(seed), "msg": vInts(msg)})
	}
	for _, pat := range []string{"whole", "halves", "onebyte", "short", "dataeof", "pauses"} { // every delivery pattern x every amount of data
		for _, sl := range []int{32, 33, 40, 64, 31, 20, 0} {
			seed := make([]byte, sl)
			r.Read(seed)
			emit("ed.GenerateKey", M{"seed": vInts(seed), "pattern": pat})
		}
	}
	if vEnvInt("VERIF_PAR_MS", 1200) > 0 {
		defer emit("ed.SignPar", M{"seed": r.Intn(1 << 30)})
	}
	// reuse of one key buffer for different keys (aliasing hazards)
	buf := make([]byte, 32)
	for k := 0; k < 6; k++ {
		r.Read(buf)
		emit("ed.Sign", M{"seed": vInts(buf), "msg": vInts([]byte("same message"))})
	}
}
