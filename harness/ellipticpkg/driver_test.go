package elliptic

import (
	"math/rand"
	"fmt"
	"sync"
	"encoding/json"
	"errors"
	"math/big"
	"testing"

	stdelliptic "crypto/elliptic"

	"github.com/wollac/iota-crypto-demo/pkg/slip10"
	"github.com/wollac/iota-crypto-demo/pkg/slip10/elliptic/internal/btccurve"
)

// vToy (white box, wb_test.go + overlay shim in internal/btccurve): the generic curve type with toy parameters.
// Without it the toy shift events are not produced and only the real-size legs run.
var vToy func(p, n, b, gx, gy int64) stdelliptic.Curve

var toyParams = map[int][5]int64{
	13: {13, 7, 7, 7, 5}, 43: {43, 31, 7, 2, 12}, 61: {61, 61, 7, 2, 25}, 67: {67, 79, 7, 2, 22},
	79: {79, 67, 7, 1, 18}, 97: {97, 79, 7, 1, 28}, 127: {127, 127, 7, 1, 32},
}

func okOf(err error) (bool, string) {
	if err == nil {
		return true, ""
	}
	if errors.Is(err, slip10.ErrInvalidKey) {
		return false, "invalid"
	}
	return false, "other"
}

func curveByName(n string) Curve {
	if n == "secp256k1" {
		return Curve{btccurve.Secp256k1()}
	}
	return Curve{stdelliptic.P256()}
}

func slipCurve(n string) slip10.Curve {
	if n == "secp256k1" {
		return Secp256k1()
	}
	return Nist256p1()
}

func runF(op string, in M) (M, M) {
	switch op {
	case "shift.s":
		t := toyParams[vIntOf(in["p"])]
		c := vToy(t[0], t[1], t[2], t[3], t[4])
		k := big.NewInt(int64(vIntOf(in["k"])))
		d := vBytes(in["d"])
		priv := &PrivateKey{K: k, Curve: c}
		out := M{"priv_ok": false, "priv_k": -1, "priv_pub": []int{-1, -1}, "pub_ok": false, "pub": []int{-1, -1}}
		var pk, qk slip10.Key
		var e1, e2 error
		out["panic_priv"] = vCatch(func() {
			pk, e1 = priv.Shift(d)
			if e1 == nil {
				pp := pk.Public().(*PublicKey)
				out["priv_k"] = int(pk.(*PrivateKey).K.Int64())
				out["priv_pub"] = []int{int(pp.X.Int64()), int(pp.Y.Int64())}
			}
		})
		out["panic_pub"] = vCatch(func() {
			qk, e2 = priv.Public().Shift(d)
			if e2 == nil {
				qq := qk.(*PublicKey)
				out["pub"] = []int{int(qq.X.Int64()), int(qq.Y.Int64())}
			}
		})
		out["priv_ok"], _ = okOf(e1)
		out["pub_ok"], _ = okOf(e2)
		if out["panic_priv"] != "" {
			out["priv_ok"] = false
		}
		if out["panic_pub"] != "" {
			out["pub_ok"] = false
		}
		return out, M{}
	case "shift.b":
		c := curveByName(in["curve"].(string))
		kb, d := vBytes(in["k"]), vBytes(in["d"])
		k := new(big.Int).SetBytes(kb)
		priv := &PrivateKey{K: k, Curve: c}
		out := M{"priv_ok": false, "priv_k": []int{}, "priv_pub": []int{}, "pub_ok": false, "pub": []int{}}
		var e1, e2 error
		out["panic_priv"] = vCatch(func() {
			var pk slip10.Key
			pk, e1 = priv.Shift(d)
			if e1 == nil {
				out["priv_k"] = vInts(pk.Bytes())
				out["priv_pub"] = vInts(pk.Public().Bytes())
			}
		})
		out["panic_pub"] = vCatch(func() {
			var qk slip10.Key
			qk, e2 = priv.Public().Shift(d)
			if e2 == nil {
				out["pub"] = vInts(qk.Bytes())
			}
		})
		out["priv_ok"], _ = okOf(e1)
		out["pub_ok"], _ = okOf(e2)
		if out["panic_priv"] != "" {
			out["priv_ok"] = false
		}
		if out["panic_pub"] != "" {
			out["pub_ok"] = false
		}
		n := c.Params().N
		sum := new(big.Int).Add(k, new(big.Int).SetBytes(d))
		q, s := new(big.Int).DivMod(sum, n, new(big.Int))
		return out, M{"q": vLimbs(q), "s": vLimbs(s)}
	case "shift.new":
		sc := slipCurve(in["curve"].(string))
		buf := vBuf("NewPrivateKey buffer", in["buf"])
		var k slip10.Key
		var err error
		p := vCatch(func() { k, err = sc.NewPrivateKey(buf) })
		ok, _ := okOf(err)
		out := M{"ok": ok && p == "", "key": []int{}, "panic": p}
		if ok && p == "" {
			out["key"] = vInts(k.Bytes())
		}
		return out, M{}
	case "shift.par":
		// the very first use of the curves in a process, from several goroutines at once (child process)
		res := ""
		for try := 0; try < 6 && res == ""; try++ { // each child is a fresh process: a fresh chance to collide during first use
			var crashed string
			res, crashed = vChild("TestVerifFirstUse", in)
			if crashed != "" {
				res = crashed
			}
		}
		return M{"panic": res}, M{}
	case "shift.derive":
		sc := slipCurve(in["curve"].(string))
		seed := vBuf("slip10 seed", in["seed"])
		path := vIntList(in["path"])
		idx := uint32(vIntOf(in["index"]))
		out := M{"priv_ok": false, "pub_ok": false, "priv_pub": []int{}, "pub": []int{}, "priv_chain": []int{}, "pub_chain": []int{}, "priv_fp": []int{}, "pub_fp": []int{}}
		out["panic"] = vCatch(func() {
			parent, err := slip10.NewMasterKey(seed, sc)
			if err != nil {
				panic(err)
			}
			for _, i := range path {
				if parent, err = parent.DeriveChild(uint32(i) | slip10.Hardened*uint32(i%2)); err != nil {
					panic(err)
				}
			}
			c1, e1 := parent.DeriveChild(idx)
			pubParent := parent.Public()
			c2, e2 := pubParent.DeriveChild(idx)
			// both parents go on deriving other children before the two results are compared
			parent.DeriveChild((idx ^ 1) &^ slip10.Hardened)
			pubParent.DeriveChild((idx ^ 2) &^ slip10.Hardened)
			out["priv_ok"], out["pub_ok"] = e1 == nil, e2 == nil
			if e1 == nil {
				p1 := c1.Public()
				out["priv_pub"], out["priv_chain"], out["priv_fp"] = vInts(p1.Key.Bytes()), vInts(p1.ChainCode), vInts(p1.Fingerprint())
			}
			if e2 == nil {
				out["pub"], out["pub_chain"], out["pub_fp"] = vInts(c2.Key.Bytes()), vInts(c2.ChainCode), vInts(c2.Fingerprint())
			}
		})
		return out, M{}
	}
	panic("unknown op " + op)
}

func TestVerifFirstUse(t *testing.T) {
	in := vChildSpec()
	if in == nil {
		t.Skip()
	}
	rr := rand.New(rand.NewSource(int64(vIntOf(in["seed"]))))
	const K = 32
	ks := make([][]byte, K)
	for i := range ks {
		ks[i] = make([]byte, 32)
		rr.Read(ks[i])
		ks[i][0] &= 0x7f
	}
	pub := func(i int) string {
		c := slipCurve([]string{"secp256k1", "p256"}[i%2])
		k, err := c.NewPrivateKey(ks[i])
		if err != nil {
			return "err"
		}
		child, err := k.Shift(ks[(i+1)%K])
		if err != nil {
			return "err-shift"
		}
		return string(k.Public().Bytes()) + "|" + string(child.Public().Bytes())
	}
	got := make([]string, K)
	var wg sync.WaitGroup
	start := make(chan struct{})
	for g := 0; g < K; g++ {
		wg.Add(1)
		go func(g int) { defer wg.Done(); <-start; got[g] = pub(g) }(g)
	}
	close(start)
	wg.Wait()
	msg := ""
	for g := 0; g < K; g++ { // now, sequentially, in a process that has used the curves before
		if pub(g) != got[g] {
			msg = "verif: a public key computed during concurrent first use of the curve differs from the one computed later"
		}
	}
	fmt.Println("VERIF-CHILD-OUT " + msg)
}

func TestVerifDriver(t *testing.T) {
	rec := vOpen()
	defer rec.close()
	emit := func(op string, in M) {
		if op == "shift.s" && vToy == nil {
			return
		}
		in = vNorm(in)
		out, cert := runF(op, in)
		rec.i++
		rec.count++
		vPost(out)
		b, err := json.Marshal(map[string]interface{}{"t": rec.t, "i": rec.i, "op": op, "in": in, "out": out, "cert": cert})
		if err != nil {
			panic(err)
		}
		rec.w.Write(b)
		rec.w.WriteByte('\n')
	}
	if vMode() == "replay" {
		for _, v := range vReadInputs() {
			vForce = v.Mode
			emit(v.Op, v.In)
			vForce = ""
		}
		return
	}
	r := vRand(8)
	n := vEnvInt("VERIF_N", 40)
	if vEnvInt("VERIF_PAR_MS", 1200) > 0 {
		emit("shift.par", M{"seed": r.Intn(1 << 30)})
	}
	pad32 := func(x *big.Int) []byte { return x.FillBytes(make([]byte, 32)) }
	// candidate private keys at the edges: 0, 1, n-1, n, n+1, values in [n, p), p, 2^256-1
	for _, name := range []string{"secp256k1", "p256"} {
		nn, pp := curveByName(name).Params().N, curveByName(name).Params().P
		gap := new(big.Int).Sub(pp, nn)
		for _, v := range []*big.Int{big.NewInt(0), big.NewInt(1), new(big.Int).Sub(nn, big.NewInt(1)), nn, new(big.Int).Add(nn, big.NewInt(1)),
			new(big.Int).Add(nn, new(big.Int).Rand(r, gap)), new(big.Int).Sub(pp, big.NewInt(1)), pp, new(big.Int).Sub(new(big.Int).Lsh(big.NewInt(1), 256), big.NewInt(1))} {
			if v.BitLen() <= 256 {
				emit("shift.new", M{"curve": name, "buf": vInts(pad32(v))})
			}
		}
	}
	for k := 0; k < n; k++ {
		name := []string{"secp256k1", "p256"}[k%2]
		nn := curveByName(name).Params().N
		kb := make([]byte, 32)
		r.Read(kb)
		ks := new(big.Int).Mod(new(big.Int).SetBytes(kb), new(big.Int).Sub(nn, big.NewInt(1)))
		ks.Add(ks, big.NewInt(1)) // 1..n-1
		var d []byte
		switch (k / 2) % 8 {
		case 0:
			d = pad32(big.NewInt(0)) // zero shift
		case 1:
			d = pad32(ks) // the key's own scalar
		case 2:
			d = pad32(new(big.Int).Sub(nn, ks)) // its negation
		case 3:
			d = pad32(nn) // shift = n
		case 4:
			d = pad32(new(big.Int).Add(nn, big.NewInt(int64(1+r.Intn(5)))))
		case 5:
			d = pad32(new(big.Int).Sub(nn, big.NewInt(1)))
		case 6:
			d = make([]byte, 32)
			for i := range d {
				d[i] = 0xff
			}
		default:
			d = make([]byte, 32)
			r.Read(d)
		}
		emit("shift.b", M{"curve": name, "k": vInts(pad32(ks)), "d": vInts(d)})
		if k < 12 && name == "secp256k1" {
			// secp256k1's endomorphism: [lambda]P = (beta*x, y) has the SAME y as P and another x (and [lambda^2]P likewise;
			// with the negations: same y up to sign).  Shifts lambda*k, lambda^2*k, -lambda*k add two such points.
			lam, _ := new(big.Int).SetString("5363ad4cc05c30e0a5261c028812645a122e22ea20816678df02967c1b23bd72", 16)
			lk := new(big.Int).Mod(new(big.Int).Mul(lam, ks), nn)
			llk := new(big.Int).Mod(new(big.Int).Mul(lam, lk), nn)
			for _, v := range []*big.Int{lk, llk, new(big.Int).Sub(nn, lk), new(big.Int).Sub(nn, llk)} {
				emit("shift.b", M{"curve": name, "k": vInts(pad32(ks)), "d": vInts(pad32(v))})
			}
		}
		{ // key and shift by their leading byte (0x00, an ASCII digit, 0x7f, 0x80 ...), and sums just above the group order
			lead := []byte{0x00, 0x30, 0x31, 0x20, 0x7f, 0x80, 0x01, 0xff}[k%8]
			k2, d2 := pad32(ks), append([]byte{}, d...)
			k2[0] = lead
			if new(big.Int).SetBytes(k2).Cmp(nn) < 0 && new(big.Int).SetBytes(k2).Sign() > 0 {
				emit("shift.b", M{"curve": name, "k": vInts(k2), "d": vInts(d)})
			}
			d2[0] = lead
			emit("shift.b", M{"curve": name, "k": vInts(pad32(ks)), "d": vInts(d2)})
			kk := new(big.Int).Sub(nn, big.NewInt(int64(1+k%3))) // n-1, n-2, n-3 shifted by 2..: the sum passes n by a little
			emit("shift.b", M{"curve": name, "k": vInts(pad32(kk)), "d": vInts(pad32(big.NewInt(int64(2 + k%5))))})
		}
		if k%4 == 3 { // the same scalar and shift on the other curve right afterwards (both orders occur over a run)
			other := []string{"p256", "secp256k1"}[k%2]
			if ks.Cmp(curveByName(other).Params().N) < 0 {
				emit("shift.b", M{"curve": other, "k": vInts(pad32(ks)), "d": vInts(d)})
			}
		}
		if k < 10 { // long chains: both derivation orders far below the master key (whatever counts levels must not run out or wrap)
			lp := make([]int, []int{254, 255, 256, 257, 512}[k%5])
			for i := range lp {
				lp[i] = r.Intn(1 << 20)
			}
			ls := make([]byte, 32)
			r.Read(ls)
			emit("shift.derive", M{"curve": name, "seed": vInts(ls), "path": lp, "index": k})
		}
		seed := make([]byte, 16+r.Intn(49))
		r.Read(seed)
		path := make([]int, r.Intn(3))
		for i := range path {
			path[i] = r.Intn(1 << 20)
		}
		idx := []int{0, 1, 2, 1<<31 - 1, r.Intn(1 << 31), r.Intn(1000)}[r.Intn(6)]
		emit("shift.derive", M{"curve": name, "seed": vInts(seed), "path": path, "index": idx})
	}
}
