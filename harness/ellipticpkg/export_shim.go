package btccurve

// Overlay-only file (never written to /repo): lets the /verif driver of package
// pkg/slip10/elliptic instantiate the unexported koblitzCurve with toy parameters.

import (
	"crypto/elliptic"
	"math/big"
)

func VerifToyCurve(p, n, b, gx, gy int64) elliptic.Curve {
	return koblitzCurve{&elliptic.CurveParams{P: big.NewInt(p), N: big.NewInt(n), B: big.NewInt(b),
		Gx: big.NewInt(gx), Gy: big.NewInt(gy), BitSize: 8, Name: "toy"}}
}
