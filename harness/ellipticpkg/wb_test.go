package elliptic

import "github.com/wollac/iota-crypto-demo/pkg/slip10/elliptic/internal/btccurve"

// white-box part: the toy instantiation of the unexported curve type through the overlay shim

func init() { vToy = btccurve.VerifToyCurve }
