package hexutil

import "testing"

func vRun(op string, in M) M {
	switch op {
	case "hex.Marshal":
		b := Bytes(vBytes(in["bytes"]))
		var t []byte
		var s string
		p := vCatch(func() { t, _ = b.MarshalText(); s = b.String() })
		return M{"text": vInts(t), "str": vInts([]byte(s)), "panic": p}
	case "hex.Unmarshal":
		var b Bytes
		var err error
		p := vCatch(func() { err = b.UnmarshalText(vBytes(in["text"])) })
		out := M{"ok": err == nil && p == "", "bytes": []int{}, "panic": p}
		if err == nil {
			out["bytes"] = vInts(b)
		}
		return out
	}
	panic("unknown op " + op)
}

func TestVerifDriver(t *testing.T) {
	vMain(vRun, func(do func(string, M)) {
		r := vRand(77)
		for k := 0; k < vEnvInt("VERIF_N", 200); k++ {
			b := make([]byte, r.Intn(12))
			r.Read(b)
			do("hex.Marshal", M{"bytes": vInts(b)})
			t := make([]byte, r.Intn(10))
			for i := range t {
				t[i] = "0123456789abcdefABCDEFgx "[r.Intn(25)]
			}
			do("hex.Unmarshal", M{"text": vInts(t)})
		}
	})
}
