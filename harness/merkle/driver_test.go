package merkle

import (
	"bytes"
	"crypto"
	_ "crypto/sha256"
	_ "crypto/sha512"
	"encoding"
	"encoding/binary"
	"errors"
	"fmt"
	"hash"
	"io"
	"sort"
	"sync"
	"testing"
	"time"

	_ "golang.org/x/crypto/blake2b"
)

// recording hash: the k-th Sum of the process returns the 16-byte big-endian encoding of k and logs the bytes written
// since New/Reset.  The numbering is never reset, so a digest the implementation kept from an earlier call (a cached
// empty root, say) still names its preimage; every event ships the calls made during it plus whatever older calls its
// results refer to.
var recAll = map[uint32][]byte{}
var recN uint32
var recNew []uint32

type recHash struct{ buf []byte }

func (h *recHash) Write(p []byte) (int, error) { h.buf = append(h.buf, p...); return len(p), nil }
func (h *recHash) Sum(b []byte) []byte {
	recN++
	recAll[recN] = append([]byte{}, h.buf...)
	recNew = append(recNew, recN)
	var out [16]byte
	binary.BigEndian.PutUint32(out[12:], recN)
	return append(b, out[:]...)
}
func (h *recHash) Reset()         { h.buf = nil }
func (h *recHash) Size() int      { return 16 }
func (h *recHash) BlockSize() int { return 64 }

const recID = crypto.MD4 // an otherwise unregistered 16-byte slot

func init() { crypto.RegisterHash(recID, func() hash.Hash { return &recHash{} }) }

type leaf struct {
	data []byte
	fail int // -1: ok, else the index reported in the error
}

type leafErr struct{ idx int }

func (e *leafErr) Error() string { return "leaf failed" }

func (l *leaf) MarshalBinary() ([]byte, error) {
	if l.fail >= 0 {
		return nil, &leafErr{l.fail}
	}
	return l.data, nil
}

func mkLeaves(in M) ([]encoding.BinaryMarshaler, [][]byte) {
	var raw [][]byte
	if a, ok := in["leaves"].([]interface{}); ok {
		for _, x := range a {
			raw = append(raw, vBytes(x))
		}
	}
	fail := map[int]bool{}
	for _, i := range vIntList(in["fail"]) {
		fail[i] = true
	}
	ls := make([]encoding.BinaryMarshaler, len(raw))
	for i := range raw {
		f := -1
		if fail[i] {
			f = i
		}
		ls[i] = &leaf{data: raw[i], fail: f}
	}
	return ls, raw
}

func recID16(b []byte) uint32 {
	if len(b) != 16 {
		return 0
	}
	for _, x := range b[:12] {
		if x != 0 {
			return 0
		}
	}
	return binary.BigEndian.Uint32(b[12:])
}

// callsOut: the calls of this event and the older calls reachable from the given digests (children of a 33-byte
// preimage sit at offsets 1 and 17; whether that is the right shape is for the specification to say)
func callsOut(roots ...[]byte) []M {
	want := map[uint32]bool{}
	var visit func(id uint32)
	visit = func(id uint32) {
		p, ok := recAll[id]
		if !ok || want[id] {
			return
		}
		want[id] = true
		if len(p) == 33 {
			visit(recID16(p[1:17]))
			visit(recID16(p[17:33]))
		}
	}
	for _, id := range recNew {
		visit(id)
	}
	for _, r := range roots {
		visit(recID16(r))
	}
	ids := make([]int, 0, len(want))
	for id := range want {
		ids = append(ids, int(id))
	}
	sort.Ints(ids)
	r := make([]M, len(ids))
	for i, id := range ids {
		r[i] = M{"id": id, "inp": vInts(recAll[uint32(id)])}
	}
	return r
}

var hashers = map[crypto.Hash]*Hasher{}

func sharedHasher(h crypto.Hash) *Hasher {
	if hashers[h] == nil {
		hashers[h] = NewHasher(h)
	}
	return hashers[h]
}

func hashByName(n string) crypto.Hash {
	switch n {
	case "sha256":
		return crypto.SHA256
	case "sha384":
		return crypto.SHA384
	case "sha512":
		return crypto.SHA512
	case "sha512_256":
		return crypto.SHA512_256
	case "sha512_224":
		return crypto.SHA512_224
	case "sha224":
		return crypto.SHA224
	}
	return crypto.BLAKE2b_256
}

type slowFailLeaf struct {
	idx   int
	delay time.Duration
}

func (l *slowFailLeaf) MarshalBinary() ([]byte, error) {
	time.Sleep(l.delay)
	return nil, &leafErr{l.idx}
}

func nLeaves(n int) []encoding.BinaryMarshaler {
	ls := make([]encoding.BinaryMarshaler, n)
	for i := range ls {
		// the marshaled form is the leaf's own storage and has spare capacity (a digest would fit behind it)
		buf := make([]byte, 4, 160)
		copy(buf, []byte{byte(i), byte(i >> 8), byte(i >> 16), byte(n)})
		ls[i] = &leaf{data: buf, fail: -1}
	}
	return ls
}

// decoyLeaf: a leaf that ALSO has the other ways Go types offer to turn themselves into bytes or text.  The tree is over
// the MarshalBinary form (C15: "depends only on the marshaled leaves"); each decoy yields something else, and the ones
// that consume (WriteTo, Read) would change the leaf.
type decoyLeaf struct {
	inner *leaf
	used  *int
}

func (d decoyLeaf) MarshalBinary() ([]byte, error) { return d.inner.MarshalBinary() }

func (d decoyLeaf) touch() { *d.used++ }
func (d decoyLeaf) WriteTo(w io.Writer) (int64, error) {
	d.touch()
	n, err := w.Write(append([]byte{0xfe, byte(len(d.inner.data))}, d.inner.data...))
	return int64(n), err
}
func (d decoyLeaf) Read(p []byte) (int, error)      { d.touch(); return copy(p, "decoy"), io.EOF }
func (d decoyLeaf) String() string                  { d.touch(); return "decoy-string" }
func (d decoyLeaf) Bytes() []byte                   { d.touch(); return []byte("decoy-bytes") }
func (d decoyLeaf) MarshalText() ([]byte, error)    { d.touch(); return []byte("decoy-text"), nil }
func (d decoyLeaf) MarshalJSON() ([]byte, error)    { d.touch(); return []byte(`"decoy-json"`), nil }
func (d decoyLeaf) GobEncode() ([]byte, error)      { d.touch(); return []byte("decoy-gob"), nil }
func (d decoyLeaf) AppendBinary(b []byte) ([]byte, error) { d.touch(); return append(b, "decoy-append"...), nil }
func (d decoyLeaf) Sum(b []byte) []byte             { d.touch(); return append(b, "decoy-sum"...) }
func (d decoyLeaf) Len() int                        { d.touch(); return 1 }

var decoyUsed int

func decoys(ls []encoding.BinaryMarshaler) []encoding.BinaryMarshaler {
	out := make([]encoding.BinaryMarshaler, len(ls))
	for i, l := range ls {
		out[i] = decoyLeaf{l.(*leaf), &decoyUsed}
	}
	return out
}

func leavesIntact(ls []encoding.BinaryMarshaler, n int) bool {
	for i, l := range ls {
		if dl, ok := l.(decoyLeaf); ok {
			l = dl.inner
		}
		d := l.(*leaf).data
		if len(d) != 4 || d[0] != byte(i) || d[1] != byte(i>>8) || d[2] != byte(i>>16) || d[3] != byte(n) {
			return false
		}
		// also the spare capacity behind the data belongs to the caller
		for _, x := range d[:cap(d)][4:] {
			if x != 0 {
				return false
			}
		}
	}
	return true
}

// foldShape folds the tree shape chosen by the specification with a real hash.
func foldShape(h crypto.Hash, shape interface{}, ls []encoding.BinaryMarshaler) []byte {
	switch s := shape.(type) {
	case float64:
		d := h.New()
		d.Write([]byte{0})
		b, _ := ls[int(s)-1].MarshalBinary()
		d.Write(b)
		return d.Sum(nil)
	case []interface{}:
		l, r := foldShape(h, s[0], ls), foldShape(h, s[1], ls)
		d := h.New()
		d.Write([]byte{1})
		d.Write(l)
		d.Write(r)
		return d.Sum(nil)
	}
	panic("bad shape")
}

func bottomUp(h crypto.Hash, ls []encoding.BinaryMarshaler) []byte {
	if len(ls) == 0 {
		return h.New().Sum(nil)
	}
	level := make([][]byte, len(ls))
	for i, l := range ls {
		d := h.New()
		d.Write([]byte{0})
		b, _ := l.MarshalBinary()
		d.Write(b)
		level[i] = d.Sum(nil)
	}
	for len(level) > 1 {
		var next [][]byte
		for i := 0; i+1 < len(level); i += 2 {
			d := h.New()
			d.Write([]byte{1})
			d.Write(level[i])
			d.Write(level[i+1])
			next = append(next, d.Sum(nil))
		}
		if len(level)%2 == 1 {
			next = append(next, level[len(level)-1])
		}
		level = next
	}
	return level[0]
}

func vRun(op string, in M) M {
	switch op {
	case "merkle.Hash":
		ls, raw := mkLeaves(in)
		keep := make([][]byte, len(raw))
		for i := range raw {
			keep[i] = append([]byte{}, raw[i]...)
		}
		keepLs := append([]encoding.BinaryMarshaler{}, ls...)
		recNew = nil
		hs := sharedHasher(recID) // one Hasher for the whole run: a call must not depend on how an earlier one ended
		var root []byte
		var err error
		p := vCatch(func() { root, err = hs.Hash(ls) })
		out := M{"ok": err == nil && p == "", "root": vInts(root), "err": -1, "panic": p,
			"size": hs.Size(), "emptyroot": []int{}}
		er := []byte{}
		var le *leafErr
		if err != nil && errors.As(err, &le) {
			out["err"] = le.idx
		}
		unmod := len(ls) == len(keepLs)
		for i := range keepLs {
			unmod = unmod && ls[i] == keepLs[i] && bytes.Equal(raw[i], keep[i])
		}
		out["unmodified"] = unmod
		if len(ls) == 0 {
			// EmptyRoot must be the same term as Hash(nil): H() over no input (computed now or kept from earlier)
			er = hs.EmptyRoot()
			out["emptyroot"] = vInts(er)
		}
		out["calls"] = callsOut(root, er)
		vOwnOrKeep("Hasher.Hash result", root)
		return out
	case "merkle.Real":
		n := vIntOf(in["n"])
		h := hashByName(in["hash"].(string))
		ls := nLeaves(n)
		var root, fold []byte
		var err error
		var root2 []byte
		p := vCatch(func() {
			hs := sharedHasher(h)
			root, err = hs.Hash(ls)
			root2, _ = hs.Hash(ls) // the same leaves again: same root, leaves untouched
			if n == 0 {
				fold = h.New().Sum(nil)
			} else {
				fold = foldShape(h, in["shape"], nLeaves(n))
			}
		})
		return M{"ok": err == nil && p == "", "root": vInts(root), "root2": vInts(root2), "fold": vInts(fold), "size": h.Size(),
			"intact": leavesIntact(ls, n), "panic": p}
	case "merkle.Big":
		n := vIntOf(in["n"])
		h := hashByName(in["hash"].(string))
		ls := nLeaves(n)
		var root, bu []byte
		var err error
		if in["decoy"] == true {
			ls = decoys(ls)
			decoyUsed = 0
		}
		p := vCatch(func() {
			root, err = sharedHasher(h).Hash(ls)
			bu = bottomUp(h, nLeaves(n))
			if r2, _ := sharedHasher(h).Hash(ls); !bytes.Equal(r2, root) {
				panic("verif: hashing the same leaves again gives another root")
			}
			if in["decoy"] == true && decoyUsed > 0 {
				panic("verif: the hasher used a leaf through something other than MarshalBinary")
			}
		})
		return M{"ok": err == nil && p == "", "root": vInts(root), "bottomup": vInts(bu), "size": h.Size(), "intact": leavesIntact(ls, n), "panic": p}
	case "merkle.BigErr":
		// many leaves, several of them fail to marshal (each with its own error), the first of them slowly: however the
		// implementation walks the leaves, the error of the first failing leaf in leaf order is the answer
		n := vIntOf(in["n"])
		h := hashByName(in["hash"].(string))
		ls := nLeaves(n)
		for k, i := range vIntList(in["fail"]) {
			d := time.Duration(0)
			if k == 0 {
				d = 25 * time.Millisecond
			}
			ls[i] = &slowFailLeaf{idx: i, delay: d}
		}
		var root []byte
		var err error
		p := vCatch(func() { root, err = sharedHasher(h).Hash(ls) })
		out := M{"ok": err == nil && p == "", "root": vInts(root), "err": -1, "panic": p}
		var le *leafErr
		if err != nil && errors.As(err, &le) {
			out["err"] = le.idx
		}
		return out
	case "merkle.Par": // Hashers created separately (one per goroutine, as an API with a constructor suggests) and used at the same time
		h := hashByName(in["hash"].(string))
		g := vIntOf(in["g"])
		want := make([][]byte, g)
		for i := range want {
			want[i] = bottomUp(h, nLeaves(3+17*i))
		}
		bad := ""
		var mu sync.Mutex
		p := vCatch(func() {
			deadline := time.Now().Add(time.Duration(vIntOf(in["ms"])) * time.Millisecond)
			for round := 0; round < 400 && bad == "" && (round < 6 || time.Now().Before(deadline)); round++ {
				var wg sync.WaitGroup
				start := make(chan struct{})
				for i := 0; i < g; i++ {
					wg.Add(1)
					go func(i int) {
						defer wg.Done()
						defer func() {
							if r := recover(); r != nil {
								mu.Lock()
								bad = fmt.Sprint("panic in a concurrent Hash: ", r)
								mu.Unlock()
							}
						}()
						hs := NewHasher(h)
						<-start
						for q := 0; q < 8; q++ {
							ls := nLeaves(3 + 17*i)
							root, err := hs.Hash(ls)
							er := hs.EmptyRoot()
							if err != nil || !bytes.Equal(root, want[i]) || !bytes.Equal(er, h.New().Sum(nil)) || !leavesIntact(ls, 3+17*i) {
								mu.Lock()
								bad = fmt.Sprintf("goroutine %d: root of %d leaves differs from the sequential answer", i, 3+17*i)
								mu.Unlock()
							}
						}
					}(i)
				}
				close(start)
				wg.Wait()
			}
			if bad != "" {
				panic("verif: " + bad)
			}
		})
		return M{"ok": p == "", "panic": p}
	case "merkle.Empty": // history on one Hasher: results handed out earlier may be modified by their owners
		h := hashByName(in["hash"].(string))
		want := h.New().Sum(nil)
		ok := true
		p := vCatch(func() {
			hs := NewHasher(h)
			for round := 0; round < 3; round++ {
				a, _ := hs.Hash(nil)
				b := hs.EmptyRoot()
				ok = ok && bytes.Equal(a, want) && bytes.Equal(b, want)
				for i := range a {
					a[i] ^= 0xff
				}
				for i := range b {
					b[i] = 0
				}
			}
		})
		return M{"ok": ok, "panic": p}
	}
	if f, ok := vWB[op]; ok {
		return f(in)
	}
	panic("unknown op " + op)
}

func init() { vWBNames["merkle.lp2"] = true; vNoRepeat["merkle.Big"] = true; vNoRepeat["merkle.BigErr"] = true; vNoRepeat["merkle.Par"] = true }

func TestVerifDriver(t *testing.T) {
	vMain(vRun, func(do func(string, M)) {
		r := vRand(15)
		n := vEnvInt("VERIF_N", 60)
		// (leaf counts whose binary form has several set bits at the high end too: 24577.., 45056)
		big := []int{255, 256, 257, 511, 513, 1023, 1024, 1025, 4095, 4097, 12289 + r.Intn(4000), 24577 + r.Intn(4000), 45056 - r.Intn(4000)}
		if vEnvInt("VERIF_BIG", 0) > 0 {
			big = append(big, 8191, 8193, 16385, 32767, 32769, 65535, 65536, 65537, 65538, 70001, 131071, 131073)
		}
		for _, b := range big {
			do("merkle.Big", M{"n": b, "hash": []string{"sha256", "blake2b"}[b%2]})
		}
		for _, b := range []int{0, 1, 2, 3, 5, 64, 65, 300} {
			do("merkle.Big", M{"n": b, "hash": []string{"sha256", "blake2b"}[b%2], "decoy": true})
		}
		// several failing leaves on both sides of the top split points of large trees
		for _, b := range []int{2048, 4096, 5000, 8192, 12289} {
			k := 1
			for 2*k < b {
				k *= 2
			}
			for _, fl := range [][]int{{k - 1, k}, {k/2 - 1, k, b - 1}, {0, b - 1}, {k/2 + k/4 - 1, k + (b-k)/2}} {
				do("merkle.BigErr", M{"n": b, "hash": []string{"sha256", "blake2b"}[len(fl)%2], "fail": fl})
			}
		}
		for _, hn := range []string{"sha256", "blake2b", "sha512"} {
			do("merkle.Par", M{"hash": hn, "g": 8, "ms": 300})
		}
		for k := 0; k < n; k++ {
			// random leaf counts and contents (also empty and equal leaves) through the recording hash
			cnt := r.Intn(300)
			leaves := make([][]int, cnt)
			for i := range leaves {
				b := make([]byte, r.Intn(4))
				r.Read(b)
				if r.Intn(5) == 0 {
					b = []byte{1, 2}
				}
				if r.Intn(6) == 0 && i > 0 { // the previous leaf with zero bytes appended or a byte removed: distinct leaves
					prev := vBytes(vNorm(M{"x": leaves[i-1]})["x"])
					if r.Intn(2) == 0 || len(prev) == 0 {
						b = append(prev, make([]byte, 1+r.Intn(2))...)
					} else {
						b = prev[:len(prev)-1]
					}
				}
				leaves[i] = vInts(b)
			}
			fail := []int{}
			if k%3 == 0 && cnt > 0 {
				for f := 1 + r.Intn(3); f > 0; f-- {
					fail = append(fail, r.Intn(cnt))
				}
			}
			do("merkle.Hash", M{"leaves": leaves, "fail": fail})
			do("merkle.Big", M{"n": 300 + r.Intn(3000), "hash": []string{"sha256", "blake2b", "sha512", "sha384", "sha512_256"}[k%5]})
			do("merkle.Big", M{"n": r.Intn(12), "hash": []string{"sha512", "sha384", "sha512_256", "sha256", "blake2b", "sha512_224", "sha224"}[k%7]})
			do("merkle.Empty", M{"hash": []string{"sha256", "blake2b", "sha512"}[k%3]})
			if vHasWB("merkle.lp2") {
				do("merkle.lp2", M{"n": 2 + r.Intn(1<<30)})
			}
		}
	})
}
