package merkle

// white-box part of the merkle driver: the unexported split function

func init() {
	vWB["merkle.lp2"] = func(in M) M {
		n := vIntOf(in["n"])
		var k uint
		p := vCatch(func() { k = largestPowerOfTwo(n) })
		return M{"k": int(k), "panic": p}
	}
}
