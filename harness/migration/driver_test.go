package migration

import (
	"strings"
	"testing"

	"golang.org/x/crypto/blake2b"
)

const tryteAlphabet = "9ABCDEFGHIJKLMNOPQRSTUVWXYZ"

func tryteVal(c byte) int {
	for i := 0; i < 27; i++ {
		if tryteAlphabet[i] == c {
			if i > 13 {
				return i - 27
			}
			return i
		}
	}
	return 99
}

// candidate: the driver's own reading of the address bytes carried by a
// migration string (only used to choose which BLAKE2b fact to log; the
// specification checks that the fact is about the candidate it derives itself)
func candidate(t string) []byte {
	if len(t) != 81 {
		return nil
	}
	body := t[8:80]
	out := make([]byte, 0, 36)
	for i := 0; i+1 < len(body); i += 2 {
		a, b := tryteVal(body[i]), tryteVal(body[i+1])
		if a == 99 || b == 99 {
			return nil
		}
		v := a + 27*b
		if v < -128 || v > 127 {
			return nil
		}
		out = append(out, byte(int8(v)))
	}
	return out[:32]
}

func factFor(addr []byte) M {
	if addr == nil {
		return M{"addr": []int{}, "hash": []int{}}
	}
	h := blake2b.Sum256(addr)
	return M{"addr": vInts(addr), "hash": vInts(h[:])}
}

func vRun(op string, in M) M { panic("use vRunF") }

func runF(op string, in M) (M, M) {
	switch op {
	case "migration.Encode":
		var a [32]byte
		copy(a[:], vBytes(in["addr"]))
		var t string
		p := vCatch(func() { t = string(Encode(a)) })
		vKeepStr("migration.Encode result", t)
		out := M{"trytes": vInts([]byte(t)), "panic": p, "dec_ok": false, "dec_addr": []int{}}
		var d [32]byte
		var err error
		p2 := vCatch(func() { d, err = Decode(t) })
		out["dec_ok"] = err == nil && p2 == ""
		if err == nil && p2 == "" {
			out["dec_addr"] = vInts(d[:])
		}
		return out, factFor(a[:])
	case "migration.Decode":
		t := string(vBytes(in["trytes"]))
		var d [32]byte
		var err error
		p := vCatch(func() { d, err = Decode(t) })
		out := M{"ok": err == nil && p == "", "addr": []int{}, "panic": p}
		if err == nil && p == "" {
			out["addr"] = vInts(d[:])
		}
		return out, factFor(candidate(t))
	}
	panic("unknown op " + op)
}

func TestVerifDriver(t *testing.T) {
	rec := vOpen()
	defer rec.close()
	emit := func(op string, in M) {
		in = vNorm(in)
		out, facts := runF(op, in)
		rec.i++
		writeEvent(rec, op, in, out, facts)
	}
	if vMode() == "replay" {
		for _, v := range vReadInputs() {
			vForce = v.Mode
			emit(v.Op, v.In)
			vForce = ""
		}
		return
	}
	r := vRand(191)
	n := vEnvInt("VERIF_N", 6)
	for k := 0; k < n; k++ {
		var a [32]byte
		r.Read(a[:])
		switch k % 4 {
		case 1:
			a = [32]byte{}
		case 2:
			for i := range a {
				a[i] = 0xff
			}
		}
		emit("migration.Encode", M{"addr": vInts(a[:])})
		s := []byte(Encode(a))
		// all single-tryte substitutions
		for i := 0; i < len(s); i++ {
			for c := 0; c < 27; c++ {
				if tryteAlphabet[c] == s[i] {
					continue
				}
				m := append([]byte{}, s...)
				m[i] = tryteAlphabet[c]
				emit("migration.Decode", M{"trytes": vInts(m)})
			}
		}
		emit("migration.Decode", M{"trytes": vInts(s)})
		emit("migration.Decode", M{"trytes": vInts(s[:80])})
		emit("migration.Decode", M{"trytes": vInts(append(append([]byte{}, s...), '9'))})
		emit("migration.Decode", M{"trytes": vInts(append([]byte("9"), s[:80]...))})
		lower := append([]byte{}, s...)
		for i, c := range lower {
			if c >= 'A' && c <= 'Z' {
				lower[i] = c + 32
			}
		}
		emit("migration.Decode", M{"trytes": vInts(lower)})
		// every adjacent tryte pair rewritten to the value 256 above or below (the same byte modulo 256: a b1t6 group
		// outside the code words); for aligned pairs the result differs from a valid address in one group only
		tv := func(c byte) int {
			k := strings.IndexByte(tryteAlphabet, c)
			if k > 13 {
				k -= 27
			}
			return k
		}
		tc := func(v int) byte { return tryteAlphabet[(v+27)%27] }
		for i := 0; i+1 < len(s); i++ {
			v := tv(s[i]) + 27*tv(s[i+1])
			for _, w := range []int{v + 256, v - 256} {
				if w < -364 || w > 364 {
					continue
				}
				lo := ((w%27)+27+13)%27 - 13
				hi := (w - lo) / 27
				m := append([]byte{}, s...)
				m[i], m[i+1] = tc(lo), tc(hi)
				emit("migration.Decode", M{"trytes": vInts(m)})
			}
		}
		// two substitutions in the checksum part
		for q := 0; q < 40; q++ {
			m := append([]byte{}, s...)
			m[72+r.Intn(8)] = tryteAlphabet[r.Intn(27)]
			m[8+r.Intn(72)] = tryteAlphabet[r.Intn(27)]
			emit("migration.Decode", M{"trytes": vInts(m)})
		}
	}
}
