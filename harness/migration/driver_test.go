package migration

import (
	"fmt"
	"math/rand"
	"sync"
	"time"
	"strings"
	"testing"

	iotachecksum "github.com/iotaledger/iota.go/checksum"
	"golang.org/x/crypto/blake2b"
)

const tryteAlphabet = "9ABCDEFGHIJKLMNOPQRSTUVWXYZ"

func tryteVal(c byte) int {
	for i := 0; i < 27; i++ {
		if tryteAlphabet[i] == c {
			if i > 13 {
				return i - 27
			}
			return i
		}
	}
	return 99
}

// candidate: the driver's own reading of the address bytes carried by a
// migration string (only used to choose which BLAKE2b fact to log; the
// specification checks that the fact is about the candidate it derives itself)
func candidate(t string) []byte {
	if len(t) != 81 {
		return nil
	}
	body := t[8:80]
	out := make([]byte, 0, 36)
	for i := 0; i+1 < len(body); i += 2 {
		a, b := tryteVal(body[i]), tryteVal(body[i+1])
		if a == 99 || b == 99 {
			return nil
		}
		v := a + 27*b
		if v < -128 || v > 127 {
			return nil
		}
		out = append(out, byte(int8(v)))
	}
	return out[:32]
}

// rejKind: the driver's own reading of WHY a string is no migration address (which stage of the specification's decoder
// rejects it).  Not judged by anything: the checks use it to pick one rejected input per kind for the failure histories.
func rejKind(t string) string {
	if len(t) != 81 {
		return "len"
	}
	if t[:8] != "TRANSFER" {
		return "prefix"
	}
	if t[80] != '9' {
		return "suffix"
	}
	body := t[8:80]
	for i := 0; i+1 < len(body); i += 2 {
		a, b := tryteVal(body[i]), tryteVal(body[i+1])
		if v := a + 27*b; a == 99 || b == 99 || v < -128 || v > 127 {
			if i < 64 {
				return "addr-group"
			}
			return "cs-group"
		}
	}
	return "checksum"
}

func factFor(addr []byte) M {
	if addr == nil {
		return M{"addr": []int{}, "hash": []int{}}
	}
	h := blake2b.Sum256(addr)
	return M{"addr": vInts(addr), "hash": vInts(h[:])}
}

func vRun(op string, in M) M { panic("use vRunF") }

func runF(op string, in M) (M, M) {
	switch op {
	case "migration.Encode":
		var a [32]byte
		copy(a[:], vBytes(in["addr"]))
		var t string
		p := vCatch(func() { t = string(Encode(a)) })
		vKeepStr("migration.Encode result", t)
		out := M{"trytes": vInts([]byte(t)), "panic": p, "dec_ok": false, "dec_addr": []int{}}
		var d [32]byte
		var err error
		p2 := vCatch(func() { d, err = Decode(t) })
		out["dec_ok"] = err == nil && p2 == ""
		if err == nil && p2 == "" {
			out["dec_addr"] = vInts(d[:])
		}
		return out, factFor(a[:])
	case "migration.Decode":
		t := string(vBytes(in["trytes"]))
		var d [32]byte
		var err error
		p := vCatch(func() { d, err = Decode(t) })
		out := M{"ok": err == nil && p == "", "addr": []int{}, "panic": p}
		if err == nil && p == "" {
			out["addr"] = vInts(d[:])
		} else {
			out["err"] = rejKind(t)
		}
		return out, factFor(candidate(t))
	case "migration.par":
		// Encode / Decode called by several goroutines at the same time, each with its own address, a corrupted spelling
		// and a spelling with an invalid group in the checksum part: every call answers as it does alone
		rr := vRandSeed(int64(vIntOf(in["seed"])))
		const K = 8
		type job struct {
			a        [32]byte
			s, c1, c2 string
		}
		jobs := make([]job, K)
		for g := range jobs {
			rr.Read(jobs[g].a[:])
			s := string(Encode(jobs[g].a))
			b := []byte(s)
			b[1+rr.Intn(60)] = tryteAlphabet[rr.Intn(27)]
			c := []byte(s)
			c[len(c)-3], c[len(c)-2] = 'M', 'M'
			jobs[g].s, jobs[g].c1, jobs[g].c2 = s, string(b), string(c)
		}
		msg := ""
		var mu sync.Mutex
		fail := func(m string) {
			mu.Lock()
			if msg == "" {
				msg = m
			}
			mu.Unlock()
		}
		p := vCatch(func() {
			var wg sync.WaitGroup
			start := make(chan struct{})
			deadline := time.Now().Add(time.Duration(vEnvInt("VERIF_PAR_MS", 1000)) * time.Millisecond)
			for g := 0; g < K; g++ {
				wg.Add(1)
				go func(j job) {
					defer wg.Done()
					defer func() {
						if r := recover(); r != nil {
							fail(fmt.Sprint("verif: panic in a call made concurrently with other calls: ", r))
						}
					}()
					_, e1 := Decode(j.c1)
					<-start
					for rep := 0; rep < 6 || time.Now().Before(deadline); rep++ {
						if string(Encode(j.a)) != j.s {
							fail("verif: Encode called concurrently with other calls gave a different string than alone")
							return
						}
						if d, err := Decode(j.s); err != nil || d != j.a {
							fail("verif: Decode of a valid string called concurrently with other calls failed or gave another address")
							return
						}
						if _, err := Decode(j.c2); err == nil {
							fail("verif: Decode accepted an invalid group in the checksum part when called concurrently with other calls")
							return
						}
						if _, err := Decode(j.c1); (err == nil) != (e1 == nil) {
							fail("verif: Decode of a corrupted string answers differently when called concurrently with other calls")
							return
						}
					}
				}(jobs[g])
			}
			close(start)
			wg.Wait()
		})
		if p == "" {
			p = msg
		}
		return M{"panic": p}, factFor(nil)
	}
	panic("unknown op " + op)
}

func TestVerifDriver(t *testing.T) {
	rec := vOpen()
	defer rec.close()
	emit := func(op string, in M) {
		in = vNorm(in)
		out, facts := runF(op, in)
		rec.i++
		writeEvent(rec, op, in, out, facts)
	}
	if vMode() == "replay" {
		for _, v := range vReadInputs() {
			vForce = v.Mode
			emit(v.Op, v.In)
			vForce = ""
		}
		return
	}
	r := vRand(191)
	n := vEnvInt("VERIF_N", 6)
	if vEnvInt("VERIF_PAR_MS", 1000) > 0 {
		defer func() { emit("migration.par", M{"seed": r.Intn(1 << 30)}) }()
	}
	for k := 0; k < n; k++ {
		var a [32]byte
		r.Read(a[:])
		switch k % 4 {
		case 1:
			a = [32]byte{}
		case 2:
			for i := range a {
				a[i] = 0xff
			}
		}
		emit("migration.Encode", M{"addr": vInts(a[:])})
		s := []byte(Encode(a))
		// all single-tryte substitutions
		for i := 0; i < len(s); i++ {
			for c := 0; c < 27; c++ {
				if tryteAlphabet[c] == s[i] {
					continue
				}
				m := append([]byte{}, s...)
				m[i] = tryteAlphabet[c]
				emit("migration.Decode", M{"trytes": vInts(m)})
				if (i*27+c)%7 == k%7 { // what a rejected call leaves behind must not matter: the valid string and the encoder right after it
					emit("migration.Decode", M{"trytes": vInts(s)})
					emit("migration.Encode", M{"addr": vInts(a[:])})
				}
			}
		}
		// a group outside the code words at each position of the checksum part, each followed by valid calls
		for i := 72; i+1 < 80; i++ {
			for _, pair := range []string{"MM", "NN", "ZM"} {
				m := append([]byte{}, s...)
				m[i], m[i+1] = pair[0], pair[1]
				emit("migration.Decode", M{"trytes": vInts(m)})
				emit("migration.Encode", M{"addr": vInts(a[:])})
				emit("migration.Decode", M{"trytes": vInts(s)})
			}
		}
		// every length: the valid string cut short, and extended (random trytes, then the suffix) - among them the
		// lengths other tryte formats have (hash 81, hash with checksum 90, 243)
		for _, L := range append([]int{90, 243, 162, 99, 2673}, func() []int { var a []int; for l := 0; l <= 100; l++ { a = append(a, l) }; return a }()...) {
			var m []byte
			if L <= len(s) {
				m = append(m, s[:L]...)
			} else {
				m = append(m, s[:80]...)
				for len(m) < L-1 {
					m = append(m, tryteAlphabet[r.Intn(27)])
				}
				m = append(m, '9')
			}
			emit("migration.Decode", M{"trytes": vInts(m)})
			if L > len(s) { // the whole valid string in front
				emit("migration.Decode", M{"trytes": vInts(append(append([]byte{}, s...), m[len(s):]...))})
			}
		}
		// the valid string in the forms other tools of the ecosystem print it in: followed by its own legacy (Kerl) address
		// checksum of 9 or 3 trytes - longer than a migration address, so never one
		for _, cl := range []uint64{9, 3} {
			if long, err := iotachecksum.AddChecksum(string(s), true, cl); err == nil {
				emit("migration.Decode", M{"trytes": vInts([]byte(long))})
			}
		}
		emit("migration.Decode", M{"trytes": vInts(s)})
		emit("migration.Decode", M{"trytes": vInts(s[:80])})
		emit("migration.Decode", M{"trytes": vInts(append(append([]byte{}, s...), '9'))})
		emit("migration.Decode", M{"trytes": vInts(append([]byte("9"), s[:80]...))})
		lower := append([]byte{}, s...)
		for i, c := range lower {
			if c >= 'A' && c <= 'Z' {
				lower[i] = c + 32
			}
		}
		emit("migration.Decode", M{"trytes": vInts(lower)})
		// every adjacent tryte pair rewritten to the value 256 above or below (the same byte modulo 256: a b1t6 group
		// outside the code words); for aligned pairs the result differs from a valid address in one group only
		tv := func(c byte) int {
			k := strings.IndexByte(tryteAlphabet, c)
			if k > 13 {
				k -= 27
			}
			return k
		}
		tc := func(v int) byte { return tryteAlphabet[(v+27)%27] }
		for i := 0; i+1 < len(s); i++ {
			v := tv(s[i]) + 27*tv(s[i+1])
			for _, w := range []int{v + 256, v - 256} {
				if w < -364 || w > 364 {
					continue
				}
				lo := ((w%27)+27+13)%27 - 13
				hi := (w - lo) / 27
				m := append([]byte{}, s...)
				m[i], m[i+1] = tc(lo), tc(hi)
				emit("migration.Decode", M{"trytes": vInts(m)})
			}
		}
		// two substitutions in the checksum part
		for q := 0; q < 40; q++ {
			m := append([]byte{}, s...)
			m[72+r.Intn(8)] = tryteAlphabet[r.Intn(27)]
			m[8+r.Intn(72)] = tryteAlphabet[r.Intn(27)]
			emit("migration.Decode", M{"trytes": vInts(m)})
		}
	}
}

func vRandSeed(seed int64) *rand.Rand { return rand.New(rand.NewSource(seed)) }
