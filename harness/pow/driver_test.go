package pow

import (
	_ "crypto/md5"
	_ "crypto/sha1"
	_ "crypto/sha256"
	"crypto"
	"sync"
	"context"
	"encoding/binary"
	"encoding/json"
	"fmt"
	"math"
	"math/rand"
	"os"
	"os/exec"
	"strings"
	"testing"
	"time"

	"github.com/iotaledger/iota.go/consts"
	"golang.org/x/crypto/blake2b"
)

func vMinInt(a, b int) int {
	if a < b {
		return a
	}
	return b
}

func nonce8(n uint64) []int {
	var b [8]byte
	binary.LittleEndian.PutUint64(b[:], n)
	return vInts(b[:])
}

func digestFacts(data []byte) M {
	d := blake2b.Sum256(data)
	return M{"data": vInts(data), "digest": vInts(d[:])}
}

// digestFactsH: the digest under the configured hash function (pow.Hash is a package variable: "Hash defines the hash
// function that is used to compute the PoW digest"), computed from the hash's own constructor, not through the package
func digestFactsH(id int, data []byte) M {
	if id == 0 {
		return digestFacts(data)
	}
	h := crypto.Hash(id).New()
	h.Write(data)
	return M{"data": vInts(data), "digest": vInts(h.Sum(nil))}
}

// mineChild runs one Mine call inside a child process so that a crash of the
// process is an observation, not the end of the driver.
func mineChild(data []byte, target float64, workers int, prior interface{}, conc ...interface{}) M {
	if prior == nil {
		prior = []interface{}{}
	}
	sp := M{"data": vInts(data), "target": vFloat(target), "workers": workers, "prior": prior}
	if len(conc) > 2 && conc[2] != nil {
		sp["hashes"] = conc[2]
	}
	if len(conc) > 3 && conc[3] != nil {
		sp["reps"] = conc[3]
	}
	if len(conc) > 0 && conc[0] != nil {
		sp["conc"] = conc[0]
	}
	if len(conc) > 1 && conc[1] != nil {
		sp["cancel_ms"] = conc[1]
	}
	spec, _ := json.Marshal(sp)
	cmd := exec.Command(os.Args[0], "-test.run", "^TestVerifChild$", "-test.count=1")
	cmd.Env = append(os.Environ(), "VERIF_CHILD_IN="+string(spec))
	done := make(chan struct{})
	var outb []byte
	var err error
	go func() { outb, err = cmd.CombinedOutput(); close(done) }()
	select {
	case <-done:
	case <-time.After(90 * time.Second):
		cmd.Process.Kill()
		<-done
		return M{"timeout": true}
	}
	for _, ln := range strings.Split(string(outb), "\n") {
		if strings.HasPrefix(ln, "VERIF-CHILD-RESULT ") {
			var r M
			if json.Unmarshal([]byte(ln[len("VERIF-CHILD-RESULT "):]), &r) == nil {
				r["crashed"] = false
				return r
			}
		}
	}
	msg := ""
	for _, ln := range strings.Split(string(outb), "\n") {
		if strings.HasPrefix(ln, "panic:") || strings.HasPrefix(ln, "fatal error:") {
			msg = ln
			break
		}
	}
	if msg == "" { // no answer and no crash report (the child could not even be started, e.g. an oversized specification): nothing to judge
		fmt.Fprintln(os.Stderr, "verif: pow child gave neither a result nor a crash report:", err, string(outb[:vMinInt(len(outb), 300)]))
		return M{"timeout": true}
	}
	return M{"crashed": true, "ok": false, "err": msg, "nonce": nonce8(0), "score": vFloat(0), "panic": "", "data_intact": true}
}

func TestVerifChild(t *testing.T) {
	in := os.Getenv("VERIF_CHILD_IN")
	if in == "" {
		t.Skip()
	}
	var spec M
	if err := json.Unmarshal([]byte(in), &spec); err != nil {
		panic(err)
	}
	data := vBytes(spec["data"])
	target := vFloatOf(spec["target"])
	// configuration history: the hash function in force when the Worker is made, during the earlier calls, during the call
	hs := []int{0, 0, 0}
	if a, ok := spec["hashes"].([]interface{}); ok && len(a) == 3 {
		hs = []int{vIntOf(a[0]), vIntOf(a[1]), vIntOf(a[2])}
	}
	setHash := func(id int) {
		if id != 0 {
			Hash = crypto.Hash(id)
		}
	}
	setHash(hs[0])
	w := New(vIntOf(spec["workers"]))
	setHash(hs[1])
	// history: earlier calls on the SAME Worker with the SAME data buffer (contents overwritten in place)
	buf := make([]byte, len(data))
	if pr, ok := spec["prior"].([]interface{}); ok {
		for _, x := range pr {
			copy(buf, vBytes(x))
			w.Mine(context.Background(), buf, target)
		}
	}
	copy(buf, data)
	setHash(hs[2])
	ctxMain := context.Background()
	if ms, ok := spec["cancel_ms"].(float64); ok { // the caller's context ends after a while (a timeout)
		var cancelMain context.CancelFunc
		ctxMain, cancelMain = context.WithTimeout(context.Background(), time.Duration(ms*float64(time.Millisecond)))
		defer cancelMain()
	}
	// other Mine calls on the SAME Worker (other data, same target) may run at the same time
	stop := make(chan struct{})
	var bg sync.WaitGroup
	if cc, ok := spec["conc"].([]interface{}); ok && len(cc) > 0 {
		for _, x := range cc {
			other := vBytes(x)
			bg.Add(1)
			go func() {
				defer bg.Done()
				for {
					select {
					case <-stop:
						return
					default:
						w.Mine(context.Background(), other, target)
					}
				}
			}()
		}
	}
	nonce, err := w.Mine(ctxMain, buf, target)
	if spec["conc"] != nil { // repeat while the others are busy; the first call that misses the target is the one reported
		for rep := 0; rep < 40 && err == nil; rep++ {
			m := append(append([]byte{}, data...), vBytes(toIface(nonce8(nonce)))...)
			if Score(m) < target {
				break
			}
			nonce, err = w.Mine(context.Background(), buf, target)
		}
	}
	if rp, ok := spec["reps"].(float64); ok && spec["conc"] == nil {
		// the same call again and again, each under a fresh context of the same kind (already over, or over after a
		// moment): the first call that answers with a nonce below the target is the one reported
		for rep := 0; rep < int(rp); rep++ {
			if err == nil {
				m := append(append([]byte{}, data...), vBytes(toIface(nonce8(nonce)))...)
				if Score(m) < target {
					break
				}
			}
			c2 := context.Background()
			if ms, ok := spec["cancel_ms"].(float64); ok {
				var cf context.CancelFunc
				c2, cf = context.WithTimeout(context.Background(), time.Duration(ms*float64(time.Millisecond)))
				defer cf()
			}
			nonce, err = w.Mine(c2, buf, target)
		}
	}
	close(stop)
	bg.Wait()
	out := M{"ok": err == nil, "err": fmt.Sprint(err), "nonce": nonce8(nonce), "panic": "", "data_intact": string(buf) == string(data)}
	msg := append(append([]byte{}, data...), vBytes(toIface(nonce8(nonce)))...)
	out["score"] = vFloat(Score(msg))
	b, _ := json.Marshal(out)
	fmt.Println("VERIF-CHILD-RESULT " + string(b))
}

func toIface(a []int) interface{} {
	r := make([]interface{}, len(a))
	for i, x := range a {
		r[i] = float64(x)
	}
	return r
}

// White-box access (wb_test.go sets these from init); without them the white-box events are not generated.
var vRequired func(int, float64) uint
var vCheck func(l, h *[consts.HashTrinarySize]uint, n uint) int

func vWBOp(op string) bool { return op == "pow.required" || op == "pow.check" }

func runF(op string, in M) (M, M) {
	switch op {
	case "pow.Score":
		msg := vBytes(in["msg"])
		var s float64
		p := vCatch(func() { s = Score(msg) })
		return M{"score": vFloat(s), "panic": p}, digestFacts(msg[:len(msg)-8])
	case "pow.Mine":
		data := vBytes(in["data"])
		out := mineChild(data, vFloatOf(in["target"]), vIntOf(in["workers"]), in["prior"], in["conc"], in["cancel_ms"], in["hashes"], in["reps"])
		hid := 0
		if a, ok := in["hashes"].([]interface{}); ok && len(a) == 3 {
			hid = vIntOf(a[2])
			if hid == 0 { // the call runs under whatever was configured last
				for _, x := range a {
					if vIntOf(x) != 0 {
						hid = vIntOf(x)
					}
				}
			}
		}
		return out, digestFactsH(hid, data)
	case "pow.required": // white box: the number of zeros Mine will look for
		ln := vIntOf(in["len"])
		target := vFloatOf(in["target"])
		var z uint
		p := vCatch(func() { z = vRequired(ln, target) })
		if z > 243 {
			return M{"z": -1, "s_z": vFloat(0), "panic": p}, M{}
		}
		// the value Score returns for a hash with exactly z trailing zeros (same expression as Score)
		return M{"z": int(z), "s_z": vFloat(math.Pow(consts.TrinaryRadix, float64(z)) / float64(ln)), "panic": p}, M{}
	case "pow.check":
		tz := vIntList(in["tz"])
		n := vIntOf(in["n"])
		r := rand.New(rand.NewSource(int64(vIntOf(in["seed"]))))
		var l, h [consts.HashTrinarySize]uint
		for i := range l {
			l[i], h[i] = ^uint(0), ^uint(0)
		}
		for j := 0; j < 64; j++ {
			for i := 0; i < consts.HashTrinarySize; i++ {
				var t int
				switch {
				case i >= consts.HashTrinarySize-tz[j]:
					t = 0
				case i == consts.HashTrinarySize-tz[j]-1:
					t = []int{-1, 1}[r.Intn(2)]
				default:
					t = r.Intn(3) - 1
				}
				if t > 0 {
					l[i] &^= 1 << uint(j)
				}
				if t < 0 {
					h[i] &^= 1 << uint(j)
				}
			}
		}
		var idx int
		p := vCatch(func() { idx = vCheck(&l, &h, uint(n)) })
		return M{"idx": idx, "panic": p}, M{}
	}
	panic("unknown op " + op)
}

func TestVerifDriver(t *testing.T) {
	rec := vOpen()
	defer rec.close()
	emit := func(op string, in M) {
		if vWBOp(op) && vRequired == nil {
			return
		}
		in = vNorm(in)
		out, facts := runF(op, in)
		if out["timeout"] == true { // Mine did not return: nothing to judge for this property (termination is C13); go on
			return
		}
		rec.i++
		writeEvent(rec, op, in, out, facts)
	}
	if vMode() == "replay" {
		for _, v := range vReadInputs() {
			vForce = v.Mode
			emit(v.Op, v.In)
			vForce = ""
		}
		return
	}
	// decision boundary of the required number of zeros: every message length x power of three x a few ulps around 3^k/len
	if maxK := vEnvInt("VERIF_MAXK", 5); true {
		for ln := 8; ln <= 8+vEnvInt("VERIF_LENS", 130); ln++ {
			for k := 0; k <= maxK+2; k++ {
				t := math.Pow(3, float64(k)) / float64(ln)
				for _, d := range []int{-1, 0, 1, 2} {
					x := t
					for i := 0; i < d; i++ {
						x = math.Nextafter(x, math.Inf(1))
					}
					if d < 0 {
						x = math.Nextafter(x, 0)
					}
					emit("pow.required", M{"len": ln, "target": vFloat(x)})
				}
			}
		}
		for _, x := range []float64{1e-300, math.SmallestNonzeroFloat64, 1e-9, 0.01, 0.04, 0, -1, -1e-9, -1e300} {
			emit("pow.required", M{"len": 8, "target": vFloat(x)})
		}
	}
	r := vRand(11)
	n := vEnvInt("VERIF_N", 24)
	maxK := vEnvInt("VERIF_MAXK", 5)
	// contexts that are over before the call, or a moment into it - many calls each: the cancellation error or a nonce that
	// meets the target for THIS data, whatever the watcher, the workers and the digest computation were doing when it ended
	for i, ms := range []float64{0, 0, 0.01, 0.05, 0.2} {
		data := make([]byte, []int{9, 200, 20000, 19, 3000}[i])
		r.Read(data)
		emit("pow.Mine", M{"data": vInts(data), "target": vFloat(math.Pow(3, 4) / float64(len(data)+8)), "workers": 1 + i%2, "cancel_ms": ms, "reps": 300})
	}
	// the configured hash function (pow.Hash) changes during the life of the process: before the Worker is made, between
	// calls on one Worker, to functions with the same and with shorter digests; Score and Mine follow the variable
	{
		b2, s256, s224, s1, md5id := int(crypto.BLAKE2b_256), int(crypto.SHA256), int(crypto.SHA224), int(crypto.SHA1), int(crypto.MD5)
		for i, hh := range [][]int{{0, 0, s256}, {0, b2, s224}, {s224, s224, s224}, {0, 0, s1}, {s256, s256, b2}, {0, b2, md5id}, {s1, s1, s256}, {s256, 0, 0}} {
			data := make([]byte, 5+3*i)
			r.Read(data)
			p1 := make([]byte, len(data))
			r.Read(p1)
			emit("pow.Mine", M{"data": vInts(data), "target": vFloat(math.Pow(3, float64(3+i%3)) / float64(len(data)+8)), "workers": 1 + i%3,
				"prior": [][]int{vInts(p1)}, "hashes": hh})
		}
	}
	for k := 0; k < n; k++ {
		data := make([]byte, []int{0, 1, 2, 7, 19, 73, 100, 235}[r.Intn(8)])
		r.Read(data)
		ln := float64(len(data) + 8)
		kk := r.Intn(maxK + 1)
		exact := math.Pow(3, float64(kk)) / ln
		var target float64
		switch k % 7 {
		case 0: // exactly 3^k/len
			target = exact
		case 1: // one ulp above
			target = math.Nextafter(exact, math.Inf(1))
		case 2: // one ulp below
			target = math.Nextafter(exact, 0)
		case 3: // trivially low: below 1/len, and far below 1/(3 len)
			target = []float64{0.9 / ln, 0.3 / ln, 0.1 / ln, 1e-9, 1e-300, math.SmallestNonzeroFloat64}[r.Intn(6)]
		case 4: // mid range
			target = exact * (0.4 + 0.6*r.Float64())
		case 5: // integer-valued targets
			target = float64(1 + r.Intn(int(exact)+1))
			if target > exact {
				target = exact
			}
		default:
			target = exact * (1 - 1e-15*float64(r.Intn(10)))
		}
		workers := 1 + (k+int(vSeed()))%16 // every worker count 1..16 over a run
		mineIn := M{"data": vInts(data), "target": vFloat(target), "workers": workers}
		if k%3 == 1 && len(data) > 0 { // the same Worker and buffer mined other contents of the same length before
			p1 := make([]byte, len(data))
			r.Read(p1)
			mineIn["prior"] = [][]int{vInts(p1)}
		}
		emit("pow.Mine", mineIn)
		if k%5 == 0 && len(data) > 0 { // many workers, a target nearly every batch meets (several winners at once), and the
			// same Worker mined other data just before
			p1, p2 := make([]byte, len(data)), make([]byte, len(data))
			r.Read(p1)
			r.Read(p2)
			emit("pow.Mine", M{"data": vInts(data), "target": vFloat(math.Pow(3, float64(1+r.Intn(2))) / float64(len(data)+8)), "workers": 16,
				"prior": [][]int{vInts(p1), vInts(p2)}})
		}
		if k%7 == 3 { // a search that takes long, under a context that ends after a few milliseconds: a nonce or the cancellation error
			emit("pow.Mine", M{"data": vInts(data), "target": vFloat(math.Pow(3, 16) / float64(len(data)+8)), "workers": 1 + k%3, "cancel_ms": 1 + k%4})
		}
		if k%6 == 2 && len(data) > 0 { // the same Worker mines other data at the same time (attainable targets only)
			o1, o2 := make([]byte, len(data)), make([]byte, len(data)+3)
			r.Read(o1)
			r.Read(o2)
			emit("pow.Mine", M{"data": vInts(data), "target": vFloat(target), "workers": 1 + r.Intn(3), "conc": [][]int{vInts(o1), vInts(o2)}})
		}
		if k%8 == 5 { // targets that every nonce meets: zero and negative
			emit("pow.Mine", M{"data": vInts(data), "target": vFloat([]float64{0, -1, -1e-300, -1e300}[r.Intn(4)]), "workers": workers})
		}
		// Score of arbitrary messages
		msg := make([]byte, 8+r.Intn(60))
		r.Read(msg)
		emit("pow.Score", M{"msg": vInts(msg)})
		// lane test on chosen planes
		tz := make([]int, 64)
		nn := r.Intn(12)
		if k%5 == 0 { // the top of the range
			nn = []int{242, 243, 241, 200}[r.Intn(4)]
		}
		for j := range tz {
			tz[j] = r.Intn(nn + 1)
			if r.Intn(3) == 0 && nn > 0 {
				tz[j] = nn - 1
			}
		}
		switch k % 4 {
		case 0:
			tz[63] = nn + r.Intn(3)
		case 1:
			tz[0] = nn
		case 2:
			tz[r.Intn(64)] = 243
		}
		for j := range tz {
			if tz[j] > 243 {
				tz[j] = 243
			}
		}
		emit("pow.check", M{"tz": tz, "n": nn, "seed": r.Intn(1 << 30)})
	}
	// the top of the range, always: n = 241, 242, 243 with no qualifying lane, and with one (first, last, middle)
	for _, nn := range []int{241, 242, 243} {
		for _, at := range []int{-1, 0, 63, 31} {
			tz := make([]int, 64)
			for j := range tz {
				tz[j] = []int{nn - 1, nn - 2, 0, 5}[(j+nn)%4]
			}
			if at >= 0 {
				tz[at] = nn
			}
			emit("pow.check", M{"tz": tz, "n": nn, "seed": r.Intn(1 << 30)})
		}
	}
}
