package pow

import "github.com/iotaledger/iota.go/consts"

// white-box part of the pow driver: the unexported threshold and lane-test functions

func init() {
	vRequired = func(n int, t float64) uint { return requiredTrailingZeros(n, t) }
	vCheck = func(l, h *[consts.HashTrinarySize]uint, n uint) int { return checkStateTrits(l, h, n) }
}
