package v2

import (
	"sync"
	"context"
	"encoding/binary"
	"encoding/json"
	"fmt"
	"math/big"
	"math/rand"
	"os"
	"os/exec"
	"strings"
	"testing"
	"time"

	"github.com/iotaledger/iota.go/consts"
	"github.com/iotaledger/iota.go/curl"
	"github.com/iotaledger/iota.go/encoding/b1t6"
	"github.com/iotaledger/iota.go/trinary"
	"golang.org/x/crypto/blake2b"
)

func nonce8(n uint64) []int {
	var b [8]byte
	binary.LittleEndian.PutUint64(b[:], n)
	return vInts(b[:])
}

func digestFacts(data []byte) M {
	d := blake2b.Sum256(data)
	return M{"data": vInts(data), "digest": vInts(d[:])}
}

// refHash: single-lane Curl-P-81 of the PoW block (iota.go reference; a fact provider audited by TLC)
func refHash(digest []byte, nonce uint64) trinary.Trits {
	buf := make(trinary.Trits, consts.HashTrinarySize)
	n := b1t6.Encode(buf, digest)
	var nb [8]byte
	binary.LittleEndian.PutUint64(nb[:], nonce)
	b1t6.Encode(buf[n:], nb[:])
	c := curl.NewCurlP81()
	if err := c.Absorb(buf); err != nil {
		panic(err)
	}
	d, _ := c.Squeeze(consts.HashTrinarySize)
	return d
}

var pow3_243 = new(big.Int).Exp(big.NewInt(3), big.NewInt(243), nil)

// refInt: the driver's own reading of a hash as an integer (for certificates only; TLC recomputes it)
func refInt(t trinary.Trits) *big.Int {
	v := new(big.Int)
	for i := len(t) - 1; i >= 0; i-- {
		v.Mul(v, big.NewInt(3))
		d := int64(t[i])
		if d == -1 {
			d = 2
		}
		v.Add(v, big.NewInt(d))
	}
	return v.Add(v, big.NewInt(1))
}

func tzOf(t trinary.Trits) int {
	z := 0
	for i := len(t) - 1; i >= 0 && t[i] == 0; i-- {
		z++
	}
	return z
}

func suffOf(lx *big.Int) int {
	s := 0
	v := big.NewInt(1)
	for v.Cmp(lx) < 0 {
		v.Mul(v, big.NewInt(3))
		s++
	}
	return s
}

func mineChild(data []byte, target uint64, workers int, prior interface{}, conc ...interface{}) M {
	if prior == nil {
		prior = []interface{}{}
	}
	sp := M{"data": vInts(data), "target": vLimbsU64(target), "workers": workers, "prior": prior}
	if len(conc) > 0 && conc[0] != nil {
		sp["conc"] = conc[0]
	}
	if len(conc) > 1 && conc[1] != nil {
		sp["cancel_ms"] = conc[1]
	}
	if len(conc) > 2 && conc[2] != nil {
		sp["reps"] = conc[2]
	}
	if len(conc) > 3 && conc[3] != nil {
		sp["sweep"] = conc[3]
	}
	spec, _ := json.Marshal(sp)
	cmd := exec.Command(os.Args[0], "-test.run", "^TestVerifChild$", "-test.count=1")
	cmd.Env = append(os.Environ(), "VERIF_CHILD_IN="+string(spec))
	done := make(chan struct{})
	var outb []byte
	go func() { outb, _ = cmd.CombinedOutput(); close(done) }()
	select {
	case <-done:
	case <-time.After(90 * time.Second):
		cmd.Process.Kill()
		<-done
		return M{"timeout": true}
	}
	for _, ln := range strings.Split(string(outb), "\n") {
		if strings.HasPrefix(ln, "VERIF-CHILD-RESULT ") {
			var r M
			if json.Unmarshal([]byte(ln[len("VERIF-CHILD-RESULT "):]), &r) == nil {
				r["crashed"] = false
				return r
			}
		}
	}
	msg := ""
	for _, ln := range strings.Split(string(outb), "\n") {
		if strings.HasPrefix(ln, "panic:") || strings.HasPrefix(ln, "fatal error:") {
			msg = ln
			break
		}
	}
	return M{"crashed": true, "ok": false, "err": msg, "nonce": nonce8(0), "panic": ""}
}

func TestVerifChild(t *testing.T) {
	in := os.Getenv("VERIF_CHILD_IN")
	if in == "" {
		t.Skip()
	}
	var spec M
	if err := json.Unmarshal([]byte(in), &spec); err != nil {
		panic(err)
	}
	data := vBytes(spec["data"])
	target := vFromLimbs(spec["target"]).Uint64()
	w := New(vIntOf(spec["workers"]))
	// history: the same Worker mined other data (other lengths) for the same target score before
	if pr, ok := spec["prior"].([]interface{}); ok {
		for _, x := range pr {
			w.Mine(context.Background(), vBytes(x), target)
		}
	}
	ctxMain := context.Background()
	if ms, ok := spec["cancel_ms"].(float64); ok { // the caller's context ends after a while (a timeout)
		var cancelMain context.CancelFunc
		ctxMain, cancelMain = context.WithTimeout(context.Background(), time.Duration(ms*float64(time.Millisecond)))
		defer cancelMain()
	}
	// other Mine calls on the SAME Worker (other data, same target score) may run at the same time
	stop := make(chan struct{})
	var bg sync.WaitGroup
	if cc, ok := spec["conc"].([]interface{}); ok && len(cc) > 0 {
		for _, x := range cc {
			other := vBytes(x)
			bg.Add(1)
			go func() {
				defer bg.Done()
				for {
					select {
					case <-stop:
						return
					default:
						w.Mine(context.Background(), other, target)
					}
				}
			}()
		}
	}
	nonce, err := w.Mine(ctxMain, data, target)
	if spec["conc"] != nil { // repeat while the others are busy; the first call that misses the target is the one reported
		for rep := 0; rep < 40 && err == nil; rep++ {
			var nb [8]byte
			binary.LittleEndian.PutUint64(nb[:], nonce)
			if Score(append(append([]byte{}, data...), nb[:]...)) < target {
				break
			}
			nonce, err = w.Mine(context.Background(), data, target)
		}
	}
	meets := func(d []byte, n uint64) bool {
		var nb [8]byte
		binary.LittleEndian.PutUint64(nb[:], n)
		return Score(append(append([]byte{}, d...), nb[:]...)) >= target
	}
	if rp, ok := spec["reps"].(float64); ok && spec["conc"] == nil {
		// the same call again and again, each under a fresh context that ends at a random moment within cancel_ms (also at
		// once): the first call that answers with a nonce below the target is the one reported
		rr := rand.New(rand.NewSource(int64(len(data))*7919 + int64(target)))
		ms, _ := spec["cancel_ms"].(float64)
		for rep := 0; rep < int(rp); rep++ {
			if err == nil && !meets(data, nonce) {
				break
			}
			c2, cf := context.WithTimeout(context.Background(), time.Duration(rr.Float64()*ms*float64(time.Millisecond)))
			nonce, err = w.Mine(c2, data, target)
			cf()
		}
	}
	if sw, ok := spec["sweep"].(float64); ok {
		// many different messages of the same length, one Mine each (no cancellation): the first one answered with a
		// nonce below the target is the one reported (its data replaces the event's data)
		rr := rand.New(rand.NewSource(int64(len(data))*104729 + int64(target)))
		for rep := 0; rep < int(sw); rep++ {
			if err != nil || !meets(data, nonce) {
				break
			}
			data = append([]byte{}, data...)
			rr.Read(data)
			nonce, err = w.Mine(context.Background(), data, target)
		}
	}
	close(stop)
	bg.Wait()
	out := M{"ok": err == nil, "err": fmt.Sprint(err), "nonce": nonce8(nonce), "panic": "", "data_used": vInts(data)}
	b, _ := json.Marshal(out)
	fmt.Println("VERIF-CHILD-RESULT " + string(b))
}

func tritsOut(t trinary.Trits) []int { return vInts8([]int8(t)) }

// buildPlanes puts hashes[j] into lane j of the bit planes
func buildPlanes(hashes []trinary.Trits) (l, h [consts.HashTrinarySize]uint) {
	for i := range l {
		l[i], h[i] = ^uint(0), ^uint(0)
	}
	for j, t := range hashes {
		for i, v := range t {
			if v > 0 {
				l[i] &^= 1 << uint(j)
			}
			if v < 0 {
				h[i] &^= 1 << uint(j)
			}
		}
	}
	return
}

// intToTrits: hash whose integer reading (digit 2 for -1, plus one) is v
func intToTrits(v *big.Int) trinary.Trits {
	x := new(big.Int).Sub(v, big.NewInt(1))
	t := make(trinary.Trits, consts.HashTrinarySize)
	three := big.NewInt(3)
	rem := new(big.Int)
	for i := 0; i < len(t); i++ {
		x.DivMod(x, three, rem)
		d := rem.Int64()
		if d == 2 {
			t[i] = -1
		} else {
			t[i] = int8(d)
		}
	}
	return t
}

func runF(op string, in M) (M, M, M) {
	switch op {
	case "pow2.Score":
		msg := vBytes(in["msg"])
		var s uint64
		p := vCatch(func() { s = Score(msg) })
		f := digestFacts(msg[:len(msg)-8])
		d := blake2b.Sum256(msg[:len(msg)-8])
		hh := refInt(refHash(d[:], binary.LittleEndian.Uint64(msg[len(msg)-8:])))
		dd, r1 := new(big.Int).DivMod(pow3_243, hh, new(big.Int))
		q, r2 := new(big.Int).DivMod(dd, big.NewInt(int64(len(msg))), new(big.Int))
		return M{"score": vLimbsU64(s), "panic": p}, f, M{"d": vLimbs(dd), "r1": vLimbs(r1), "q": vLimbs(q), "r2": vLimbs(r2)}
	case "pow2.Mine":
		data := vBytes(in["data"])
		target := vFromLimbs(in["target"]).Uint64()
		workers := vIntOf(in["workers"])
		out := mineChild(data, target, workers, in["prior"], in["conc"], in["cancel_ms"], in["reps"], in["sweep"])
		if du, ok := out["data_used"]; ok { // a sweep reports the message its answer is about
			if in["sweep"] != nil {
				in["data"] = du
				data = vBytes(du)
			}
			delete(out, "data_used")
		}
		f := digestFacts(data)
		f["blocks"], f["audit"] = []M{}, []M{}
		if out["ok"] == true && workers == 1 && target > 0 {
			d := blake2b.Sum256(data)
			nonce := binary.LittleEndian.Uint64(vBytes(out["nonce"]))
			lx := new(big.Int).Mul(new(big.Int).SetUint64(target), big.NewInt(int64(len(data)+8)))
			s := suffOf(lx)
			nblocks := int(nonce / 64)
			first := 0
			if nblocks > 24 {
				first = nblocks - 24 // only the last 24 earlier blocks are logged (noted in the evidence)
			}
			var blocks, audit []M
			for b := first; b < nblocks; b++ {
				tz := make([]int, 64)
				var cands []M
				for j := 0; j < 64; j++ {
					t := refHash(d[:], uint64(b*64+j))
					tz[j] = tzOf(t)
					if tz[j] >= s-2 {
						cands = append(cands, M{"lane": j, "trits": tritsOut(t)})
						if len(audit) == 0 {
							audit = append(audit, M{"nonce": nonce8(uint64(b*64 + j)), "trits": tritsOut(t)})
						}
					}
				}
				if cands == nil {
					cands = []M{}
				}
				blocks = append(blocks, M{"tz": tz, "cands": cands})
			}
			if blocks != nil {
				f["blocks"] = blocks
			}
			if audit != nil {
				f["audit"] = audit
			}
		}
		return out, f, M{}
	case "pow2.params":
		lx := vFromLimbs(in["lx"])
		// data of length len-8 and target with len*target = lx: the driver passes (len, target) with lx = len*target
		ln, target := vIntOf(in["len"]), vFromLimbs(in["target"]).Uint64()
		data := make([]byte, ln-8)
		var s int
		var th *big.Int
		p := vCatch(func() { s = vSufficient(data, target); th = vTargetHash(data, target) })
		if th == nil {
			th = new(big.Int)
		}
		rem := new(big.Int).Mod(pow3_243, new(big.Int).Add(lx, big.NewInt(1)))
		return M{"s": s, "target": vLimbs(th), "rem": vLimbs(rem), "panic": p}, M{}, M{}
	case "pow2.probe":
		// white box, used by the directed escalation only: the largest target score (same message length) for which
		// sufficientTrailingZeros still gives the value it gives for the target handed in - where an unsound value shows most
		ln, target := vIntOf(in["len"]), vFromLimbs(in["target"]).Uint64()
		data := make([]byte, ln-8)
		hi := target
		p := vCatch(func() {
			s0 := vSufficient(data, target)
			lim := new(big.Int).Exp(big.NewInt(3), big.NewInt(int64(s0+1)), nil)
			lim.Div(lim, big.NewInt(int64(ln)))
			top := target
			if lim.IsUint64() && lim.Uint64() > target {
				top = lim.Uint64()
			}
			lo := target
			for lo < top { // largest t in [target, top] with the same answer (the answer is monotone in t)
				mid := lo + (top-lo+1)/2
				if vSufficient(data, mid) == s0 {
					lo = mid
				} else {
					top = mid - 1
				}
			}
			hi = lo
		})
		return M{"target_hi": vLimbsU64(hi), "panic": p}, M{}, M{}
	case "pow2.check":
		lx := vFromLimbs(in["lx"])
		ln, target := vIntOf(in["len"]), vFromLimbs(in["target"]).Uint64()
		data := make([]byte, ln-8)
		s := suffOf(lx)
		th := new(big.Int).Div(pow3_243, new(big.Int).Add(lx, big.NewInt(1)))
		r := rand.New(rand.NewSource(int64(vIntOf(in["seed"]))))
		spec := in["lanes"].([]interface{})
		hashes := make([]trinary.Trits, 64)
		for j := 0; j < 64; j++ {
			e := spec[j].(map[string]interface{})
			switch e["kind"].(string) {
			case "target": // a hash whose integer is targetHash + delta
				hashes[j] = intToTrits(new(big.Int).Add(th, big.NewInt(int64(vIntOf(e["d"])))))
			default: // exactly s + d trailing zeros, the rest random
				z := s + vIntOf(e["d"])
				if z < 0 {
					z = 0
				}
				t := make(trinary.Trits, consts.HashTrinarySize)
				for i := 0; i < len(t)-z; i++ {
					t[i] = int8(r.Intn(3) - 1)
				}
				if z < len(t) {
					t[len(t)-z-1] = []int8{-1, 1}[r.Intn(2)]
				}
				hashes[j] = t
			}
		}
		l, h := buildPlanes(hashes)
		var idx int
		p := vCatch(func() { idx = vCheck(&l, &h, vSufficient(data, target), vTargetHash(data, target)) })
		tz := make([]int, 64)
		var full []M
		for j := range hashes {
			tz[j] = tzOf(hashes[j])
			if tz[j] >= s-2 {
				full = append(full, M{"lane": j, "trits": tritsOut(hashes[j])})
			}
		}
		if full == nil {
			full = []M{}
		}
		return M{"idx": idx, "tz": tz, "full": full, "panic": p}, M{}, M{}
	}
	panic("unknown op " + op)
}

// White-box access (wb_test.go sets these from init); without them the white-box events are not generated.
var vSufficient func([]byte, uint64) int
var vTargetHash func([]byte, uint64) *big.Int
var vCheck func(l, h *[consts.HashTrinarySize]uint, s int, t *big.Int) int

func vWBOp(op string) bool { return op == "pow2.params" || op == "pow2.check" || op == "pow2.probe" }

func TestVerifDriver(t *testing.T) {
	rec := vOpen()
	defer rec.close()
	emit := func(op string, in M) {
		if vWBOp(op) && vSufficient == nil {
			return
		}
		in = vNorm(in)
		out, facts, cert := runF(op, in)
		if out["timeout"] == true { // Mine did not return: nothing to judge for this property (termination is C13); go on
			return
		}
		rec.i++
		rec.count++
		vPost(out)
		b, err := json.Marshal(map[string]interface{}{"t": rec.t, "i": rec.i, "op": op, "in": in, "out": out, "facts": facts, "cert": cert})
		if err != nil {
			panic(err)
		}
		rec.w.Write(b)
		rec.w.WriteByte('\n')
	}
	if vMode() == "replay" {
		for _, v := range vReadInputs() {
			vForce = v.Mode
			emit(v.Op, v.In)
			vForce = ""
		}
		return
	}
	r := vRand(12)
	n := vEnvInt("VERIF_N", 20)
	maxS := vEnvInt("VERIF_MAXS", 6)
	// small products len * target (few sufficient zeros: the last trits of the target hash matter): many messages per length
	for _, lt := range [][2]int{{1, 1}, {5, 1}, {11, 1}, {19, 1}, {1, 3}, {4, 2}, {17, 1}, {1, 2}, {10, 1}, {2, 8}} {
		data := make([]byte, lt[0])
		r.Read(data)
		emit("pow2.Mine", M{"data": vInts(data), "target": vLimbsU64(uint64(lt[1])), "workers": 1, "sweep": 400})
	}
	// contexts that end at a random moment while a single worker is about to find / has just found a nonce (also before
	// the call): the cancellation error, or a nonce that meets the target
	for i, tg := range []uint64{2, 9, 30, 100} {
		data := make([]byte, 3+5*i)
		r.Read(data)
		emit("pow2.Mine", M{"data": vInts(data), "target": vLimbsU64(tg), "workers": 1 + i%2, "cancel_ms": 0.4, "reps": 1500})
	}
	for k := 0; k < n; k++ {
		data := make([]byte, []int{0, 1, 5, 19, 73, 200}[r.Intn(6)])
		r.Read(data)
		ln := len(data) + 8
		// choose lx around 3^s boundaries and in between, then target = lx / len (rounded)
		s := 2 + r.Intn(maxS-1)
		p3 := uint64(1)
		for i := 0; i < s; i++ {
			p3 *= 3
		}
		var lxw uint64
		switch k % 4 {
		case 0:
			lxw = p3
		case 1:
			lxw = p3 + 1 + uint64(r.Intn(3))
		case 2:
			lxw = p3/3 + 1 + uint64(r.Int63n(int64(p3-p3/3)))
		default:
			lxw = p3 - uint64(r.Intn(3))
		}
		target := lxw / uint64(ln)
		if target == 0 {
			target = 1
		}
		workers := []int{1, 1, 1, 2, 4, 16}[r.Intn(6)]
		mineIn := M{"data": vInts(data), "target": vLimbsU64(target), "workers": workers}
		if k%2 == 1 { // prior calls on the same Worker: a shorter and a longer message, same target
			mineIn["prior"] = [][]int{vInts(make([]byte, len(data)/4)), vInts(make([]byte, 3*len(data)+40))}
		}
		emit("pow2.Mine", mineIn)
		if k%5 == 2 { // a search that takes long, under a context that ends after a few milliseconds: a nonce or the cancellation error
			emit("pow2.Mine", M{"data": vInts(data), "target": vLimbsU64(43046721 / uint64(ln)), "workers": 2 + k%2, "cancel_ms": 1 + k%4})
		}
		if k%4 == 1 { // the same Worker mines other data at the same time
			o1, o2 := make([]byte, len(data)), make([]byte, len(data)+3)
			r.Read(o1)
			r.Read(o2)
			emit("pow2.Mine", M{"data": vInts(data), "target": mineIn["target"], "workers": 2 + r.Intn(3), "conc": [][]int{vInts(o1), vInts(o2)}})
		}
		if k%9 == 0 {
			emit("pow2.Mine", M{"data": vInts(data), "target": []int{}, "workers": 1})
		}
		msg := make([]byte, 8+r.Intn(60))
		r.Read(msg)
		if k%5 == 0 { // a mined message: high score
			msg = append(append([]byte{}, data...), 0, 0, 0, 0, 0, 0, 0, 0)
		}
		emit("pow2.Score", M{"msg": vInts(msg)})
		// lane test: states around the decision boundaries
		tg := uint64(1 + r.Intn(5000))
		if k%3 == 0 {
			// large products: around 3^39, 3^40 (the largest power of three below 2^64) and up to 2^64-1
			const p40 = 12157665459056928801
			base := []uint64{p40/3 - 1, p40 / 3, p40/3 + 1, p40 - 1 - uint64(ln), p40 - uint64(ln), p40, p40 + 1, p40 + 12345678901234567,
				(1<<64 - 1) - 2*uint64(ln), uint64(r.Int63())}[r.Intn(10)]
			tg = base/uint64(ln) + 1
			if tg > (1<<64-1)/uint64(ln) {
				tg = (1<<64 - 1) / uint64(ln)
			}
		}
		lx := new(big.Int).Mul(new(big.Int).SetUint64(tg), big.NewInt(int64(ln)))
		lanes := make([]M, 64)
		for j := range lanes {
			lanes[j] = M{"kind": "tz", "d": -2 - r.Intn(3)}
		}
		place := func(j int, m M) { lanes[j] = m }
		switch k % 8 {
		case 0: // no candidate at all
		case 1: // lane with exactly s zeros at 0 / 63
			place([]int{0, 63}[r.Intn(2)], M{"kind": "tz", "d": 0})
		case 2: // candidates with s-1 zeros only (may or may not qualify)
			for q := 0; q < 3; q++ {
				place(r.Intn(64), M{"kind": "tz", "d": -1})
			}
		case 3: // hash exactly at the target hash, at lane 0 or 63, behind a non-qualifying candidate
			place(r.Intn(62)+1, M{"kind": "target", "d": 1 + r.Intn(3)})
			place([]int{0, 63}[r.Intn(2)], M{"kind": "target", "d": 0})
		case 4: // just above the target hash only
			place([]int{0, 63}[r.Intn(2)], M{"kind": "target", "d": 1})
		case 5: // just below
			place(r.Intn(64), M{"kind": "target", "d": -1 - r.Intn(3)})
		case 6: // all lanes candidates, one qualifies
			for j := range lanes {
				lanes[j] = M{"kind": "target", "d": 1 + r.Intn(1000)}
			}
			place(r.Intn(64), M{"kind": "target", "d": -r.Intn(2)})
		default: // more zeros than sufficient
			place(r.Intn(64), M{"kind": "tz", "d": 1 + r.Intn(4)})
		}
		in := M{"lx": vLimbs(lx), "len": ln, "target": vLimbsU64(tg), "lanes": lanes, "seed": r.Intn(1 << 30)}
		emit("pow2.check", in)
		emit("pow2.params", M{"lx": vLimbs(lx), "len": ln, "target": vLimbsU64(tg)})
	}
	// white box: the thresholds for products just above, at and just below every power of three up to 3^40, and inside
	// each decade (length 9, so that the product is a multiple of 9 near the wanted value)
	p3 := uint64(1)
	for k := 1; k <= 40; k++ {
		p3 *= 3
		for _, want := range []uint64{p3 - 9, p3, p3 + 9, p3 + p3/100 + 9, p3 + p3/2} {
			if want/9 == 0 || want/9 > (1<<64-1)/9 {
				continue
			}
			tg := want / 9
			lx := new(big.Int).Mul(new(big.Int).SetUint64(tg), big.NewInt(9))
			emit("pow2.params", M{"lx": vLimbs(lx), "len": 9, "target": vLimbsU64(tg)})
		}
	}

}
