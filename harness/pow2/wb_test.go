package v2

import (
	"math/big"

	"github.com/iotaledger/iota.go/consts"
)

// white-box part of the pow/v2 driver: the unexported threshold and lane-test functions

func init() {
	vSufficient = func(d []byte, t uint64) int { return sufficientTrailingZeros(d, t) }
	vTargetHash = func(d []byte, t uint64) *big.Int { return targetHash(d, t) }
	vCheck = func(l, h *[consts.HashTrinarySize]uint, s int, t *big.Int) int { return checkStateTrits(l, h, s, t) }
}
