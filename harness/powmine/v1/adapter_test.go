package pow

import (
	"context"
	"crypto"
	_ "crypto/md5"
	_ "crypto/sha1"
	_ "crypto/sha256"
	_ "crypto/sha512"
	"encoding/binary"
	"math"
)

func targetFor(data []byte, mode string) float64 {
	ln := float64(len(data) + 8)
	switch mode {
	case "always": // every lane qualifies
		return 0.5 / ln
	case "never": // 60 trailing zeros: unattainable in a test run
		return math.Pow(3, 60) / ln
	}
	if mode == "slow" { // 8 trailing zeros: some hundred batches
		return math.Pow(3, 8) / ln
	}
	if mode == "tiny" { // 3 trailing zeros
		return math.Pow(3, 3) / ln
	}
	if mode == "slower" {
		return math.Pow(3, 10) / ln
	}
	if mode == "slowest" {
		return math.Pow(3, 12) / ln
	}
	return math.Pow(3, 4) / ln // "either": about one batch in 1.3 finds
}

func mineCall(ctx context.Context, data []byte, mode string, nw int) (uint64, error) {
	if nw == -99 { // no count given
		return New().Mine(ctx, data, targetFor(data, mode))
	}
	return New(nw).Mine(ctx, data, targetFor(data, mode))
}

func mineOn(w *Worker, ctx context.Context, data []byte, mode string) (uint64, error) {
	return w.Mine(ctx, data, targetFor(data, mode))
}

func nonceOK(data []byte, nonce uint64, mode string) bool {
	var nb [8]byte
	binary.LittleEndian.PutUint64(nb[:], nonce)
	return Score(append(append([]byte{}, data...), nb[:]...)) >= targetFor(data, mode)
}

// withAltHash configures another PoW digest function (digests of at most 32 bytes, so that digest and nonce fit one Curl
// block) and returns the function that restores the previous one.
func withAltHash(k int) func() {
	old := Hash
	Hash = []crypto.Hash{crypto.BLAKE2b_256, crypto.SHA224, crypto.SHA1, crypto.MD5, crypto.SHA256, crypto.SHA512_224}[k%6]
	return func() { Hash = old }
}
