package pow

import (
	"context"
	"encoding/binary"
	"math"
)

func targetFor(data []byte, mode string) float64 {
	ln := float64(len(data) + 8)
	switch mode {
	case "always": // every lane qualifies
		return 0.5 / ln
	case "never": // 60 trailing zeros: unattainable in a test run
		return math.Pow(3, 60) / ln
	}
	if mode == "slow" { // 8 trailing zeros: some hundred batches
		return math.Pow(3, 8) / ln
	}
	if mode == "tiny" { // 3 trailing zeros
		return math.Pow(3, 3) / ln
	}
	if mode == "slower" {
		return math.Pow(3, 10) / ln
	}
	if mode == "slowest" {
		return math.Pow(3, 12) / ln
	}
	return math.Pow(3, 4) / ln // "either": about one batch in 1.3 finds
}

func mineCall(ctx context.Context, data []byte, mode string, nw int) (uint64, error) {
	return New(nw).Mine(ctx, data, targetFor(data, mode))
}

func mineOn(w *Worker, ctx context.Context, data []byte, mode string) (uint64, error) {
	return w.Mine(ctx, data, targetFor(data, mode))
}

func nonceOK(data []byte, nonce uint64, mode string) bool {
	var nb [8]byte
	binary.LittleEndian.PutUint64(nb[:], nonce)
	return Score(append(append([]byte{}, data...), nb[:]...)) >= targetFor(data, mode)
}
