package v2

import (
	"context"
	"encoding/binary"
)

func targetFor(data []byte, mode string) uint64 {
	ln := uint64(len(data) + 8)
	switch mode {
	case "always": // l*x <= 3^2: practically every batch holds a qualifying lane
		return 1
	case "never": // l*x about 3^39
		return 4052555153018976267 / ln
	}
	if mode == "slow" {
		return 19683 / ln
	}
	if mode == "tiny" { // l*x about 54: borderline hashes (3 zeros) in almost every batch, about half of them qualify
		return 54 / ln
	}
	if mode == "slower" {
		return 177147 / ln
	}
	if mode == "slowest" {
		return 1594323 / ln
	}
	return 243 / ln * 3 // "either"
}

func mineCall(ctx context.Context, data []byte, mode string, nw int) (uint64, error) {
	if nw == -99 { // no count given
		return New().Mine(ctx, data, targetFor(data, mode))
	}
	return New(nw).Mine(ctx, data, targetFor(data, mode))
}

func mineOn(w *Worker, ctx context.Context, data []byte, mode string) (uint64, error) {
	return w.Mine(ctx, data, targetFor(data, mode))
}

func nonceOK(data []byte, nonce uint64, mode string) bool {
	var nb [8]byte
	binary.LittleEndian.PutUint64(nb[:], nonce)
	return Score(append(append([]byte{}, data...), nb[:]...)) >= targetFor(data, mode)
}

// withAltHash: the digest function of PoW v2 is fixed
func withAltHash(k int) func() { return func() {} }
