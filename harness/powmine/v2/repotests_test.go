package v2

// optional part of the C13 driver: the repository's own tests of Mine, called by name (left out when they are renamed)
func init() {
	vRepoTests = []repoTest{{"TestWorker_Mine", TestWorker_Mine}, {"TestWorker_Mine", TestWorker_Mine}}
}
