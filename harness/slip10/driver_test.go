package slip10_test

import (
	"fmt"
	"crypto/ed25519"
	stdelliptic "crypto/elliptic"
	"crypto/hmac"
	"crypto/sha256"
	"crypto/sha512"
	"encoding/binary"
	"encoding/json"
	"errors"
	"math/big"
	"testing"

	"github.com/wollac/iota-crypto-demo/pkg/slip10"
	"github.com/wollac/iota-crypto-demo/pkg/slip10/eddsa"
	"github.com/wollac/iota-crypto-demo/pkg/slip10/elliptic"
	"golang.org/x/crypto/ripemd160"
)

// ---------------------------------------------------------------- toy plug-in curve
var errPerm = errors.New("verif: permanent curve error")

type toyCurve struct {
	script []string
	wrap   bool
	pos    int
	calls  [][]byte
}

func (c *toyCurve) answer(buf []byte) error {
	c.calls = append(c.calls, append([]byte{}, buf...))
	if c.pos > len(c.script)+3 {
		// the code keeps asking although the curve answered with a permanent error: observed positively, no waiting
		panic("verif: the curve was asked again after a permanent error (retry loop)")
	}
	a := "perm"
	if c.pos < len(c.script) {
		a = c.script[c.pos]
	}
	c.pos++
	switch a {
	case "ok":
		return nil
	case "invalid":
		if c.wrap { // an invalid-key answer may come wrapped (errors.Is still recognises it)
			return fmt.Errorf("toy curve: candidate rejected: %w", slip10.ErrInvalidKey)
		}
		return slip10.ErrInvalidKey
	}
	return errPerm
}

func (c *toyCurve) Name() string    { return "toy" }
func (c *toyCurve) HmacKey() []byte { return []byte("toy seed") }
func (c *toyCurve) NewPrivateKey(buf []byte) (slip10.Key, error) {
	if err := c.answer(buf); err != nil {
		return nil, err
	}
	return &toyKey{k: append([]byte{}, buf...), c: c, priv: true}, nil
}

type toyKey struct {
	k    []byte // 32 bytes
	c    *toyCurve
	priv bool
}

func (t *toyKey) Bytes() []byte {
	if t.priv {
		return append([]byte{}, t.k...)
	}
	return append([]byte{2}, t.k...)
}
func (t *toyKey) IsPrivate() bool    { return t.priv }
func (t *toyKey) Public() slip10.Key { return &toyKey{k: t.k, c: t.c, priv: false} }
func (t *toyKey) Shift(buf []byte) (slip10.Key, error) {
	if err := t.c.answer(buf); err != nil {
		return nil, err
	}
	k := make([]byte, 32)
	for i := range k {
		k[i] = t.k[i] + buf[i]
	}
	return &toyKey{k: k, c: t.c, priv: t.priv}, nil
}

// ---------------------------------------------------------------- facts
func hmacChain(key, data0 []byte, retry func(I []byte) []byte, depth int) []M {
	var out []M
	data := data0
	for j := 0; j < depth; j++ {
		h := hmac.New(sha512.New, key)
		h.Write(data)
		I := h.Sum(nil)
		out = append(out, M{"key": vInts(key), "data": vInts(data), "out": vInts(I)})
		data = retry(I)
	}
	return out
}

func ser32(i uint32) []byte {
	b := make([]byte, 4)
	binary.BigEndian.PutUint32(b, i)
	return b
}

func hash160(b []byte) []byte {
	s := sha256.Sum256(b)
	r := ripemd160.New()
	r.Write(s[:])
	return r.Sum(nil)
}

var (
	sp, _  = new(big.Int).SetString("FFFFFFFFFFFFFFFFFFFFFFFFFFFFFFFFFFFFFFFFFFFFFFFFFFFFFFFEFFFFFC2F", 16)
	sgx, _ = new(big.Int).SetString("79BE667EF9DCBBAC55A06295CE870B07029BFCDB2DCE28D959F2815B16F81798", 16)
	sgy, _ = new(big.Int).SetString("483ADA7726A3C4655DA4FBFC0E1108A8FD17B448A68554199C47D08FFB10D4B8", 16)
)

// independent affine double-and-add on secp256k1 (fact provider for point(k))
func secpPub(k *big.Int) []byte {
	var rx, ry *big.Int
	add := func(x1, y1, x2, y2 *big.Int) (*big.Int, *big.Int) {
		if x1 == nil {
			return x2, y2
		}
		if x2 == nil {
			return x1, y1
		}
		num, den := new(big.Int), new(big.Int)
		if x1.Cmp(x2) == 0 {
			if new(big.Int).Mod(new(big.Int).Add(y1, y2), sp).Sign() == 0 {
				return nil, nil
			}
			num.Mul(x1, x1).Mul(num, big.NewInt(3))
			den.Lsh(y1, 1)
		} else {
			num.Sub(y2, y1)
			den.Sub(x2, x1)
		}
		den.Mod(den, sp)
		l := num.Mul(num, new(big.Int).ModInverse(den, sp))
		l.Mod(l, sp)
		x3 := new(big.Int).Mul(l, l)
		x3.Sub(x3, x1).Sub(x3, x2).Mod(x3, sp)
		y3 := new(big.Int).Sub(x1, x3)
		y3.Mul(y3, l).Sub(y3, y1).Mod(y3, sp)
		return x3, y3
	}
	for i := k.BitLen() - 1; i >= 0; i-- {
		rx, ry = add(rx, ry, rx, ry)
		if k.Bit(i) == 1 {
			rx, ry = add(rx, ry, sgx, sgy)
		}
	}
	if rx == nil {
		return []byte{}
	}
	out := make([]byte, 33)
	out[0] = 2 + byte(ry.Bit(0))
	rx.FillBytes(out[1:])
	return out
}

func refPub(curve string, key []byte) []byte {
	switch curve {
	case "toy":
		return append([]byte{2}, key...)
	case "ed25519":
		pk := ed25519.NewKeyFromSeed(key).Public().(ed25519.PublicKey)
		return append([]byte{0}, pk...)
	case "p256":
		x, y := stdelliptic.P256().ScalarBaseMult(key)
		return stdelliptic.MarshalCompressed(stdelliptic.P256(), x, y)
	}
	return secpPub(new(big.Int).SetBytes(key))
}

func realCurve(name string) slip10.Curve {
	switch name {
	case "secp256k1":
		return elliptic.Secp256k1()
	case "p256":
		return elliptic.Nist256p1()
	}
	return eddsa.Ed25519()
}

func errName(err error) string {
	switch {
	case err == nil:
		return ""
	case errors.Is(err, errPerm):
		return "perm"
	case errors.Is(err, slip10.ErrHardenedChildPublicKey):
		return "hardened-public"
	case errors.Is(err, eddsa.ErrNotHardened):
		return "not-hardened"
	case errors.Is(err, slip10.ErrInvalidKey):
		return "invalid"
	}
	return "other"
}

func callsOut(c *toyCurve) [][]int {
	r := make([][]int, len(c.calls))
	for i, b := range c.calls {
		r[i] = vInts(b)
	}
	return r
}

func extOut(e *slip10.ExtendedKey, err error, p string) M {
	out := M{"ok": err == nil && p == "", "err": errName(err), "panic": p, "key": []int{}, "chain": []int{}, "fp": []int{}, "pub": []int{}, "private": false, "calls": [][]int{}}
	if err == nil && p == "" && (e == nil || e.Key == nil) {
		out["err"] = "nil-key-without-error" // success reported but no key: left as ok=true with empty fields for the specification to judge
		return out
	}
	if err == nil && p == "" && e != nil {
		out["key"], out["chain"], out["fp"] = vInts(e.Key.Bytes()), vInts(e.ChainCode), vInts(e.Fingerprint())
		out["private"] = e.IsPrivate()
		out["pub"] = vInts(e.Key.Public().Bytes())
	}
	return out
}

func scriptOf(in M) []string {
	var s []string
	if a, ok := in["script"].([]interface{}); ok {
		for _, x := range a {
			s = append(s, x.(string))
		}
	}
	return s
}

func runF(op string, in M) (M, M) {
	curve := in["curve"].(string)
	switch op {
	case "slip10.master":
		seed := vBuf("slip10 seed", in["seed"]) // the caller's buffer, reused from call to call with other seeds
		var c slip10.Curve
		tc := &toyCurve{script: scriptOf(in), wrap: in["wrapped"] == true}
		if curve == "toy" {
			c = tc
		} else {
			c = realCurve(curve)
		}
		var e *slip10.ExtendedKey
		var err error
		p := vCatch(func() { e, err = slip10.NewMasterKey(seed, c) })
		out := extOut(e, err, p)
		out["calls"] = callsOut(tc)
		depth := len(tc.script) + 1
		if curve != "toy" {
			depth = 3
		}
		return out, M{"hmac": hmacChain(c.HmacKey(), seed, func(I []byte) []byte { return I }, depth)}
	case "slip10.deep":
		// a plug-in curve that rejects the first `deep` candidates: SLIP-0010 retries until a candidate is valid, however
		// many that takes.  Only the tail of the reference chain is logged; the specification checks its links and the result.
		n := vIntOf(in["deep"])
		tc := &toyCurve{}
		for i := 0; i < n; i++ {
			tc.script = append(tc.script, "invalid")
		}
		tc.script = append(tc.script, "ok")
		seed := vBytes(in["seed"])
		var e *slip10.ExtendedKey
		var err error
		var chainF []M
		var p string
		if in["level"] == "master" {
			p = vCatch(func() { e, err = slip10.NewMasterKey(seed, tc) })
			chainF = hmacChain(tc.HmacKey(), seed, func(I []byte) []byte { return I }, n+1)
		} else {
			cc := append([]byte{}, seed[:32]...)
			parent := &slip10.ExtendedKey{ChainCode: append([]byte{}, cc...), Key: &toyKey{k: append([]byte{}, seed[:32]...), c: tc, priv: true}}
			index := slip10.Hardened + 5
			p = vCatch(func() { e, err = parent.DeriveChild(index) })
			data0 := append(append([]byte{0}, seed[:32]...), ser32(index)...)
			chainF = hmacChain(cc, data0, func(I []byte) []byte { return append(append([]byte{1}, I[32:]...), ser32(index)...) }, n+1)
		}
		out := extOut(e, err, p)
		out["ncalls"] = len(tc.calls)
		out["last_call"] = []int{}
		if len(tc.calls) > 0 {
			out["last_call"] = vInts(tc.calls[len(tc.calls)-1])
		}
		return out, M{"tail": chainF[len(chainF)-3:]}
	case "slip10.child":
		idx := vIntList(in["index"])
		index := uint32(idx[1]) | uint32(idx[0])<<31
		chain := vBytes(in["chain"])
		privBytes := vBytes(in["parent_priv"])
		tc := &toyCurve{script: scriptOf(in), wrap: in["wrapped"] == true}
		var parentKey slip10.Key
		var parentObj *slip10.ExtendedKey
		if in["obj_seed"] != nil && curve != "toy" {
			// the parent is an object produced by the library itself (keys and chain codes may share buffers)
			var opath []uint32
			for _, x := range in["obj_path"].([]interface{}) {
				e := vIntList(x)
				opath = append(opath, uint32(e[1])|uint32(e[0])<<31)
			}
			var err error
			parentObj, err = slip10.DeriveKeyFromPath(vBuf("slip10 seed", in["obj_seed"]), realCurve(curve), opath)
			if err != nil { // every path handed in here is a defined derivation: an answer, reported through the event
				in["parent"] = M{"private": true, "key": []int{}, "chain": []int{}}
				in["parent_priv"], in["chain"] = []int{}, []int{}
				out := extOut(nil, err, "verif: DeriveKeyFromPath failed along a defined path of "+fmt.Sprint(len(opath))+" steps: "+err.Error())
				out["parent_unchanged"] = true
				return out, M{"hmac": []M{}, "parent_pub": M{"of": []int{}, "pub": []int{}}, "fp_of": []int{}, "hash160": []int{}, "child_pub": M{"of": []int{}, "pub": []int{}}}
			}
			privBytes = append([]byte{}, parentObj.Key.Bytes()...)
			chain = append([]byte{}, parentObj.ChainCode...)
			in["parent_priv"], in["chain"] = toIface(privBytes), toIface(chain)
		}
		if curve == "toy" {
			parentKey = &toyKey{k: privBytes, c: tc, priv: true}
		} else {
			k, err := realCurve(curve).NewPrivateKey(privBytes)
			if err != nil {
				panic("verif: bad parent key in input")
			}
			parentKey = k
		}
		usePub := in["pub"] == true
		parPub := refPub(curve, privBytes)
		if usePub {
			parentKey = parentKey.Public()
			in["parent"] = M{"private": false, "key": vInts(parPub), "chain": vInts(chain)}
		} else {
			in["parent"] = M{"private": true, "key": vInts(privBytes), "chain": vInts(chain)}
		}
		parentKeyBytes := privBytes
		if usePub {
			parentKeyBytes = parPub
		}
		parent := &slip10.ExtendedKey{ChainCode: append([]byte{}, chain...), Key: parentKey}
		if parentObj != nil {
			parent = parentObj
			if usePub {
				parent = parentObj.Public()
			}
		}
		// history on the same object: other children derived first must not disturb the parent
		for _, pi := range vIntList(in["prior"]) {
			vCatch(func() { parent.DeriveChild(uint32(pi) | slip10.Hardened) })
			if curve != "ed25519" {
				vCatch(func() { parent.DeriveChild(uint32(pi)) })
			}
			// ... nor must derivations that are refused (a hardened child of the public copy; for ed25519 any child of it):
			// a call that ends in an error leaves nothing behind in the parent or in what the parent shares with its copies
			vCatch(func() { parent.Public().DeriveChild(uint32(pi)) })
			vCatch(func() { parent.Public().DeriveChild(uint32(pi) | slip10.Hardened) })
		}
		if curve == "toy" {
			tc.calls, tc.pos = nil, 0
		}
		var e *slip10.ExtendedKey
		var err error
		p := vCatch(func() { e, err = parent.DeriveChild(index) })
		if curve != "toy" && len(vIntList(in["prior"])) > 0 {
			// ... and children derived afterwards must not disturb this one (it is read only now)
			vCatch(func() { parent.DeriveChild((index ^ 1) | slip10.Hardened) })
			if curve != "ed25519" && !usePub {
				vCatch(func() { parent.DeriveChild((index ^ 1) &^ slip10.Hardened) })
			}
		}
		out := extOut(e, err, p)
		out["parent_unchanged"] = string(parent.ChainCode) == string(chain) && string(parent.Key.Bytes()) == string(parentKeyBytes)
		out["calls"] = callsOut(tc)
		var data0 []byte
		if index >= slip10.Hardened {
			data0 = append(append([]byte{0}, privBytes...), ser32(index)...)
		} else {
			data0 = append(append([]byte{}, parPub...), ser32(index)...)
		}
		depth := len(tc.script) + 1
		if curve != "toy" {
			depth = 3
		}
		facts := M{"hmac": hmacChain(chain, data0, func(I []byte) []byte { return append(append([]byte{1}, I[32:]...), ser32(index)...) }, depth),
			"parent_pub": M{"of": vInts(privBytes), "pub": vInts(parPub)}, "fp_of": vInts(parPub), "hash160": vInts(hash160(parPub)),
			"child_pub": M{"of": []int{}, "pub": []int{}}}
		if out["ok"] == true && e.IsPrivate() {
			kb := e.Key.Bytes()
			facts["child_pub"] = M{"of": vInts(kb), "pub": vInts(refPub(curve, kb))}
		}
		return out, facts
	case "slip10.path":
		seed := vBuf("slip10 seed", in["seed"])
		var path []uint32
		for _, x := range in["path"].([]interface{}) {
			e := vIntList(x)
			path = append(path, uint32(e[1])|uint32(e[0])<<31)
		}
		c := realCurve(curve)
		out := M{"direct_ok": false, "step_ok": false, "direct": []int{}, "step": []int{}}
		out["panic"] = vCatch(func() {
			ser := func(e *slip10.ExtendedKey) []int {
				return vInts(append(append(append(append([]byte{}, e.Key.Bytes()...), e.ChainCode...), e.Fingerprint()...), e.Key.Public().Bytes()...))
			}
			// the buffer held another seed of the same length a moment ago (derived from, then overwritten in place)
			for i := range seed {
				seed[i] ^= 0xff
			}
			slip10.DeriveKeyFromPath(seed, c, path)
			for i := range seed {
				seed[i] ^= 0xff
			}
			d, e1 := slip10.DeriveKeyFromPath(seed, c, path)
			out["direct_ok"] = e1 == nil
			if e1 == nil {
				out["direct"] = ser(d)
			}
			// the same key step by step: master key, then one DeriveChild per index (both judged on their own elsewhere)
			s, e2 := slip10.NewMasterKey(seed, c)
			for _, idx := range path {
				if e2 != nil {
					break
				}
				s, e2 = s.DeriveChild(idx)
			}
			out["step_ok"] = e2 == nil
			if e2 == nil {
				out["step"] = ser(s)
			}
		})
		return out, M{}
	}
	panic("unknown op " + op)
}

func TestVerifDriver(t *testing.T) {
	rec := vOpen()
	defer rec.close()
	emit := func(op string, in M) M {
		in = vNorm(in)
		if op == "slip10.child" && in["parent_priv"] == nil { // generator input: parent = toy master of the seed
			seed := vBytes(in["seed"])
			h := hmac.New(sha512.New, []byte("toy seed"))
			h.Write(seed)
			I := h.Sum(nil)
			in["parent_priv"], in["chain"] = toIface(I[:32]), toIface(I[32:])
		}
		out, facts := runF(op, in)
		in = vNorm(in)
		rec.i++
		rec.count++
		vPost(out)
		b, err := json.Marshal(map[string]interface{}{"t": rec.t, "i": rec.i, "op": op, "in": in, "out": out, "facts": facts})
		if err != nil {
			panic(err)
		}
		rec.w.Write(b)
		rec.w.WriteByte('\n')
		return out
	}
	if vMode() == "replay" {
		for _, v := range vReadInputs() {
			vForce = v.Mode
			emit(v.Op, v.In)
			vForce = ""
		}
		return
	}
	r := vRand(2)
	n := vEnvInt("VERIF_N", 40)
	bound := []uint32{0, 1, 1<<31 - 1, 1 << 31, 1<<31 + 1, 1<<32 - 1}
	for k := 0; k < n; k++ {
		curve := []string{"secp256k1", "p256", "ed25519"}[k%3]
		seed := make([]byte, []int{0, 1, 16, 32, 64, 65, 100, 127, 128, 129, 200, 1000}[(k/3+r.Intn(2))%12])
		r.Read(seed)
		m := emit("slip10.master", M{"curve": curve, "seed": vInts(seed)})
		if m["ok"] != true {
			continue
		}
		key, chain := m["key"], m["chain"]
		depth := 1 + r.Intn(5)
		var path [][]int
		for d := 0; d < depth; d++ {
			var idx uint32
			switch r.Intn(3) {
			case 0:
				idx = bound[r.Intn(len(bound))]
			case 1:
				idx = r.Uint32()
			default:
				idx = uint32(r.Intn(100)) | uint32(r.Intn(2))<<31
			}
			if curve == "ed25519" && r.Intn(4) != 0 {
				idx |= 1 << 31
			}
			pair := []int{int(idx >> 31), int(idx &^ (1 << 31))}
			prior := []int{}
			if r.Intn(2) == 0 {
				prior = []int{r.Intn(1 << 20), 7}[:1+r.Intn(2)]
			}
			c := emit("slip10.child", M{"curve": curve, "parent_priv": key, "chain": chain, "pub": false, "index": pair, "prior": prior})
			if curve != "ed25519" { // also from the public parent (hardened must fail)
				emit("slip10.child", M{"curve": curve, "parent_priv": key, "chain": chain, "pub": true, "index": pair})
			}
			if c["ok"] != true {
				break
			}
			// the same derivation from the library's own parent object, after sibling derivations on that object
			objPath := path
			if objPath == nil {
				objPath = [][]int{}
			}
			emit("slip10.child", M{"curve": curve, "obj_seed": vInts(seed), "obj_path": objPath, "pub": false, "index": pair,
				"prior": []int{r.Intn(1 << 20), 1 + r.Intn(9)}[:1+r.Intn(2)]})
			path = append(path, pair)
			key, chain = c["key"], c["chain"]
		}
		if path == nil {
			path = [][]int{}
		}
		emit("slip10.path", M{"curve": curve, "seed": vInts(seed), "path": path})
	}
	// very many rejected candidates in a row (a curve with a thin key set): the retry goes on until one is valid
	for _, lvl := range []string{"master", "child"} {
		for _, n := range []int{255, 256, 1000, 4095, 4096, 4097, 5000, 70000} {
			seed := make([]byte, 32)
			r.Read(seed)
			emit("slip10.deep", M{"curve": "toy", "level": lvl, "deep": n, "seed": vInts(seed)})
		}
	}
	// long chains: parents 255, 256, 257, 511, 512 steps below the master key (whatever counts levels must not run out
	// or wrap; the fingerprint is that of the parent at every depth), a hardened and - where defined - a normal child of each
	for _, curve := range []string{"secp256k1", "p256", "ed25519"} {
		for _, L := range []int{255, 256, 257, 511, 512} {
			seed := make([]byte, 32)
			r.Read(seed)
			op := make([][]int, L)
			for i := range op {
				op[i] = []int{1, (i * 7) % 1000}
			}
			emit("slip10.child", M{"curve": curve, "obj_seed": vInts(seed), "obj_path": op, "pub": false, "index": []int{1, L}, "prior": []int{}})
			if curve != "ed25519" {
				emit("slip10.child", M{"curve": curve, "obj_seed": vInts(seed), "obj_path": op, "pub": false, "index": []int{0, L}, "prior": []int{3}})
				emit("slip10.child", M{"curve": curve, "obj_seed": vInts(seed), "obj_path": op, "pub": true, "index": []int{0, L}, "prior": []int{}})
			}
			emit("slip10.path", M{"curve": curve, "seed": vInts(seed), "path": append(append([][]int{}, op...), []int{1, 5})})
		}
	}
	// the same curve twice in a row with different seeds of one length (the caller's buffer is the same)
	for _, curve := range []string{"secp256k1", "p256", "ed25519"} {
		for q := 0; q < 3; q++ {
			seed := make([]byte, 32)
			r.Read(seed)
			emit("slip10.path", M{"curve": curve, "seed": vInts(seed), "path": [][]int{{1, q}, {1, 7}}})
		}
	}
	// parents whose public key has a short x coordinate (leading zero byte: one key in 256), found with the driver's own
	// point arithmetic: the serialisation that enters the HMAC and the fingerprint must keep its full width
	for _, curve := range []string{"secp256k1", "p256"} {
		found := 0
		for tries := 0; tries < 4000 && found < 2; tries++ {
			k := make([]byte, 32)
			r.Read(k)
			k[0] &= 0x7f
			if refPub(curve, k)[1] != 0 {
				continue
			}
			found++
			chain := make([]byte, 32)
			r.Read(chain)
			pair := []int{0, r.Intn(1000)}
			emit("slip10.child", M{"curve": curve, "parent_priv": vInts(k), "chain": vInts(chain), "pub": false, "index": pair, "prior": []int{}})
			emit("slip10.child", M{"curve": curve, "parent_priv": vInts(k), "chain": vInts(chain), "pub": true, "index": pair})
		}
	}
}

func toIface(b []byte) interface{} {
	r := make([]interface{}, len(b))
	for i, x := range b {
		r[i] = float64(x)
	}
	return r
}
