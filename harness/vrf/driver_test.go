package vrf

import (
	"fmt"
	"time"
	"sync"
	"bytes"
	"crypto/sha512"
	"encoding/hex"
	"encoding/json"
	"math/big"
	"math/rand"
	"testing"

	"filippo.io/edwards25519"
)

var edL, _ = new(big.Int).SetString("7237005577332262213973186563042994240857116359379907606001950938285454250989", 10)

func leInt(b []byte) *big.Int {
	r := make([]byte, len(b))
	for i := range b {
		r[len(b)-1-i] = b[i]
	}
	return new(big.Int).SetBytes(r)
}

func le32(x *big.Int) []byte {
	b := x.FillBytes(make([]byte, 32))
	for i, j := 0, 31; i < j; i, j = i+1, j-1 {
		b[i], b[j] = b[j], b[i]
	}
	return b
}

func remCert(a *big.Int) M {
	q, r := new(big.Int).DivMod(a, edL, new(big.Int))
	return M{"q": vLimbs(q), "r": vLimbs(r)}
}

func cat(parts ...[]byte) []byte {
	var r []byte
	for _, p := range parts {
		r = append(r, p...)
	}
	return r
}

func sha(parts ...[]byte) []byte {
	d := sha512.Sum512(cat(parts...))
	return d[:]
}

// ---- independent transcription of RFC 9381 (ECVRF-EDWARDS25519-SHA512-TAI) on top of edwards25519 primitives
// string_to_point of RFC 8032: decodable AND canonical (re-encoding gives the same bytes)
func strictPoint(b []byte) *edwards25519.Point {
	p, err := new(edwards25519.Point).SetBytes(b)
	if err != nil || !bytes.Equal(p.Bytes(), b) {
		return nil
	}
	return p
}

type taiTry struct {
	of, digest []byte
	ok         bool
}

func refEncodeToCurve(salt, alpha []byte) (*edwards25519.Point, []taiTry) {
	var tries []taiTry
	for ctr := 0; ctr < 256; ctr++ {
		in := cat([]byte{3, 1}, salt, alpha, []byte{byte(ctr), 0})
		d := sha(in)
		t := taiTry{of: in, digest: d}
		if p := strictPoint(d[:32]); p != nil {
			h := new(edwards25519.Point).MultByCofactor(p)
			if h.Equal(edwards25519.NewIdentityPoint()) != 1 {
				t.ok = true
				tries = append(tries, t)
				return h, tries
			}
		}
		tries = append(tries, t)
	}
	panic("verif: no point found")
}

func refChallenge(y, h []byte, g, u, v *edwards25519.Point) ([]byte, []byte) {
	in := cat([]byte{3, 2}, y, h, g.Bytes(), u.Bytes(), v.Bytes(), []byte{0})
	return sha(in), in
}

func scalarOf(x *big.Int) *edwards25519.Scalar {
	s, err := edwards25519.NewScalar().SetCanonicalBytes(le32(new(big.Int).Mod(x, edL)))
	if err != nil {
		panic(err)
	}
	return s
}

type refOut struct {
	pub, proof, beta []byte
	facts            M
	rounds           int
}

func refProve(seed, alpha []byte) refOut {
	hs := sha(seed)
	x, _ := edwards25519.NewScalar().SetBytesWithClamping(hs[:32])
	Y := new(edwards25519.Point).ScalarBaseMult(x).Bytes()
	H, tries := refEncodeToCurve(Y, alpha)
	hb := H.Bytes()
	G := new(edwards25519.Point).ScalarMult(x, H)
	kd := sha(hs[32:], hb)
	k := new(big.Int).Mod(leInt(kd), edL)
	ks := scalarOf(k)
	kB := new(edwards25519.Point).ScalarBaseMult(ks)
	kH := new(edwards25519.Point).ScalarMult(ks, H)
	cd, cin := refChallenge(Y, hb, G, kB, kH)
	c := leInt(cd[:16])
	cl := append([]byte{}, hs[:32]...)
	cl[0] &= 248
	cl[31] &= 63
	cl[31] |= 64
	sInt := new(big.Int).Add(k, new(big.Int).Mul(c, leInt(cl)))
	s := new(big.Int).Mod(sInt, edL)
	proof := cat(G.Bytes(), cd[:16], le32(s))
	g8 := new(edwards25519.Point).MultByCofactor(G).Bytes()
	bin := cat([]byte{3, 3}, g8, []byte{0})
	beta := sha(bin)
	tai := make([]M, len(tries))
	for i, t := range tries {
		tai[i] = M{"of": vInts(t.of), "digest": vInts(t.digest), "ok": t.ok}
	}
	f := M{"hseed_of": vInts(seed), "hseed": vInts(hs), "tai": tai, "h": vInts(hb), "h_from": vInts(tries[len(tries)-1].digest[:32]),
		"kdigest_of": vInts(cat(hs[32:], hb)), "kdigest": vInts(kd), "kcert": remCert(leInt(kd)),
		"cdigest_of": vInts(cin), "cdigest": vInts(cd), "gamma": vInts(G.Bytes()), "kb": vInts(kB.Bytes()), "kh": vInts(kH.Bytes()),
		"scert": remCert(sInt), "ref_proof": vInts(proof), "gamma8": vInts(g8), "beta_of": vInts(bin), "beta": vInts(beta)}
	return refOut{Y, proof, beta, f, len(tries)}
}

// ---- torsion points and non-canonical encodings
var torsion [8]*edwards25519.Point

func init() {
	b, _ := hex.DecodeString("c7176a703d4dd84fba3c0b760d10670f2a2053fa2c39ccc64ec7fd7792ac037a")
	t8, err := new(edwards25519.Point).SetBytes(b)
	if err != nil {
		panic(err)
	}
	torsion[0] = edwards25519.NewIdentityPoint()
	for i := 1; i < 8; i++ {
		torsion[i] = new(edwards25519.Point).Add(torsion[i-1], t8)
	}
}

func pEnc(first, last byte) []byte {
	b := make([]byte, 32)
	for i := range b {
		b[i] = 0xff
	}
	b[0], b[31] = first, last
	return b
}

// all encodings (canonical and not) of the small-order points the library decodes
func smallOrderEncodings() [][]byte {
	var r [][]byte
	for t := 0; t < 8; t++ {
		r = append(r, torsion[t].Bytes())
	}
	r = append(r, append(append([]byte{1}, make([]byte, 30)...), 0x80), pEnc(0xee, 0x7f), pEnc(0xee, 0xff), pEnc(0xec, 0xff),
		pEnc(0xed, 0x7f), pEnc(0xed, 0xff))
	return r
}

func orderOf(p *edwards25519.Point) int {
	q := edwards25519.NewIdentityPoint()
	for i := 1; i <= 8; i++ {
		q.Add(q, p)
		if q.Equal(edwards25519.NewIdentityPoint()) == 1 {
			return i
		}
	}
	return 0
}

// craftSmallOrder builds a proof (Gamma = identity) that satisfies the verification equation for a small-order key:
// a verifier without key validation / canonical decoding would answer VALID
func craftSmallOrder(ykey []byte, alpha []byte, r *rand.Rand) []byte {
	Y, err := new(edwards25519.Point).SetBytes(ykey)
	if err != nil {
		return nil
	}
	ord := orderOf(Y)
	H, _ := refEncodeToCurve(ykey, alpha)
	G := edwards25519.NewIdentityPoint()
	for tries := 0; tries < 400; tries++ {
		sb := make([]byte, 64)
		r.Read(sb)
		s := new(big.Int).Mod(leInt(sb), edL)
		ss := scalarOf(s)
		g := tries % 8
		U := new(edwards25519.Point).ScalarBaseMult(ss)
		gy := edwards25519.NewIdentityPoint()
		for i := 0; i < g; i++ {
			gy.Add(gy, Y)
		}
		U.Subtract(U, gy)
		V := new(edwards25519.Point).ScalarMult(ss, H)
		cd, _ := refChallenge(ykey, H.Bytes(), G, U, V)
		c := leInt(cd[:16])
		if int(new(big.Int).Mod(c, big.NewInt(int64(ord))).Int64()) == g%ord {
			return cat(G.Bytes(), cd[:16], le32(s))
		}
	}
	return nil
}

// one Proof value is reused for every decoding of a run (UnmarshalBinary and SetBytes alternate): what it
// yields must depend on the last decoded string only
var sharedProof Proof
var sharedTurn int

func decodeOut(pi []byte) M {
	out := M{"decode_ok": false, "reencoded": []int{}, "pth_ok": false, "pth_beta": []int{}, "shared_hash": []int{}}
	var p *Proof
	var err error
	out["decode_panic"] = vCatch(func() {
		sharedTurn++
		buf := append(make([]byte, 0, len(pi)+40), pi...) // the caller's read buffer: decoded from, then used for the next message
		if sharedTurn%4 >= 2 { // U, U, S, S, ...: both decoders meet a value that already decoded and hashed something else
			p, err = sharedProof.SetBytes(buf)
		} else if err = sharedProof.UnmarshalBinary(buf); err == nil {
			p = &sharedProof
		}
		for i := range buf[:cap(buf)] {
			buf[:cap(buf)][i] = 0xA5
		}
	})
	if err == nil && p != nil {
		out["decode_ok"] = true
		out["reencoded"] = vInts(p.Bytes())
		out["shared_hash"] = vInts(p.Hash())
	}
	var b []byte
	var e2 error
	vCatch(func() { b, e2 = ProofToHash(pi) })
	if e2 == nil && b != nil {
		out["pth_ok"], out["pth_beta"] = true, vInts(b)
	}
	return out
}

func runF(op string, in M) (M, M) {
	switch op {
	case "vrf.Prove":
		// seed and alpha live in the caller's buffers, reused from call to call with other contents
		seed, alpha := vBuf("vrf seed", in["seed"]), vBuf("vrf alpha", in["alpha"])
		ref := refProve(append([]byte{}, seed...), append([]byte{}, alpha...))
		out := M{}
		out["panic"] = vCatch(func() {
			priv := NewKeyFromSeed(seed)
			pub := priv.Public().(PublicKey)
			p := Prove(priv, alpha)
			pi := p.Bytes()
			out["priv"], out["pub"], out["proof"] = vInts(priv), vInts(pub), vInts(pi)
			ok, beta := Verify(pub, alpha, pi)
			out["verify_ok"], out["verify_beta"] = ok, vInts(beta)
			vOwnOrKeep("vrf.Verify beta", beta)
			h1 := p.Hash()
			h2 := p.Hash()
			out["proof_hash"], out["proof_hash2"], out["proof_bytes_after_hash"] = vInts(h1), vInts(h2), vInts(p.Bytes())
			d := decodeOut(pi)
			out["decode_ok"], out["reencoded"], out["pth_ok"], out["pth_beta"] = d["decode_ok"], d["reencoded"], d["pth_ok"], d["pth_beta"]
		})
		return out, ref.facts
	case "vrf.Verify":
		pk, alpha, pi := vBytes(in["pk"]), vBytes(in["alpha"]), vBytes(in["pi"])
		var ok, ok2 bool
		var beta, beta2 []byte
		// key, proof and alpha live in ONE buffer with spare capacity behind each part: Verify must not write to its inputs
		buf := make([]byte, 0, len(pk)+len(pi)+len(alpha)+64)
		buf = append(append(append(buf, pk...), pi...), alpha...)
		keep := append([]byte{}, buf...)
		pkS, piS, alS := buf[:len(pk)], buf[len(pk):len(pk)+len(pi)], buf[len(pk)+len(pi):]
		p := vCatch(func() {
			ok, beta = Verify(pkS, alS, piS)
			ok2, beta2 = Verify(pkS, alS, piS)
		})
		out := decodeOut(pi)
		out["inputs_intact"] = bytes.Equal(buf, keep) && bytes.Equal(buf[:cap(buf)][len(keep):], make([]byte, cap(buf)-len(keep)))
		out["second_same"] = ok == ok2 && bytes.Equal(beta, beta2)
		out["ok"], out["beta"], out["panic"], out["pi"] = ok, vInts(beta), p, vInts(pi)
		f := M{"beta": []int{}}
		if b, isb := in["beta"]; isb {
			f["beta"] = b
		}
		return out, f
	case "vrf.par":
		// concurrent Prove / Verify calls on distinct inputs: each answers as it does alone
		rr := rand.New(rand.NewSource(int64(vIntOf(in["seed"]))))
		const K = 8
		type job struct {
			seed, alpha, pi, beta, pub []byte
		}
		jobs := make([]job, K)
		for k := range jobs {
			s, a := make([]byte, 32), make([]byte, 1+rr.Intn(40))
			rr.Read(s)
			rr.Read(a)
			ref := refProve(s, a)
			jobs[k] = job{s, a, ref.proof, ref.beta, ref.pub}
		}
		msg := ""
		p := vCatch(func() {
			var wg sync.WaitGroup
			var mu sync.Mutex
			deadline := time.Now().Add(time.Duration(vEnvInt("VERIF_PAR_MS", 1200)) * time.Millisecond)
			for g := 0; g < K; g++ {
				wg.Add(1)
				go func(j job) {
					defer wg.Done()
					defer func() { // a panic of the code under test in this goroutine is an answer, not the end of the driver
						if r := recover(); r != nil {
							mu.Lock()
							msg = fmt.Sprint("verif: panic in a call made concurrently with other calls: ", r)
							mu.Unlock()
						}
					}()
					for rep := 0; rep < 4 || time.Now().Before(deadline); rep++ {
						pi := Prove(NewKeyFromSeed(j.seed), j.alpha).Bytes()
						ok, beta := Verify(j.pub, j.alpha, j.pi)
						if !bytes.Equal(pi, j.pi) || !ok || !bytes.Equal(beta, j.beta) {
							mu.Lock()
							msg = "verif: a call made concurrently with other calls gave a different answer than alone"
							mu.Unlock()
							return
						}
					}
				}(jobs[g])
			}
			wg.Wait()
		})
		if p == "" {
			p = msg
		}
		return M{"panic": p}, M{}
	case "vrf.Sweep":
		// every alpha length of a range against the independent RFC 9381 transcription (proof bytes, beta, Verify of the
		// reference proof): whatever an implementation does in blocks or buffers changes gear at SOME length
		seed := vBytes(in["seed"])
		msg := ""
		p := vCatch(func() {
			rr := rand.New(rand.NewSource(int64(vIntOf(in["rseed"]))))
			sk := NewKeyFromSeed(seed)
			pk := sk.Public().(PublicKey)
			for l := vIntOf(in["from"]); l <= vIntOf(in["to"]) && msg == ""; l++ {
				alpha := make([]byte, l)
				rr.Read(alpha)
				ref := refProve(seed, alpha)
				pi := Prove(sk, alpha).Bytes()
				if !bytes.Equal(pi, ref.proof) {
					msg = fmt.Sprintf("verif: Prove differs from the RFC 9381 transcription for an alpha of %d bytes", l)
					break
				}
				ok, beta := Verify(pk, alpha, ref.proof)
				if !ok || !bytes.Equal(beta, ref.beta) {
					msg = fmt.Sprintf("verif: Verify rejects the RFC 9381 proof (or outputs another hash) for an alpha of %d bytes", l)
				}
			}
		})
		if p == "" {
			p = msg
		}
		return M{"panic": p}, M{}
	case "vrf.Decode":
		out := decodeOut(vBytes(in["pi"]))
		out["panic"] = out["decode_panic"]
		return out, M{}
	}
	panic("unknown op " + op)
}

func TestVerifDriver(t *testing.T) {
	rec := vOpen()
	defer rec.close()
	emit := func(op string, in M) {
		in = vNorm(in)
		out, facts := runF(op, in)
		rec.i++
		rec.count++
		vPost(out)
		b, err := json.Marshal(map[string]interface{}{"t": rec.t, "i": rec.i, "op": op, "in": in, "out": out, "facts": facts})
		if err != nil {
			panic(err)
		}
		rec.w.Write(b)
		rec.w.WriteByte('\n')
	}
	if vMode() == "replay" {
		for _, v := range vReadInputs() {
			vForce = v.Mode
			emit(v.Op, v.In)
			vForce = ""
		}
		return
	}
	r := vRand(18)
	n := vEnvInt("VERIF_N", 12)
	if vEnvInt("VERIF_PAR_MS", 1200) > 0 {
		defer emit("vrf.par", M{"seed": r.Intn(1 << 30)})
	}
	verify := func(pk, alpha, pi []byte, expect, decodes string, beta []byte) {
		emit("vrf.Verify", M{"pk": vInts(pk), "alpha": vInts(alpha), "pi": vInts(pi), "expect": expect, "decodes": decodes, "beta": vInts(beta)})
	}
	small := smallOrderEncodings()
	{
		sseed := make([]byte, 32)
		r.Read(sseed)
		emit("vrf.Sweep", M{"seed": vInts(sseed), "rseed": r.Intn(1 << 30), "from": 0, "to": 300})
	}
	for k := 0; k < n; k++ {
		seed := make([]byte, 32)
		r.Read(seed)
		alpha := make([]byte, []int{0, 1, 16, 55, 56, 64, 119, 120, 200}[r.Intn(9)])
		r.Read(alpha)
		if k%3 == 0 { // an alpha that needs several try-and-increment rounds
			want := 2 + (k/3)%3
			for tries := 0; tries < 400; tries++ {
				r.Read(alpha)
				if refProve(seed, alpha).rounds >= want {
					break
				}
			}
		}
		emit("vrf.Prove", M{"seed": vInts(seed), "alpha": vInts(alpha)})
		if len(alpha) > 0 { // the same key on another alpha of the same length (the caller's buffer is reused), and the first one again
			a2 := append([]byte{}, alpha...)
			for i := range a2 {
				a2[i] = byte(int(a2[i])*5 + i + 1)
			}
			emit("vrf.Prove", M{"seed": vInts(seed), "alpha": vInts(a2)})
			emit("vrf.Prove", M{"seed": vInts(seed), "alpha": vInts(alpha)})
		}
		ref := refProve(seed, alpha)
		pi := ref.proof
		verify(ref.pub, alpha, pi, "accept", "yes", ref.beta)
		verify(ref.pub, append(append([]byte{}, alpha...), 0), pi, "reject", "yes", nil)
		other := refProve(append([]byte{seed[0] ^ 0x5a}, seed[1:]...), alpha) // another key (never the same seed)
		verify(other.pub, alpha, pi, "reject", "yes", nil)
		// s + L
		sPlus := cat(pi[:48], le32(new(big.Int).Add(leInt(pi[48:]), edL)))
		verify(ref.pub, alpha, sPlus, "reject", "no", nil)
		// Gamma replaced by non-canonical / undecodable strings, Gamma shifted by torsion
		for _, enc := range small[8:] {
			verify(ref.pub, alpha, cat(enc, pi[32:]), "reject", "no", nil)
		}
		G, _ := new(edwards25519.Point).SetBytes(pi[:32])
		verify(ref.pub, alpha, cat(new(edwards25519.Point).Add(G, torsion[1+r.Intn(7)]).Bytes(), pi[32:]), "reject", "yes", nil)
		und := make([]byte, 32)
		for {
			r.Read(und)
			if _, err := new(edwards25519.Point).SetBytes(und); err != nil {
				break
			}
		}
		verify(ref.pub, alpha, cat(und, pi[32:]), "reject", "no", nil)
		// lengths
		verify(ref.pub, alpha, pi[:79], "reject", "no", nil)
		verify(ref.pub, alpha, append(append([]byte{}, pi...), 0), "reject", "no", nil)
		verify(ref.pub, alpha, []byte{}, "reject", "no", nil)
		// bit flips in Gamma, c, s
		stride := vEnvInt("VERIF_BITSTRIDE", 40)
		for bit := k % stride; bit < 640; bit += stride {
			m := append([]byte{}, pi...)
			m[bit/8] ^= 1 << uint(bit%8)
			verify(ref.pub, alpha, m, "reject", "", nil)
		}
		// small-order and non-canonically encoded keys with proofs that satisfy the verification equation
		for i := k % 4; i < len(small); i += 4 {
			if cp := craftSmallOrder(small[i], alpha, r); cp != nil {
				verify(small[i], alpha, cp, "reject", "yes", nil)
			}
		}
		// decoding of arbitrary strings
		for q := 0; q < 6; q++ {
			rb := make([]byte, []int{80, 80, 80, 79, 81, 0}[q])
			r.Read(rb)
			if q == 1 {
				copy(rb, pi[:32])
			}
			emit("vrf.Decode", M{"pi": vInts(rb)})
		}
	}
}
