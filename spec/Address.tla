------------------------------- MODULE Address -------------------------------
(***************************************************************************)
(* Network addresses (pkg/bech32/address) = Bech32 over a version byte and *)
(* a hash; migration addresses (pkg/migration) = "TRANSFER" + b1t6 trytes  *)
(* of (address || first 4 bytes of BLAKE2b-256(address)) + "9".            *)
(* BLAKE2b is not evaluated by TLC: its value on the one argument the      *)
(* specification asks for is supplied as a logged fact (DESIGN.md 2.4).    *)
(***************************************************************************)
EXTENDS Bech32, B1T

NetPrefixes == << <<105,111,116,97>>, <<97,116,111,105>>, <<115,109,114>>, <<114,109,115>> >>   \* iota atoi smr rms
PrefixIndex(h) == IF \E i \in 1..4 : NetPrefixes[i] = h THEN (CHOOSE i \in 1..4 : NetPrefixes[i] = h) - 1 ELSE -1
VersionLen(v) == CASE v = 0 -> 32 [] v = 8 -> 20 [] v = 16 -> 20 [] OTHER -> -1

AddrString(p, v, hash) == Encode(NetPrefixes[p + 1], <<v>> \o hash)

ParseAddr(s) ==
  LET d == Decode(s)
      ok == /\ d.ok /\ PrefixIndex(d.hrp) >= 0 /\ Len(d.data) >= 1
            /\ VersionLen(d.data[1]) = Len(d.data) - 1
  IN [ok |-> ok,
      prefix |-> IF ok THEN PrefixIndex(d.hrp) ELSE -1,
      version |-> IF ok THEN d.data[1] ELSE -1,
      hash |-> IF ok THEN SubSeq(d.data, 2, Len(d.data)) ELSE <<>>]

-----------------------------------------------------------------------------
MigPrefix == <<84,82,65,78,83,70,69,82>>       \* "TRANSFER"
MigSuffix == <<57>>                             \* "9"

\* hash4: first four bytes of BLAKE2b-256(addr) (a fact)
MigEncode(addr, hash4) == MigPrefix \o B6EncodeTrytes(addr \o hash4) \o MigSuffix

\* the 36 bytes carried by a well-formed migration string, or <<>>
MigBody(t) ==
  IF Len(t) = 81 /\ (\A i \in DOMAIN t : IsTryteChar(t[i])) /\ SubSeq(t, 1, 8) = MigPrefix /\ t[81] = 57
  THEN LET d == B6DecodeTrytes(SubSeq(t, 9, 80)) IN IF d.ok THEN d.bytes ELSE <<>>
  ELSE <<>>
MigCandidate(t) == IF MigBody(t) = <<>> THEN <<>> ELSE SubSeq(MigBody(t), 1, 32)
\* factAddr/factHash4: the logged BLAKE2b fact; it must be about the candidate
MigDecode(t, factAddr, factHash4) ==
  LET b == MigBody(t)
      ok == b # <<>> /\ factAddr = SubSeq(b, 1, 32) /\ SubSeq(b, 33, 36) = factHash4
  IN [ok |-> ok, addr |-> IF ok THEN SubSeq(b, 1, 32) ELSE <<>>,
      factMissing |-> b # <<>> /\ factAddr # SubSeq(b, 1, 32)]
=============================================================================
