SPECIFICATION Spec
