------------------------------ MODULE AddressGen ------------------------------
(* Leg G for C19: version/length matrix, unknown prefixes, case variants.     *)
EXTENDS Address, Json
VARIABLE x
Pay(n, k) == [i \in 1..n |-> (i * 7 + k) % 256]
P(str) == [op |-> "address.Parse", in |-> [s |-> str]]
A(p, v, h) == [op |-> "address.Bech32", in |-> [prefix |-> p, version |-> v, hash |-> h]]
Strs ==
  { Encode(NetPrefixes[p], <<v>> \o Pay(n, v)).str : p \in 1..4, v \in {0, 8, 16}, n \in {0, 1, 19, 20, 21, 31, 32, 33, 49, 50} }
  \cup { Encode(NetPrefixes[1], <<v>> \o Pay(n, 3)).str : v \in {0, 8, 16}, n \in 0..50 }
  \cup { Encode(NetPrefixes[3], <<v>> \o Pay(n, 5)).str : v \in 0..255, n \in {20, 32} }
  \cup { Encode(h, <<0>> \o Pay(32, 1)).str : h \in { <<105,111,116>>, <<105,111,116,97,97>>, <<116,111,105,97>>, <<115,109,114,49>>, <<73,79,84,65>>, <<114,109,115>> } }
  \cup { UpperS(Encode(NetPrefixes[p], <<v>> \o Pay(VersionLen(v), 9)).str) : p \in 1..4, v \in {0, 8, 16} }
  \cup { Encode(NetPrefixes[2], <<>>).str, Encode(NetPrefixes[2], <<0>>).str, Encode(NetPrefixes[2], <<8>>).str }
\* payloads whose 5-bit regrouping leaves padding bits: every non-zero padding pattern under a valid checksum
PadStrs == UNION { LET syms == ToBase32(<<v>> \o Pay(n, 2)) last == syms[Len(syms)]
                   IN { Encode5(NetPrefixes[p], [syms EXCEPT ![Len(syms)] = last + d]) : d \in 1..((2 ^ ((5 * Len(syms)) % 8)) - 1) }
                   : p \in {1, 4}, v \in {0, 8, 16}, n \in {20, 32} }
Vectors == SetToSeq({P(t) : t \in (Strs \cup PadStrs) \ {<<>>}})
           \o SetToSeq({A(p, v, Pay(VersionLen(v), k)) : p \in 0..3, v \in {0, 8, 16}, k \in {0, 77, 255}})
ASSUME ndJsonSerialize("gen.ndjson", Vectors)
ASSUME PrintT(<<"VERIF-GEN", Len(Vectors)>>)
Init == x = 0
Next == UNCHANGED x
Spec == Init /\ [][Next]_x
=============================================================================
