SPECIFICATION Spec
INVARIANT RoundTripAndStrict
CHECK_DEADLOCK FALSE
