------------------------------ MODULE AddressMC ------------------------------
(* Leg M for C19 at small payload sizes: parse o print = id and strictness. *)
(* Versions and lengths range over a scaled table (lengths 2 and 1 instead  *)
(* of 32 and 20) so that every (prefix, version byte, payload) is a state.  *)
EXTENDS Address
VARIABLES p, v, payload
vars == <<p, v, payload>>
SVersionLen(x) == CASE x = 0 -> 2 [] x = 8 -> 1 [] x = 16 -> 1 [] OTHER -> -1
SParse(s) ==
  LET d == Decode(s)
      ok == d.ok /\ PrefixIndex(d.hrp) >= 0 /\ Len(d.data) >= 1 /\ SVersionLen(d.data[1]) = Len(d.data) - 1
  IN [ok |-> ok, prefix |-> IF ok THEN PrefixIndex(d.hrp) ELSE -1,
      version |-> IF ok THEN d.data[1] ELSE -1, hash |-> IF ok THEN SubSeq(d.data, 2, Len(d.data)) ELSE <<>>]
Vals == {0, 1, 255}
Init == /\ p \in 0..3 /\ v \in {0, 1, 8, 16, 24, 255}
        /\ payload \in {<<>>} \cup {<<a>> : a \in Vals} \cup {<<a, b>> : a \in Vals, b \in Vals}
                       \cup {<<a, b, c>> : a \in {0}, b \in Vals, c \in Vals}
Next == UNCHANGED vars
Spec == Init /\ [][Next]_vars
RoundTripAndStrict ==
  LET e == AddrString(p, v, payload) r == SParse(e.str)
  IN /\ e.ok
     /\ r.ok <=> SVersionLen(v) = Len(payload)
     /\ r.ok => r.prefix = p /\ r.version = v /\ r.hash = payload
     /\ r.ok => AddrString(r.prefix, r.version, r.hash).str = LowerS(e.str)
     /\ SParse(UpperS(e.str)).ok = r.ok                              \* upper-case spelling accepted alike
     /\ ~SParse(<<120>> \o e.str).ok                                 \* unknown prefix "x" + prefix
\* migration: encode/decode over small symbolic facts is pure b1t6; checked at real size by the trace leg
ASSUME \A a \in {0, 1, 127, 128, 255} :
  LET addr == [i \in 1..32 |-> (a + i) % 256] h4 == <<a, 1, 2, 255>> t == MigEncode(addr, h4)
  IN /\ Len(t) = 81
     /\ MigDecode(t, addr, h4).ok /\ MigDecode(t, addr, h4).addr = addr
     /\ ~MigDecode(t, addr, <<a, 1, 2, 254>>).ok
     /\ ~MigDecode([t EXCEPT ![81] = 65], addr, h4).ok
     /\ ~MigDecode([t EXCEPT ![1] = 65], addr, h4).ok
=============================================================================
