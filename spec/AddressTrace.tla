----------------------------- MODULE AddressTrace -----------------------------
(* Leg T/G for C19.                                                          *)
EXTENDS Address, Json
Trace == ndJsonDeserialize("trace.ndjson")
VARIABLES l, bad
vars == <<l, bad>>

ParseConforms(s, out) ==
  LET r == ParseAddr(s)
  IN /\ out.panic = ""
     /\ out.ok = r.ok
     /\ r.ok => /\ out.prefix = r.prefix /\ out.version = r.version /\ out.hash = r.hash
                /\ out.reenc_ok /\ out.reenc = LowerS(s)

\* string tables of prefixes and versions (growth beyond the listed properties)
VersionNames == << <<0, <<69,100,50,53,53,49,57>> >>, <<8, <<65,108,105,97,115>> >>, <<16, <<78,70,84>> >> >>     \* Ed25519 Alias NFT
VersionByName(n) == IF \E i \in 1..3 : VersionNames[i][2] = n THEN (CHOOSE i \in 1..3 : VersionNames[i][2] = n) ELSE 0
TablesConform(e) ==
  /\ e.out.panic = ""
  /\ LET pi == PrefixIndex(e.in.s) vi == VersionByName(e.in.s)
     IN /\ e.out.prefix_ok = (pi >= 0) /\ (pi >= 0 => e.out.prefix = pi /\ e.out.prefix_str = e.in.s)
        /\ e.out.version_ok = (vi > 0) /\ (vi > 0 => e.out.version = VersionNames[vi][1] /\ e.out.version_str = e.in.s)

Conforms(e) ==
  CASE e.op = "address.Parse" -> ParseConforms(e.in.s, e.out)
    [] e.op = "address.tables" -> TablesConform(e)
    [] e.op = "address.Bech32" ->
         LET x == AddrString(e.in.prefix, e.in.version, e.in.hash)
         IN /\ e.out.panic = "" /\ e.out.ok = x.ok
            /\ x.ok => /\ e.out.str = x.str
                       /\ e.out.parse_ok /\ e.out.parse_prefix = e.in.prefix
                       /\ e.out.parse_version = e.in.version /\ e.out.parse_hash = e.in.hash
    [] e.op = "migration.Encode" ->
         /\ e.out.panic = ""
         /\ e.facts.addr = e.in.addr
         /\ e.out.trytes = MigEncode(e.in.addr, SubSeq(e.facts.hash, 1, 4))
         /\ e.out.dec_ok /\ e.out.dec_addr = e.in.addr
    [] e.op = "migration.Decode" ->
         LET d == MigDecode(e.in.trytes, e.facts.addr, SubSeq(e.facts.hash, 1, 4))
         IN /\ ~d.factMissing                          \* driver must supply the fact the spec asks for
            /\ e.out.panic = ""
            /\ e.out.ok = d.ok
            /\ d.ok => e.out.addr = d.addr
    [] e.op = "migration.par" -> e.out.panic = ""       \* Encode / Decode called concurrently answer as alone (compared in the driver)
    [] OTHER -> FALSE

Init == l = 1 /\ bad = <<>>
Next == /\ l <= Len(Trace)
        /\ l' = l + 1
        /\ bad' = IF Conforms(Trace[l]) THEN bad ELSE Append(bad, l)
Spec == Init /\ [][Next]_vars
Done == (l = Len(Trace) + 1) => PrintT(<<"VERIF-RESULT", Len(Trace), bad>>)
=============================================================================
