SPECIFICATION Spec
CONSTANTS
  Mode = "addr"
INVARIANT Report
CHECK_DEADLOCK FALSE
