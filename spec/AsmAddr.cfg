SPECIFICATION Spec
CONSTANTS
  Mode = "addr"
INVARIANTS NoError RolesAtRoundHead AtReturn
CHECK_DEADLOCK FALSE
