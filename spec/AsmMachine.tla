------------------------------ MODULE AsmMachine ------------------------------
(***************************************************************************)
(* C20, program level: an abstract machine for the instruction forms of    *)
(* pkg/curl/transform_amd64.s.  The instruction list is the constant       *)
(* module AsmProgram, generated from the checked-in file by                *)
(* tools/asm2tla.py at check time.                                         *)
(*                                                                         *)
(* Control flow and addresses of the routine do not depend on data, so two *)
(* runs of the machine cover "all instruction-level paths":                *)
(*  Mode = "addr": the whole routine (81 rounds) with data abstracted to   *)
(*     one opaque value.  Invariants: every memory operand is 8-aligned    *)
(*     and lies inside [0, 729*8) of one of the four buffers; data never   *)
(*     flows into an address, a counter or a flag; at every round the four *)
(*     pointer registers hold the four buffers in the right roles; at RET  *)
(*     the round counter is 0 and every buffer received the expected       *)
(*     number of stores (result in lto/hto).                               *)
(*  Mode = "sym": one round body over SYMBOLIC cells: a load from the      *)
(*     source buffers yields the symbol of that cell, registers hold       *)
(*     expressions, and every store is checked - by truth table over the   *)
(*     16 values of the two source cells it may depend on - to be the      *)
(*     Curl-P round function for the index it writes; every index of both  *)
(*     destination planes is written exactly once.                         *)
(* Together: the routine computes 81 rounds of the definition on every     *)
(* state (lane by lane, since all data instructions are bitwise) and       *)
(* touches nothing outside its four buffers.                               *)
(***************************************************************************)
EXTENDS Integers, Sequences, FiniteSets, TLC, AsmProgram

CONSTANT Mode            \* "addr" | "sym"

N == 729
Rounds == 81
Bufs == {"lto", "hto", "lfrom", "hfrom"}

VARIABLES pc, regs, lt, zf, sf, stores, lset, hset, halted, err
vars == <<pc, regs, lt, zf, sf, stores, lset, hset, halted, err>>

\* values
IntV(n) == [k |-> "int", n |-> n, buf |-> "", e |-> <<>>]
PtrV(b, off) == [k |-> "ptr", n |-> off, buf |-> b, e |-> <<>>]
DataV(x) == [k |-> "data", n |-> 0, buf |-> "", e |-> x]
Undef == [k |-> "undef", n |-> 0, buf |-> "", e |-> <<>>]

Init == /\ pc = 1 /\ regs = [r \in Registers |-> Undef] /\ lt = FALSE /\ zf = FALSE /\ sf = FALSE
        /\ stores = [b \in Bufs |-> 0] /\ lset = {} /\ hset = {} /\ halted = FALSE /\ err = ""

Ins == Program[pc]
\* effective address of a memory operand: base register a, optional index register b (scale 8), displacement imm
AddrOf(i) ==
  LET base == regs[i.a]
      idx == IF i.b = "" THEN IntV(0) ELSE regs[i.b]
  IN IF base.k = "ptr" /\ idx.k = "int" THEN PtrV(base.buf, base.n + 8 * idx.n + i.imm) ELSE Undef
AddrOK(a) == a.k = "ptr" /\ a.buf \in Bufs /\ a.n % 8 = 0 /\ a.n >= 0 /\ a.n <= 8 * (N - 1)

\* which buffers are the source of the current round: the registers loaded from the ARG instructions swap every round
IsFromBuf(b) == IF Mode = "sym" THEN b \in {"lfrom", "hfrom"} ELSE TRUE

Bin(op, x, y) == <<op, x, y>>
Step ==
  LET i == Ins IN
  CASE i.op = "ARG" -> /\ regs' = [regs EXCEPT ![i.c] = PtrV(i.a, 0)] /\ pc' = pc + 1
                       /\ UNCHANGED <<lt, zf, sf, stores, lset, hset, halted, err>>
    [] i.op = "IMM" -> /\ regs' = [regs EXCEPT ![i.c] = IntV(i.imm)] /\ pc' = pc + 1
                       /\ UNCHANGED <<lt, zf, sf, stores, lset, hset, halted, err>>
    [] i.op = "LOAD" ->
         LET a == AddrOf(i)
         IN /\ pc' = pc + 1
            /\ IF ~AddrOK(a) THEN err' = "load outside the buffers or misaligned" /\ UNCHANGED regs
               ELSE IF Mode = "sym" /\ a.buf \notin {"lfrom", "hfrom"} THEN err' = "round body loads from a destination buffer" /\ UNCHANGED regs
               ELSE /\ err' = err
                    /\ regs' = [regs EXCEPT ![i.c] = DataV(IF Mode = "sym" THEN <<(IF a.buf = "lfrom" THEN "L" ELSE "H"), a.n \div 8>> ELSE <<>>)]
            /\ UNCHANGED <<lt, zf, sf, stores, lset, hset, halted>>
    [] i.op = "STORE" ->
         LET a == AddrOf(i) v == regs[i.c]
         IN /\ pc' = pc + 1
            /\ IF ~AddrOK(a) THEN err' = "store outside the buffers or misaligned" /\ UNCHANGED <<stores, lset, hset>>
               ELSE IF v.k \notin {"data", "int"} THEN err' = "address or undefined value stored" /\ UNCHANGED <<stores, lset, hset>>
               ELSE /\ err' = err
                    /\ stores' = [stores EXCEPT ![a.buf] = @ + 1]
                    /\ IF Mode = "sym"
                       THEN /\ lset' = IF a.buf = "lto" THEN lset \cup {a.n \div 8} ELSE lset
                            /\ hset' = IF a.buf = "hto" THEN hset \cup {a.n \div 8} ELSE hset
                       ELSE UNCHANGED <<lset, hset>>
            /\ UNCHANGED <<regs, lt, zf, sf, halted>>
    [] i.op = "MOV" -> /\ regs' = [regs EXCEPT ![i.c] = regs[i.a]] /\ pc' = pc + 1
                       /\ UNCHANGED <<lt, zf, sf, stores, lset, hset, halted, err>>
    [] i.op \in {"XOR", "AND", "OR"} ->
         /\ pc' = pc + 1
         /\ IF i.op = "XOR" /\ i.a = i.c THEN regs' = [regs EXCEPT ![i.c] = IntV(0)] /\ err' = err        \* zero idiom
            ELSE IF regs[i.a].k = "data" /\ regs[i.c].k = "data"
            THEN /\ regs' = [regs EXCEPT ![i.c] = DataV(IF Mode = "sym" THEN Bin(i.op, regs[i.c].e, regs[i.a].e) ELSE <<>>)]
                 /\ err' = err
            ELSE err' = "bitwise operation on an address or counter" /\ UNCHANGED regs
         /\ UNCHANGED <<lt, zf, sf, stores, lset, hset, halted>>
    [] i.op = "NOT" ->
         /\ pc' = pc + 1
         /\ IF regs[i.c].k = "data"
            THEN regs' = [regs EXCEPT ![i.c] = DataV(IF Mode = "sym" THEN <<"NOT", regs[i.c].e>> ELSE <<>>)] /\ err' = err
            ELSE err' = "NOT on an address or counter" /\ UNCHANGED regs
         /\ UNCHANGED <<lt, zf, sf, stores, lset, hset, halted>>
    [] i.op = "ADDI" ->
         /\ pc' = pc + 1
         /\ IF regs[i.c].k = "int" THEN regs' = [regs EXCEPT ![i.c] = IntV(regs[i.c].n + i.imm)] /\ err' = err
            ELSE err' = "arithmetic on a non-counter" /\ UNCHANGED regs
         /\ UNCHANGED <<lt, zf, sf, stores, lset, hset, halted>>
    [] i.op = "DEC" ->
         /\ pc' = pc + 1
         /\ IF regs[i.c].k = "int"
            THEN /\ regs' = [regs EXCEPT ![i.c] = IntV(regs[i.c].n - 1)]
                 /\ zf' = (regs[i.c].n - 1 = 0) /\ sf' = (regs[i.c].n - 1 < 0) /\ err' = err
            ELSE err' = "DEC on a non-counter" /\ UNCHANGED <<regs, zf, sf>>
         /\ UNCHANGED <<lt, stores, lset, hset, halted>>
    [] i.op = "CMPI" ->
         /\ pc' = pc + 1
         /\ IF regs[i.a].k = "int"
            THEN lt' = (regs[i.a].n < i.imm) /\ zf' = (regs[i.a].n = i.imm) /\ sf' = (regs[i.a].n < i.imm) /\ err' = err
            ELSE err' = "comparison of a non-counter" /\ UNCHANGED <<lt, zf, sf>>
         /\ UNCHANGED <<regs, stores, lset, hset, halted>>
    [] i.op = "JL" -> /\ pc' = IF lt THEN LabelAt(i.a) ELSE pc + 1
                      /\ UNCHANGED <<regs, lt, zf, sf, stores, lset, hset, halted, err>>
    [] i.op \in {"JZ", "JGE", "JNS", "JS", "JMP"} ->
         /\ pc' = IF (i.op = "JZ" /\ zf) \/ (i.op = "JGE" /\ ~lt) \/ (i.op = "JNS" /\ ~sf) \/ (i.op = "JS" /\ sf) \/ i.op = "JMP"
                  THEN LabelAt(i.a) ELSE pc + 1
         /\ UNCHANGED <<regs, lt, zf, sf, stores, lset, hset, halted, err>>
    [] i.op = "LEA" -> /\ regs' = [regs EXCEPT ![i.c] = PtrV(i.a, 0)] /\ pc' = pc + 1      \* address of a static symbol: not one of the four buffers
                       /\ UNCHANGED <<lt, zf, sf, stores, lset, hset, halted, err>>
    [] i.op = "JNZ" -> /\ pc' = IF ~zf THEN LabelAt(i.a) ELSE pc + 1
                       /\ UNCHANGED <<regs, lt, zf, sf, stores, lset, hset, halted, err>>
    [] i.op = "XCHG" ->
         IF Mode = "sym" THEN halted' = TRUE /\ UNCHANGED <<pc, regs, lt, zf, sf, stores, lset, hset, err>>     \* one round body is enough
         ELSE /\ regs' = [regs EXCEPT ![i.a] = regs[i.c], ![i.c] = regs[i.a]] /\ pc' = pc + 1
              /\ UNCHANGED <<lt, zf, sf, stores, lset, hset, halted, err>>
    [] i.op = "RET" -> halted' = TRUE /\ UNCHANGED <<pc, regs, lt, zf, sf, stores, lset, hset, err>>
    [] OTHER -> err' = "unknown instruction" /\ UNCHANGED <<pc, regs, lt, zf, sf, stores, lset, hset, halted>>

-----------------------------------------------------------------------------
\* invariants

NoError == err = ""

\* ---- address run
ArgReg(name) == (CHOOSE k \in DOMAIN Program : Program[k].op = "ARG" /\ Program[k].a = name)
RegOfArg(name) == Program[ArgReg(name)].c
CounterReg == Program[CHOOSE k \in DOMAIN Program : Program[k].op = "IMM" /\ Program[k].imm = Rounds].c
\* at the head of every round: the round counter says how many rounds are done, and the four pointer registers hold
\* the four buffers at offset 0, destination and source swapping every round
RolesAtRoundHead ==
  (Mode = "addr" /\ pc = LabelAt("RoundLoop") /\ err = "") =>
     LET done == Rounds - regs[CounterReg].n
         swap == done % 2 = 1
         want(name) == CASE name = "lto" -> IF swap THEN "lfrom" ELSE "lto"
                         [] name = "hto" -> IF swap THEN "hfrom" ELSE "hto"
                         [] name = "lfrom" -> IF swap THEN "lto" ELSE "lfrom"
                         [] name = "hfrom" -> IF swap THEN "hto" ELSE "hfrom"
     IN /\ done \in 0..(Rounds - 1)
        /\ \A name \in Bufs : regs[RegOfArg(name)] = PtrV(want(name), 0)
        /\ stores["lto"] = N * ((done + 1) \div 2) /\ stores["hto"] = N * ((done + 1) \div 2)
        /\ stores["lfrom"] = N * (done \div 2) /\ stores["hfrom"] = N * (done \div 2)
AtReturn ==
  (Mode = "addr" /\ halted) =>
     /\ Program[pc].op = "RET" /\ regs[CounterReg] = IntV(0)
     /\ stores["lto"] = N * 41 /\ stores["hto"] = N * 41 /\ stores["lfrom"] = N * 40 /\ stores["hfrom"] = N * 40   \* odd number of rounds: result in lto/hto

\* ---- symbolic round
P(i) == (364 * i) % N
\* evaluation of an expression under an assignment of the two source cells it may depend on; -1 = depends on another cell
RECURSIVE Eval(_, _)
Eval(x, asg) ==
  CASE x[1] = "L" -> IF x[2] = asg.i1 THEN asg.l1 ELSE IF x[2] = asg.i2 THEN asg.l2 ELSE -1
    [] x[1] = "H" -> IF x[2] = asg.i1 THEN asg.h1 ELSE IF x[2] = asg.i2 THEN asg.h2 ELSE -1
    [] x[1] = "NOT" -> LET v == Eval(x[2], asg) IN IF v = -1 THEN -1 ELSE 1 - v
    [] OTHER -> LET u == Eval(x[2], asg) v == Eval(x[3], asg)
                IN IF u = -1 \/ v = -1 THEN -1
                   ELSE CASE x[1] = "XOR" -> (u + v) % 2 [] x[1] = "AND" -> u * v [] x[1] = "OR" -> IF u + v > 0 THEN 1 ELSE 0
\* the definition: a = from[P(i)], b = from[P(i+1)];  tmp = aL & (aH ^ bL);  l' = ~tmp;  h' = (aL ^ bH) | tmp
WantL(aL, aH, bL, bH) == 1 - (aL * ((aH + bL) % 2))
WantH(aL, aH, bL, bH) == IF ((aL + bH) % 2) + (aL * ((aH + bL) % 2)) > 0 THEN 1 ELSE 0
StoreIsRoundFunction ==
  (Mode = "sym" /\ err = "" /\ ~halted /\ Program[pc].op = "STORE") =>
     LET a == AddrOf(Program[pc]) v == regs[Program[pc].c]
     IN (AddrOK(a) /\ v.k = "data") =>
          /\ a.buf \in {"lto", "hto"}
          /\ LET i == a.n \div 8
             IN \A aL \in {0, 1}, aH \in {0, 1}, bL \in {0, 1}, bH \in {0, 1} :
                  Eval(v.e, [i1 |-> P(i), i2 |-> P(i + 1), l1 |-> aL, h1 |-> aH, l2 |-> bL, h2 |-> bH])
                    = (IF a.buf = "lto" THEN WantL(aL, aH, bL, bH) ELSE WantH(aL, aH, bL, bH))
          /\ (a.buf = "lto" => (a.n \div 8) \notin lset) /\ (a.buf = "hto" => (a.n \div 8) \notin hset)     \* written once
RoundComplete == (Mode = "sym" /\ halted) => lset = 0..(N - 1) /\ hset = 0..(N - 1)

\* ---- the checks as one predicate (see Guarded / Report above)
ChecksHold == RolesAtRoundHead /\ StoreIsRoundFunction
FailedCheck == IF ~RolesAtRoundHead THEN "RolesAtRoundHead: pointer roles / store counts at the head of a round"
               ELSE "StoreIsRoundFunction: a store is not the round function of its index (or writes an index twice)"
FinalChecksHold == AtReturn /\ RoundComplete
FailedFinal == IF ~AtReturn THEN "AtReturn: round counter / store counts at RET" ELSE "RoundComplete: an index of the destination was never written"
\* The checks below are evaluated by the machine itself before every step and recorded in `err`; the run then stops
\* and Report prints the verdict.  (They are not TLC INVARIANTs on purpose: a violated invariant makes TLC reconstruct
\* and print the whole behaviour, 650 000 states for the address run.)
Guarded == IF ~ChecksHold THEN /\ err' = FailedCheck /\ UNCHANGED <<pc, regs, lt, zf, sf, stores, lset, hset, halted>>
           ELSE Step
Next == ~halted /\ err = "" /\ Guarded
Spec == Init /\ [][Next]_vars
\* printed once, when the run has stopped
Report == (halted \/ err # "") => PrintT(<<"VERIF-ASM", IF err = "" /\ FinalChecksHold THEN "ok" ELSE (IF err # "" THEN err ELSE FailedFinal), pc>>)

=============================================================================
