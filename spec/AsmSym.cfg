SPECIFICATION Spec
CONSTANTS
  Mode = "sym"
INVARIANT Report
CHECK_DEADLOCK FALSE
