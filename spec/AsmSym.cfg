SPECIFICATION Spec
CONSTANTS
  Mode = "sym"
INVARIANTS NoError StoreIsRoundFunction RoundComplete
CHECK_DEADLOCK FALSE
