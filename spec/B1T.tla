-------------------------------- MODULE B1T --------------------------------
(***************************************************************************)
(* b1t6 and b1t8: the byte <-> trit codecs (pkg/encoding/b1t6, b1t8).      *)
(*                                                                         *)
(* b1t6: a byte, read as a signed 8-bit value, is written as 6 balanced    *)
(*       ternary digits, least significant first.                          *)
(* b1t8: the 8 bits of a byte, least significant first, as trits 0/1.      *)
(* Tryte form: 3 trits (little endian, value -13..13) -> one character of  *)
(*       "9ABCDEFGHIJKLMNOPQRSTUVWXYZ" (0 -> '9', 1..13 -> A..M,           *)
(*       -13..-1 -> N..Z).                                                 *)
(***************************************************************************)
EXTENDS VLib

Signed(b) == IF b < 128 THEN b ELSE b - 256
Unsigned(v) == IF v < 0 THEN v + 256 ELSE v

\* balanced ternary digits of v, little endian, n digits (v within range)
RECURSIVE BalTrits(_, _)
BalTrits(v, n) ==
  IF n = 0 THEN <<>>
  ELSE LET r == ((v % 3) + 3) % 3            \* 0,1,2
           d == IF r = 2 THEN -1 ELSE r
       IN <<d>> \o BalTrits((v - d) \div 3, n - 1)

\* value of a little-endian balanced trit group
TritsValue(ts) ==
  LET acc[i \in 0..Len(ts)] == IF i = 0 THEN 0 ELSE acc[i-1] + ts[i] * Pow(3, i-1)
  IN acc[Len(ts)]

-----------------------------------------------------------------------------
\* b1t6

B6EncodeByte(b) == BalTrits(Signed(b), 6)
B6Encode(bytes) == FlattenFixed([i \in DOMAIN bytes |-> B6EncodeByte(bytes[i])], 6)

B6IsCodeWord(g) == Len(g) = 6 /\ TritsValue(g) \in -128..127
B6DecodeGroup(g) == Unsigned(TritsValue(g))

\* Declarative result of decoding a trit string:
\*   ok      : whole number of groups, all code words
\*   bytes   : the decoded bytes (if ok)
\*   allowed : the set of <<errorKind, count>> answers the property admits
\*             when not ok ("trits": first invalid complete group;
\*             "length": a remainder exists; both may apply, either answer
\*             is conformant, see DESIGN.md section 3 rule 2)
B6Decode(ts) ==
  LET w == 6
      full == Len(ts) \div w
      grp(i) == SubSeq(ts, (i-1)*w + 1, i*w)
      badIdx == {i \in 1..full : ~B6IsCodeWord(grp(i))}
      firstBad == IF badIdx = {} THEN 0 ELSE CHOOSE i \in badIdx : \A j \in badIdx : i <= j
      rem == Len(ts) % w
      ok == badIdx = {} /\ rem = 0
  IN [ ok |-> ok,
       bytes |-> IF ok THEN [i \in 1..full |-> B6DecodeGroup(grp(i))] ELSE <<>>,
       \* prefix of bytes decodable before the first fault
       prefix |-> [i \in 1..(IF firstBad = 0 THEN full ELSE firstBad - 1) |-> B6DecodeGroup(grp(i))],
       allowed |-> (IF firstBad # 0 THEN {<<"trits", firstBad - 1>>} ELSE {})
                   \cup (IF rem # 0 /\ firstBad = 0 THEN {<<"length", full>>} ELSE {})
                   \cup (IF rem # 0 /\ firstBad # 0 THEN {<<"length", firstBad - 1>>, <<"length", full>>} ELSE {}) ]

-----------------------------------------------------------------------------
\* tryte characters (as ASCII codes)

TryteChar(v) == IF v = 0 THEN 57                  \* '9'
                ELSE IF v > 0 THEN 64 + v         \* 'A'..'M'
                ELSE 64 + 27 + v                  \* -13 -> 'N'(78) .. -1 -> 'Z'(90)
IsTryteChar(c) == c = 57 \/ c \in 65..90
TryteValue(c) == IF c = 57 THEN 0 ELSE IF c <= 77 THEN c - 64 ELSE c - 91

TritsToTrytes(ts) ==          \* Len(ts) a multiple of 3
  [k \in 1..(Len(ts) \div 3) |-> TryteChar(TritsValue(SubSeq(ts, 3*k - 2, 3*k)))]
TrytesToTrits(cs) ==
  FlattenFixed([k \in DOMAIN cs |-> BalTrits(TryteValue(cs[k]), 3)], 3)

B6EncodeTrytes(bytes) == TritsToTrytes(B6Encode(bytes))

\* DecodeTrytes: same acceptance as decoding the trits the trytes stand for
B6DecodeTrytes(cs) ==
  LET d == B6Decode(TrytesToTrits(cs))
  IN [ok |-> d.ok, bytes |-> d.bytes,
      kinds |-> {a[1] : a \in d.allowed}]

-----------------------------------------------------------------------------
\* b1t8

Bit(b, j) == (b \div Pow(2, j)) % 2
B8EncodeByte(b) == [j \in 1..8 |-> Bit(b, j-1)]
B8Encode(bytes) == FlattenFixed([i \in DOMAIN bytes |-> B8EncodeByte(bytes[i])], 8)

B8IsCodeWord(g) == Len(g) = 8 /\ \A j \in 1..8 : g[j] \in {0, 1}
B8DecodeGroup(g) ==
  LET acc[i \in 0..8] == IF i = 0 THEN 0 ELSE acc[i-1] + g[i] * Pow(2, i-1)
  IN acc[8]

B8Decode(ts) ==
  LET w == 8
      full == Len(ts) \div w
      grp(i) == SubSeq(ts, (i-1)*w + 1, i*w)
      badIdx == {i \in 1..full : ~B8IsCodeWord(grp(i))}
      firstBad == IF badIdx = {} THEN 0 ELSE CHOOSE i \in badIdx : \A j \in badIdx : i <= j
      rem == Len(ts) % w
      remBad == \E k \in (full*w + 1)..Len(ts) : ts[k] \notin {0, 1}
      ok == badIdx = {} /\ rem = 0
  IN [ ok |-> ok,
       bytes |-> IF ok THEN [i \in 1..full |-> B8DecodeGroup(grp(i))] ELSE <<>>,
       prefix |-> [i \in 1..(IF firstBad = 0 THEN full ELSE firstBad - 1) |-> B8DecodeGroup(grp(i))],
       allowed |-> (IF firstBad # 0 THEN {<<"trits", firstBad - 1>>} ELSE {})
                   \cup (IF rem # 0 /\ firstBad = 0 THEN {<<"length", full>>} ELSE {})
                   \cup (IF rem # 0 /\ firstBad = 0 /\ remBad THEN {<<"trits", full>>} ELSE {})
                   \cup (IF rem # 0 /\ firstBad # 0 THEN {<<"length", firstBad - 1>>, <<"length", full>>} ELSE {}) ]

=============================================================================
