SPECIFICATION Spec
