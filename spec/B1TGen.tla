------------------------------- MODULE B1TGen -------------------------------
(***************************************************************************)
(* Leg G for C14: TLC writes the complete input tables (every byte, every  *)
(* b1t6 group, every b1t8 group, every tryte pair) plus the multi-group    *)
(* boundary cases; the driver replays them through the real packages and   *)
(* B1TTrace judges the results.                                            *)
(***************************************************************************)
EXTENDS B1T, Json

VARIABLE x

TryteChars == {57} \cup (65..90)

Rec(op, key, v) == [op |-> op, in |-> [k \in {key} |-> v]]


Bytes1 == [b \in 1..256 |-> <<b - 1>>]

\* multi-group cases: a valid group g, an invalid group, remainders of every size
Valid6 == B6EncodeByte(200)
Invalid6 == <<1, 1, 1, 1, 1, 1>>
Multi6 == { Valid6 \o Valid6 \o SubSeq(Invalid6, 1, r) : r \in 0..5 }
          \cup { Valid6 \o Invalid6 \o Valid6 \o SubSeq(Valid6, 1, r) : r \in 0..5 }
          \cup { SubSeq(Valid6, 1, r) : r \in 0..5 }
Valid8 == B8EncodeByte(170)
Invalid8 == <<0, 1, 0, -1, 0, 0, 1, 1>>
Multi8 == { Valid8 \o Valid8 \o SubSeq(Valid8, 1, r) : r \in 0..7 }
          \cup { Valid8 \o SubSeq(Invalid8, 1, r) : r \in 0..7 }
          \cup { Valid8 \o Invalid8 \o Valid8 \o SubSeq(Valid8, 1, r) : r \in 0..7 }
          \cup { Invalid8 \o SubSeq(Invalid8, 1, r) : r \in 0..7 }

Vectors ==
     [i \in 1..256 |-> Rec("b1t6.Encode", "bytes", Bytes1[i])]
  \o [i \in 1..256 |-> Rec("b1t8.Encode", "bytes", Bytes1[i])]
  \o SetToSeq({Rec("b1t6.Decode", "trits", g) : g \in [1..6 -> Trit]})
  \o SetToSeq({Rec("b1t8.Decode", "trits", g) : g \in [1..8 -> Trit]})
  \o SetToSeq({Rec("b1t6.DecodeTrytes", "trytes", g) : g \in [1..2 -> TryteChars]})
  \o SetToSeq({Rec("b1t6.Decode", "trits", g) : g \in Multi6})
  \o SetToSeq({Rec("b1t8.Decode", "trits", g) : g \in Multi8})
  \o <<Rec("b1t6.Encode", "bytes", [i \in 1..256 |-> i - 1]),
       Rec("b1t8.Encode", "bytes", [i \in 1..256 |-> i - 1]),
       Rec("b1t6.Encode", "bytes", <<>>), Rec("b1t8.Encode", "bytes", <<>>),
       Rec("b1t6.DecodeTrytes", "trytes", <<>>), Rec("b1t6.DecodeTrytes", "trytes", <<65>>)>>

ASSUME ndJsonSerialize("gen.ndjson", Vectors)
ASSUME PrintT(<<"VERIF-GEN", Len(Vectors)>>)

Init == x = 0
Next == UNCHANGED x
Spec == Init /\ [][Next]_x
=============================================================================
