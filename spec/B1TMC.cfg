SPECIFICATION Spec
CONSTANTS
  MaxLen6 = 9
  MaxLen8 = 9
INVARIANTS ByteInv G6Inv G8Inv SeqInv
CHECK_DEADLOCK FALSE
