------------------------------- MODULE B1TMC -------------------------------
(***************************************************************************)
(* Leg M for C14.  Two exhaustive models:                                  *)
(*  (a) kind = "byte"/"g6"/"g8": every byte, every one of the 729 b1t6     *)
(*      groups and every one of the 6561 b1t8 groups is an initial state   *)
(*      (complete at real size);                                           *)
(*  (b) kind = "seq6"/"seq8": trit strings grown one trit at a time up to  *)
(*      MaxLen6 / MaxLen8; the implementation-shaped staged decoders are   *)
(*      compared with the declarative definition in every state.           *)
(***************************************************************************)
EXTENDS B1T

CONSTANTS MaxLen6, MaxLen8

VARIABLES kind, val
vars == <<kind, val>>

AllGroups(w) == [1..w -> Trit]
\* code-word tables, evaluated once by TLC
B6Table == [b \in Byte |-> B6EncodeByte(b)]
B8Table == [b \in Byte |-> B8EncodeByte(b)]
B6CodeSet == {B6Table[b] : b \in Byte}
B8CodeSet == {B8Table[b] : b \in Byte}

Init == \/ kind = "byte" /\ val \in Byte
        \/ kind = "g6"   /\ val \in AllGroups(6)
        \/ kind = "g8"   /\ val \in AllGroups(8)
        \/ kind = "seq6" /\ val = <<>>
        \/ kind = "seq8" /\ val = <<>>

Next == /\ kind \in {"seq6", "seq8"}
        /\ Len(val) < (IF kind = "seq6" THEN MaxLen6 ELSE MaxLen8)
        /\ \E t \in Trit : val' = Append(val, t)
        /\ UNCHANGED kind

Spec == Init /\ [][Next]_vars

-----------------------------------------------------------------------------
\* Implementation-shaped decoders (what the Go loops do), returning
\* <<ok, errorKind, count, bytes>>.

RECURSIVE Staged6(_, _, _)
Staged6(ts, j, acc) ==          \* j = 0-based offset
  IF j <= Len(ts) - 6
  THEN LET g == SubSeq(ts, j+1, j+6)
       IN IF TritsValue(g) < -128 \/ TritsValue(g) > 127
          THEN <<FALSE, "trits", Len(acc), acc>>
          ELSE Staged6(ts, j + 6, Append(acc, Unsigned(TritsValue(g))))
  ELSE IF Len(ts) % 6 # 0 THEN <<FALSE, "length", Len(acc), acc>>
       ELSE <<TRUE, "", Len(acc), acc>>

RECURSIVE Staged8(_, _)
Staged8(ts, acc) ==
  IF Len(ts) >= 8
  THEN LET g == SubSeq(ts, 1, 8)
       IN IF \E j \in 1..8 : g[j] \notin {0,1}
          THEN <<FALSE, "trits", Len(acc), acc>>
          ELSE Staged8(SubSeq(ts, 9, Len(ts)), Append(acc, B8DecodeGroup(g)))
  ELSE IF Len(ts) > 0
       THEN IF \E j \in DOMAIN ts : ts[j] \notin {0,1}
            THEN <<FALSE, "trits", Len(acc), acc>>
            ELSE <<FALSE, "length", Len(acc), acc>>
       ELSE <<TRUE, "", Len(acc), acc>>

StagedAgrees(st, d) ==
  /\ st[1] = d.ok
  /\ d.ok => st[4] = d.bytes /\ st[3] = Len(d.bytes)
  /\ ~d.ok => <<st[2], st[3]>> \in d.allowed /\ d.allowed # {}

-----------------------------------------------------------------------------
ByteInv ==
  kind = "byte" =>
    LET b == val
        e6 == B6EncodeByte(b)
        e8 == B8EncodeByte(b)
    IN /\ B6IsCodeWord(e6) /\ B8IsCodeWord(e8)
       /\ TritsValue(e6) = Signed(b)
       /\ B6Decode(e6).ok /\ B6Decode(e6).bytes = <<b>>
       /\ B8Decode(e8).ok /\ B8Decode(e8).bytes = <<b>>
       /\ TrytesToTrits(B6EncodeTrytes(<<b>>)) = e6
       /\ \A c \in RangeOf(B6EncodeTrytes(<<b>>)) : IsTryteChar(c)
       /\ B6DecodeTrytes(B6EncodeTrytes(<<b>>)).ok
       /\ B6DecodeTrytes(B6EncodeTrytes(<<b>>)).bytes = <<b>>

G6Inv ==
  kind = "g6" =>
    LET d == B6Decode(val)
    IN /\ d.ok <=> val \in B6CodeSet
       /\ d.ok => B6Encode(d.bytes) = val
       /\ ~d.ok => d.allowed = {<<"trits", 0>>}
       /\ StagedAgrees(Staged6(val, 0, <<>>), d)

G8Inv ==
  kind = "g8" =>
    LET d == B8Decode(val)
    IN /\ d.ok <=> val \in B8CodeSet
       /\ d.ok => B8Encode(d.bytes) = val
       /\ ~d.ok => d.allowed = {<<"trits", 0>>}
       /\ StagedAgrees(Staged8(val, <<>>), d)

SeqInv ==
  /\ kind = "seq6" => StagedAgrees(Staged6(val, 0, <<>>), B6Decode(val))
                      /\ (B6Decode(val).ok => B6Encode(B6Decode(val).bytes) = val)
  /\ kind = "seq8" => StagedAgrees(Staged8(val, <<>>), B8Decode(val))
                      /\ (B8Decode(val).ok => B8Encode(B8Decode(val).bytes) = val)

\* exactly 256 code words each
ASSUME Cardinality(B6CodeSet) = 256 /\ Cardinality({g \in AllGroups(6) : B6IsCodeWord(g)}) = 256
ASSUME Cardinality(B8CodeSet) = 256 /\ Cardinality({g \in AllGroups(8) : B8IsCodeWord(g)}) = 256
=============================================================================
