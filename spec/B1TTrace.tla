------------------------------ MODULE B1TTrace ------------------------------
(***************************************************************************)
(* Leg T for C14: every recorded call of the real b1t6/b1t8 packages is    *)
(* judged by the definitions of module B1T.                                *)
(***************************************************************************)
EXTENDS B1T, Json

Trace == ndJsonDeserialize("trace.ndjson")

VARIABLES l, bad
vars == <<l, bad>>

DecodeConforms(d, out) ==
  /\ out.panic = ""
  /\ out.ok = d.ok
  /\ d.ok => out.bytes = d.bytes /\ out.n = Len(d.bytes) /\ out.err = ""
  /\ ~d.ok => /\ <<out.err, out.n>> \in d.allowed
              /\ out.n <= Len(d.prefix) => out.bytes = SubSeq(d.prefix, 1, out.n)

Conforms(e) ==
  CASE e.op = "b1t6.Encode" ->
         /\ e.out.panic = "" /\ e.out.unmodified
         /\ e.out.trits = B6Encode(e.in.bytes)
         /\ e.out.n = 6 * Len(e.in.bytes) /\ e.out.enclen = 6 * Len(e.in.bytes)
         /\ e.out.trytes = B6EncodeTrytes(e.in.bytes)
    [] e.op = "b1t6.Decode" -> DecodeConforms(B6Decode(e.in.trits), e.out)
    [] e.op = "b1t6.DecodeTrytes" ->
         LET d == B6DecodeTrytes(e.in.trytes)
         IN /\ e.out.panic = ""
            /\ e.out.ok = d.ok
            /\ d.ok => e.out.bytes = d.bytes
            /\ ~d.ok => e.out.err \in d.kinds
    [] e.op = "b1t8.Encode" ->
         /\ e.out.panic = "" /\ e.out.unmodified
         /\ e.out.trits = B8Encode(e.in.bytes)
         /\ e.out.n = 8 * Len(e.in.bytes) /\ e.out.enclen = 8 * Len(e.in.bytes)
    [] e.op = "b1t8.Decode" -> DecodeConforms(B8Decode(e.in.trits), e.out)
    [] OTHER -> FALSE

Init == l = 1 /\ bad = <<>>
Next == /\ l <= Len(Trace)
        /\ l' = l + 1
        /\ bad' = IF Conforms(Trace[l]) THEN bad ELSE Append(bad, l)
Spec == Init /\ [][Next]_vars

Done == (l = Len(Trace) + 1) => PrintT(<<"VERIF-RESULT", Len(Trace), bad>>)
=============================================================================
