SPECIFICATION Spec
CONSTANTS
  W = 89
VIEW Syndrome
CHECK_DEADLOCK FALSE
