----------------------------- MODULE BchDistance -----------------------------
(***************************************************************************)
(* C16, design level: the Bech32 checksum detects every error that changes *)
(* at most four characters.                                                *)
(*                                                                         *)
(* The polymod is affine over GF(2): polymod(v (+) e) = polymod(v) (+) L(e)*)
(* where L is the polymod started from 0.  Substituting data characters,   *)
(* or HRP letters by letters of the same case / digits by digits, changes  *)
(* only the low five bits of symbols inside the window "HRP low parts +    *)
(* data part", which has at most W = 89 positions at the end of the value  *)
(* sequence.  An undetected error of weight 1..4 exists iff two different  *)
(* error patterns of weight <= 2 have the same syndrome (split the error). *)
(* So it suffices that ALL patterns of weight 0, 1 and 2 in the window     *)
(* have pairwise distinct syndromes.                                       *)
(*                                                                         *)
(* TLC decides this by counting: every pattern is an initial state, the    *)
(* VIEW of a state is its syndrome, hence                                  *)
(*      distinct states = number of distinct syndromes                     *)
(* and the check (tools/checks/c16.py) requires distinct = generated =     *)
(* 1 + 31 W + 31^2 W (W-1) / 2.                                            *)
(***************************************************************************)
EXTENDS Bech32

CONSTANT W

L(vals) == FoldLeft(PolymodStep, 0, vals)

\* Basis[j][a]: syndrome of the error value a at the j-th position from the end
Basis == [j \in 1..W |-> [a \in 1..31 |-> L(<<a>> \o [k \in 1..(j-1) |-> 0])]]

VARIABLE p            \* <<>>, <<j, a>> or <<j1, a1, j2, a2>> with j1 < j2

Init == \/ p = <<>>
        \/ \E j \in 1..W, a \in 1..31 : p = <<j, a>>
        \/ \E j1 \in 1..W, j2 \in 1..W, a1 \in 1..31, a2 \in 1..31 :
              j1 < j2 /\ p = <<j1, a1, j2, a2>>
Next == UNCHANGED p
Spec == Init /\ [][Next]_p

Syndrome == IF Len(p) = 0 THEN 0
            ELSE IF Len(p) = 2 THEN Basis[p[1]][p[2]]
            ELSE Basis[p[1]][p[2]] ^^ Basis[p[3]][p[4]]

Expected == 1 + 31 * W + ((31 * 31 * W * (W - 1)) \div 2)
ASSUME PrintT(<<"VERIF-EXPECTED", Expected>>)

\* linearity of the step function on the basis (sanity of the reduction)
ASSUME \A a \in {1, 7, 31}, b \in {2, 16} :
         L(<<a ^^ b, 0, 0, 0, 0, 0, 0, 0>>) = L(<<a, 0, 0, 0, 0, 0, 0, 0>>) ^^ L(<<b, 0, 0, 0, 0, 0, 0, 0>>)
=============================================================================
