------------------------------- MODULE Bech32 -------------------------------
(***************************************************************************)
(* BIP-173 Bech32 (pkg/bech32): strings are sequences of byte values       *)
(* (Go strings are byte strings; bytes >= 128 and invalid UTF-8 included). *)
(*                                                                         *)
(*   Valid(s)      the declarative BIP-173 validity the property states    *)
(*   Decode(s)     [ok, hrp, data] for every byte string                   *)
(*   Encode(h, d)  [ok, str] for every hrp byte string and data bytes      *)
(*   Staged(s)     the decoder as the code stages it (length, separator,   *)
(*                 hrp characters, case, charset, checksum, regrouping),   *)
(*                 with the stage that rejects; compared with Decode on    *)
(*                 the exhaustive model (Bech32MC), never used as oracle   *)
(***************************************************************************)
EXTENDS VLib, Bitwise

MaxLen == 90
Sep == 49                        \* '1'
\* "qpzry9x8gf2tvdw0s3jn54khce6mua7l"
Charset == <<113,112,122,114,121,57,120,56,103,102,50,116,118,100,119,48,
             115,51,106,110,53,52,107,104,99,101,54,109,117,97,55,108>>
DecMap == [c \in 0..255 |-> IF \E i \in 1..32 : Charset[i] = c
                            THEN (CHOOSE i \in 1..32 : Charset[i] = c) - 1 ELSE -1]
GenK == <<996825010, 642813549, 513874426, 1027748829, 705979059>>

IsUpper(c) == c \in 65..90
IsLower(c) == c \in 97..122
ToLowerC(c) == IF IsUpper(c) THEN c + 32 ELSE c
ToUpperC(c) == IF IsLower(c) THEN c - 32 ELSE c
LowerS(s) == [i \in DOMAIN s |-> ToLowerC(s[i])]
UpperS(s) == [i \in DOMAIN s |-> ToUpperC(s[i])]
IsHrpChar(c) == c \in 33..126

-----------------------------------------------------------------------------
\* checksum

PolymodStep(chk, v) ==
  LET b == chk \div 33554432                         \* chk >> 25
      c0 == ((chk % 33554432) * 32) ^^ v
      c1 == IF b % 2 = 1 THEN c0 ^^ GenK[1] ELSE c0
      c2 == IF (b \div 2) % 2 = 1 THEN c1 ^^ GenK[2] ELSE c1
      c3 == IF (b \div 4) % 2 = 1 THEN c2 ^^ GenK[3] ELSE c2
      c4 == IF (b \div 8) % 2 = 1 THEN c3 ^^ GenK[4] ELSE c3
      c5 == IF (b \div 16) % 2 = 1 THEN c4 ^^ GenK[5] ELSE c4
  IN c5

Polymod(values) == FoldLeft(PolymodStep, 1, values)

HrpExpand(h) == [i \in DOMAIN h |-> h[i] \div 32] \o <<0>> \o [i \in DOMAIN h |-> h[i] % 32]

ChecksumOK(hrpLower, syms) == Polymod(HrpExpand(hrpLower) \o syms) = 1

CreateChecksum(hrpLower, syms) ==
  LET pm == Polymod(HrpExpand(hrpLower) \o syms \o <<0,0,0,0,0,0>>) ^^ 1
  IN [i \in 1..6 |-> (pm \div Pow(32, 6 - i)) % 32]

-----------------------------------------------------------------------------
\* 8 <-> 5 bit regrouping (big endian bit order, zero padding)

BitsOf(v, w) == [j \in 1..w |-> (v \div Pow(2, w - j)) % 2]
ValOf(bits) == FoldLeft(LAMBDA a, b : 2 * a + b, 0, bits)

ToBase32(bytes) ==
  LET bits == FlattenFixed([i \in DOMAIN bytes |-> BitsOf(bytes[i], 8)], 8)
      n == (Len(bits) + 4) \div 5
      bit(k) == IF k <= Len(bits) THEN bits[k] ELSE 0
  IN [g \in 1..n |-> ValOf([j \in 1..5 |-> bit(5*(g-1) + j)])]

\* [ok, bytes]: ok iff fewer than 5 padding bits and they are all zero
FromBase32(syms) ==
  LET bits == FlattenFixed([i \in DOMAIN syms |-> BitsOf(syms[i], 5)], 5)
      nb == Len(bits) \div 8
      r == Len(bits) % 8
      ok == r < 5 /\ \A k \in (8*nb + 1)..Len(bits) : bits[k] = 0
  IN [ok |-> ok,
      bytes |-> IF ok THEN [g \in 1..nb |-> ValOf([j \in 1..8 |-> bits[8*(g-1) + j]])] ELSE <<>>]

-----------------------------------------------------------------------------
\* declarative definition

LastSep(s) == IF \E i \in DOMAIN s : s[i] = Sep
              THEN CHOOSE i \in DOMAIN s : s[i] = Sep /\ \A j \in (i+1)..Len(s) : s[j] # Sep
              ELSE 0

MixedCase(s) == (\E i \in DOMAIN s : IsUpper(s[i])) /\ (\E i \in DOMAIN s : IsLower(s[i]))

\* the symbol values of the data part (after the separator), or <<>> if some
\* character is not in the charset
DataSyms(s, sep) ==
  LET ls == LowerS(s) IN [i \in 1..(Len(s) - sep) |-> DecMap[ls[sep + i]]]

Decode(s) ==
  LET sep == LastSep(s)
      wellFormed ==
        /\ Len(s) <= MaxLen
        /\ sep >= 2                                   \* separator present, hrp not empty
        /\ Len(s) - sep >= 6                          \* room for the checksum
        /\ \A i \in 1..(sep-1) : IsHrpChar(s[i])
        /\ \A i \in (sep+1)..Len(s) : s[i] < 128 /\ DecMap[ToLowerC(s[i])] >= 0
        /\ ~MixedCase(s)
      hrp == LowerS(SubSeq(s, 1, sep - 1))
      syms == DataSyms(s, sep)
      chkOK == wellFormed /\ ChecksumOK(hrp, syms)
      d == IF chkOK THEN FromBase32(SubSeq(syms, 1, Len(syms) - 6)) ELSE [ok |-> FALSE, bytes |-> <<>>]
  IN [ok |-> chkOK /\ d.ok,
      hrp |-> IF chkOK /\ d.ok THEN hrp ELSE <<>>,
      data |-> IF chkOK /\ d.ok THEN d.bytes ELSE <<>>,
      wellFormed |-> wellFormed, chkOK |-> chkOK]

Valid(s) == Decode(s).ok

\* symbol-level encoder (arbitrary 5-bit symbols, used to build test strings)
Encode5(hrp, syms) ==
  LET hl == LowerS(hrp)
      full == syms \o CreateChecksum(hl, syms)          \* bound outside the constructor: evaluated once
      body == hl \o <<Sep>> \o [i \in 1..Len(full) |-> Charset[full[i] + 1]]
  IN IF hl = hrp THEN body ELSE UpperS(body)

\* a string whose polymod residue is c instead of 1 (c = 1 gives Encode5); used to probe the
\* acceptance set of the checksum test: only residue 1 may be accepted
Encode5Residue(hrp, syms, c) ==
  LET hl == LowerS(hrp)
      pm == Polymod(HrpExpand(hl) \o syms \o <<0,0,0,0,0,0>>) ^^ c
      full == syms \o [i \in 1..6 |-> (pm \div Pow(32, 6 - i)) % 32]
  IN hl \o <<Sep>> \o [i \in 1..Len(full) |-> Charset[full[i] + 1]]

Encode(hrp, bytes) ==
  LET syms == ToBase32(bytes)
      ok == /\ Len(hrp) >= 1
            /\ Len(hrp) + 1 + Len(syms) + 6 <= MaxLen
            /\ \A i \in DOMAIN hrp : IsHrpChar(hrp[i])
            /\ ~MixedCase(hrp)
  IN [ok |-> ok, str |-> IF ok THEN Encode5(hrp, syms) ELSE <<>>]

-----------------------------------------------------------------------------
\* implementation-shaped staged decoder: <<stage, ok, hrp, data>>

Staged(s) ==
  IF Len(s) > MaxLen THEN <<"length", FALSE, <<>>, <<>>>>
  ELSE LET sep == LastSep(s) IN
  IF sep = 0 THEN <<"nosep", FALSE, <<>>, <<>>>>
  ELSE IF sep - 1 < 1 \/ (sep - 1) + 6 > Len(s) THEN <<"seppos", FALSE, <<>>, <<>>>>
  ELSE IF \E i \in 1..(sep-1) : ~IsHrpChar(s[i]) THEN <<"hrpchar", FALSE, <<>>, <<>>>>
  ELSE IF MixedCase(s) THEN <<"case", FALSE, <<>>, <<>>>>
  ELSE IF \E i \in (sep+1)..Len(s) : s[i] >= 128 \/ DecMap[ToLowerC(s[i])] < 0 THEN <<"charset", FALSE, <<>>, <<>>>>
  ELSE LET hrp == LowerS(SubSeq(s, 1, sep-1))
           syms == DataSyms(s, sep)
       IN IF Len(syms) < 6 \/ ~ChecksumOK(hrp, syms) THEN <<"checksum", FALSE, <<>>, <<>>>>
          ELSE LET d5 == SubSeq(syms, 1, Len(syms) - 6)
                   n == Len(d5) % 8
               IN IF n \in {1, 3, 6} THEN <<"b32length", FALSE, <<>>, <<>>>>
                  ELSE LET f == FromBase32(d5)
                       IN IF ~f.ok THEN <<"padding", FALSE, <<>>, <<>>>>
                          ELSE <<"ok", TRUE, hrp, f.bytes>>
=============================================================================
