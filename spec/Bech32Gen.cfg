SPECIFICATION Spec
