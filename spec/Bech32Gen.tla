------------------------------ MODULE Bech32Gen ------------------------------
(***************************************************************************)
(* Leg G for C04/C05: TLC builds checksum-correct strings for every symbol *)
(* count 0..84 and padding pattern, case variants, the 90/91 boundary,     *)
(* separator positions and HRP boundary bytes, and Encode inputs for every *)
(* data length 0..52 around the length limit.                              *)
(***************************************************************************)
EXTENDS Bech32, Json

VARIABLE x

D(str) == [op |-> "bech32.Decode", in |-> [s |-> str]]
E(h, d) == [op |-> "bech32.Encode", in |-> [hrp |-> h, data |-> d]]

LastVals == {0, 1, 2, 4, 8, 16, 31}
Fill(n, a, last) == [i \in 1..n |-> IF i = n THEN last ELSE a]

\* every symbol count, every padding pattern of the last symbol, two fillers
CountStrings ==
  { Encode5(<<97>>, Fill(n, a, v)) : n \in 1..84, a \in {0, 31}, v \in LastVals }
  \cup { Encode5(<<97>>, <<>>) }
UpperVariants == { UpperS(Encode5(<<97, 98>>, Fill(n, 5, 0))) : n \in {0, 1, 2, 4, 5, 7, 8, 16} }
MixedVariants == { LET t == Encode5(<<97, 98>>, Fill(n, 5, 0)) IN [t EXCEPT ![k] = ToUpperC(t[k])]
                   : n \in {0, 8}, k \in {1, 2, 4, 9} }
\* one part in one case, the other part in the other case (also letter-free parts)
PartCase == UNION { LET t == Encode5(h, Fill(n, 5, 0)) sep == Len(h) + 1
                    IN { [i \in DOMAIN t |-> IF i < sep THEN ToUpperC(t[i]) ELSE t[i]],
                         [i \in DOMAIN t |-> IF i > sep THEN ToUpperC(t[i]) ELSE t[i]],
                         [i \in DOMAIN t |-> IF i > sep + n THEN ToUpperC(t[i]) ELSE t[i]],
                         [i \in DOMAIN t |-> IF i > sep /\ i <= sep + n THEN ToUpperC(t[i]) ELSE t[i]] }
                    : h \in {<<97>>, <<97, 98>>, <<50, 97>>, <<50, 51>>, <<116, 101, 115, 116>>}, n \in {0, 2, 8} }
\* total length 89, 90, 91 with a long hrp; data 8 symbols (5 bytes)
Boundary == { Encode5([i \in 1..hl |-> 97 + (i % 20)], Fill(8, 3, 0)) : hl \in 72..78 }
Separators == { Encode5(h, Fill(8, 7, 0)) : h \in {<<49>>, <<49, 49>>, <<97, 49, 98>>, <<49, 97>>, <<97, 49>>} }
              \cup { <<49>> \o Encode5(<<97>>, Fill(8, 7, 0)), Encode5(<<97>>, Fill(8, 7, 0)) \o <<49>> }
HrpBytes == { Encode5(<<c>>, Fill(8, 9, 0)) : c \in {32, 33, 47, 48, 57, 58, 64, 91, 96, 123, 126, 127, 128, 255} }
Truncations == LET t == Encode5(<<98, 99>>, Fill(8, 9, 0))
               IN { SubSeq(t, 1, k) : k \in 0..Len(t) } \cup { SubSeq(t, k, Len(t)) : k \in 1..Len(t) }

\* checksum residues other than 1 must be rejected: all residues at Hamming distance 1 and 2
\* from 1, 0, all ones, the Bech32m constant (BIP-350) and a spread of others
Bit(k) == Pow(2, k)
Residues == {0, 1073741823, 734539939} \cup {1 ^^ Bit(k) : k \in 0..29}
            \cup {(1 ^^ Bit(j)) ^^ Bit(k) : j \in 0..29, k \in 0..29}
            \cup {(k * 104729 + 12345) % 1073741824 : k \in 1..200}
ResidueStrings == { Encode5Residue(<<98, 99>>, Fill(8, 3, 0), c) : c \in Residues \ {1} }
                  \cup { Encode5Residue(<<97>>, Fill(n, 17, 0), c) : n \in {0, 5, 40}, c \in {0, 734539939, 3, 536870913} }

DecodeInputs == CountStrings \cup UpperVariants \cup MixedVariants \cup PartCase \cup ResidueStrings \cup Boundary \cup Separators
                \cup HrpBytes \cup Truncations

EncodeInputs ==
  { <<[i \in 1..hl |-> 104], [i \in 1..dl |-> (37 * i + dl) % 256]>> : hl \in {1, 2}, dl \in 0..52 }
  \cup { <<[i \in 1..hl |-> 72], [i \in 1..dl |-> 255]>> : hl \in {1, 3}, dl \in {0, 1, 2, 3, 4, 5, 50, 51, 52} }
  \* both sides of the 90-character limit: hl + 1 + ceil(8*dl/5) + 6
  \cup { <<[i \in 1..hl |-> 122], [i \in 1..dl |-> 1]>> : hl \in {74, 75, 76, 82, 83, 84}, dl \in {0, 1, 5, 6} }
  \cup { <<h, <<0, 255>>>> : h \in {<<>>, <<65, 98>>, <<98, 65>>, <<32>>, <<127>>, <<200>>, <<97, 32>>, <<49>>, <<48, 57>>, <<33, 126>>} }

\* (set maps, not indexing of a constant sequence: TLC re-evaluates the latter per index)
Vectors == SetToSeq({D(t) : t \in DecodeInputs}) \o SetToSeq({E(p[1], p[2]) : p \in EncodeInputs})

ASSUME ndJsonSerialize("gen.ndjson", Vectors)
ASSUME PrintT(<<"VERIF-GEN", Len(Vectors)>>)

Init == x = 0
Next == UNCHANGED x
Spec == Init /\ [][Next]_x
=============================================================================
