------------------------------ MODULE Bech32Gen ------------------------------
(***************************************************************************)
(* Leg G for C04/C05: TLC builds checksum-correct strings for every symbol *)
(* count 0..84 and padding pattern, case variants, the 90/91 boundary,     *)
(* separator positions and HRP boundary bytes, and Encode inputs for every *)
(* data length 0..52 around the length limit.                              *)
(***************************************************************************)
EXTENDS Bech32, Json

VARIABLE x

D(str) == [op |-> "bech32.Decode", in |-> [s |-> str]]
E(h, d) == [op |-> "bech32.Encode", in |-> [hrp |-> h, data |-> d]]

LastVals == {0, 1, 2, 4, 8, 16, 31}
Fill(n, a, last) == [i \in 1..n |-> IF i = n THEN last ELSE a]

\* every symbol count, every padding pattern of the last symbol, two fillers
CountStrings ==
  { Encode5(<<97>>, Fill(n, a, v)) : n \in 1..84, a \in {0, 31}, v \in LastVals }
  \cup { Encode5(<<97>>, <<>>) }
UpperVariants == { UpperS(Encode5(<<97, 98>>, Fill(n, 5, 0))) : n \in {0, 1, 2, 4, 5, 7, 8, 16} }
MixedVariants == { LET t == Encode5(<<97, 98>>, Fill(n, 5, 0)) IN [t EXCEPT ![k] = ToUpperC(t[k])]
                   : n \in {0, 8}, k \in {1, 2, 4, 9} }
\* total length 89, 90, 91 with a long hrp; data 8 symbols (5 bytes)
Boundary == { Encode5([i \in 1..hl |-> 97 + (i % 20)], Fill(8, 3, 0)) : hl \in 72..78 }
Separators == { Encode5(h, Fill(8, 7, 0)) : h \in {<<49>>, <<49, 49>>, <<97, 49, 98>>, <<49, 97>>, <<97, 49>>} }
              \cup { <<49>> \o Encode5(<<97>>, Fill(8, 7, 0)), Encode5(<<97>>, Fill(8, 7, 0)) \o <<49>> }
HrpBytes == { Encode5(<<c>>, Fill(8, 9, 0)) : c \in {32, 33, 47, 48, 57, 58, 64, 91, 96, 123, 126, 127, 128, 255} }
Truncations == LET t == Encode5(<<98, 99>>, Fill(8, 9, 0))
               IN { SubSeq(t, 1, k) : k \in 0..Len(t) } \cup { SubSeq(t, k, Len(t)) : k \in 1..Len(t) }

DecodeInputs == CountStrings \cup UpperVariants \cup MixedVariants \cup Boundary \cup Separators
                \cup HrpBytes \cup Truncations

EncodeInputs ==
  { <<[i \in 1..hl |-> 104], [i \in 1..dl |-> (37 * i + dl) % 256]>> : hl \in {1, 2}, dl \in 0..52 }
  \cup { <<[i \in 1..hl |-> 72], [i \in 1..dl |-> 255]>> : hl \in {1, 3}, dl \in {0, 1, 2, 3, 4, 5, 50, 51, 52} }
  \* both sides of the 90-character limit: hl + 1 + ceil(8*dl/5) + 6
  \cup { <<[i \in 1..hl |-> 122], [i \in 1..dl |-> 1]>> : hl \in {74, 75, 76, 82, 83, 84}, dl \in {0, 1, 5, 6} }
  \cup { <<h, <<0, 255>>>> : h \in {<<>>, <<65, 98>>, <<98, 65>>, <<32>>, <<127>>, <<200>>, <<97, 32>>, <<49>>, <<48, 57>>, <<33, 126>>} }

\* (set maps, not indexing of a constant sequence: TLC re-evaluates the latter per index)
Vectors == SetToSeq({D(t) : t \in DecodeInputs}) \o SetToSeq({E(p[1], p[2]) : p \in EncodeInputs})

ASSUME ndJsonSerialize("gen.ndjson", Vectors)
ASSUME PrintT(<<"VERIF-GEN", Len(Vectors)>>)

Init == x = 0
Next == UNCHANGED x
Spec == Init /\ [][Next]_x
=============================================================================
