SPECIFICATION Spec
CONSTANTS
  Scale = 1
INVARIANTS StagedEqualsDeclarative AcceptedReencodes BaseAcceptance
CHECK_DEADLOCK FALSE
