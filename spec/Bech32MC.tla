------------------------------ MODULE Bech32MC ------------------------------
(***************************************************************************)
(* Leg M for C04/C05.  Valid Bech32 strings have at least 8 characters, so *)
(* "all short strings" would never reach one.  Instead the model starts    *)
(* from ALL checksum-correct strings over a small HRP set and short symbol *)
(* sequences (every padding pattern for those lengths) and closes them     *)
(* under zero or one edit (substitute / insert / delete at every position  *)
(* with a byte of the class alphabet, case flip of any letter).            *)
(***************************************************************************)
EXTENDS Bech32

CONSTANTS Scale       \* 1: quick, 2: thorough

VARIABLES s, edits
vars == <<s, edits>>

Hrps == {<<97>>, <<65>>, <<49>>, <<97, 49>>, <<33, 65>>, <<126, 126>>}
           \* "a"    "A"     "1"    "a1"        "!A"        "~~"
SymVals == IF Scale = 1 THEN {0, 1, 7, 8, 16, 31} ELSE 0..31
SymSeqs == {<<>>} \cup {<<a>> : a \in 0..31} \cup {<<a, b>> : a \in SymVals, b \in SymVals}
           \cup (IF Scale = 2 THEN {<<a, b, c>> : a \in {0, 3, 31}, b \in {0, 16}, c \in {0, 1, 2, 4, 8, 16, 31}} ELSE {})

Base == {Encode5(h, q) : h \in Hrps, q \in SymSeqs}

\* class alphabet for edits: charset letter (both cases), non-charset letter
\* (both cases), separator, space, DEL, a byte >= 0x80
Alphabet == {113, 81, 98, 66, 49, 32, 127, 200, 16, 25, 89}       \* ... and 0x10, 0x19 ('0'-0x20, '9'-0x20), 'Y'

Subst(t, i, c) == [t EXCEPT ![i] = c]
Insert(t, i, c) == SubSeq(t, 1, i) \o <<c>> \o SubSeq(t, i + 1, Len(t))    \* after position i (0..Len)
Delete(t, i) == SubSeq(t, 1, i - 1) \o SubSeq(t, i + 1, Len(t))
Flip(t, i) == [t EXCEPT ![i] = IF IsUpper(t[i]) THEN t[i] + 32 ELSE IF IsLower(t[i]) THEN t[i] - 32 ELSE t[i]]

Init == s \in Base /\ edits = 0
Next == /\ edits = 0 /\ edits' = 1
        /\ \/ \E i \in DOMAIN s, c \in Alphabet : s' = Subst(s, i, c)
           \/ \E i \in 0..Len(s), c \in Alphabet : s' = Insert(s, i, c)
           \/ \E i \in DOMAIN s : s' = Delete(s, i)
           \/ \E i \in DOMAIN s : s' = Flip(s, i)
           \/ \E k \in DOMAIN s : s' = [i \in DOMAIN s |-> IF i < k THEN ToUpperC(s[i]) ELSE s[i]]   \* upper-case a prefix
           \/ \E k \in DOMAIN s : s' = [i \in DOMAIN s |-> IF i > k THEN ToUpperC(s[i]) ELSE s[i]]   \* upper-case a suffix
Spec == Init /\ [][Next]_vars

-----------------------------------------------------------------------------
StagedEqualsDeclarative ==
  LET d == Decode(s) st == Staged(s)
  IN /\ st[2] = d.ok
     /\ d.ok => st[3] = d.hrp /\ st[4] = d.data

\* every accepted string re-encodes to its own lower-case form (one spelling)
AcceptedReencodes ==
  LET d == Decode(s)
  IN d.ok => LET e == Encode(d.hrp, d.data) IN e.ok /\ e.str = LowerS(s)

\* base strings: accepted iff the symbols regroup (residue + zero padding)
BaseAcceptance ==
  edits = 0 => LET d == Decode(s) IN d.chkOK /\ d.wellFormed

\* C05 on the model: Encode of bytes decodes to (lower hrp, bytes)
ASSUME
    \A h \in Hrps : \A bs \in {<<>>, <<0>>, <<255>>, <<1, 128>>, <<0, 0, 0>>, <<255, 255, 255, 255>>, <<1, 2, 3, 4, 5>>, <<9, 8, 7, 6, 5, 4>>} :
       LET e == Encode(h, bs) d == Decode(e.str)
       IN e.ok /\ d.ok /\ d.hrp = LowerS(h) /\ d.data = bs
=============================================================================
