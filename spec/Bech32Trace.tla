----------------------------- MODULE Bech32Trace -----------------------------
(***************************************************************************)
(* Leg T for C04, C05, C16: recorded calls of the real bech32 package are  *)
(* judged by module Bech32 (TLC evaluates the real polymod and regrouping).*)
(***************************************************************************)
EXTENDS Bech32, Json

Trace == ndJsonDeserialize("trace.ndjson")

VARIABLES l, bad
vars == <<l, bad>>

DecodeConforms(s, out) ==
  LET d == Decode(s)
  IN /\ out.panic = ""
     /\ out.ok = d.ok
     /\ d.ok => /\ out.hrp = d.hrp /\ out.data = d.data
                /\ out.reenc_ok /\ out.reenc = LowerS(s)        \* one accepted spelling
     /\ ~d.ok => out.off \in -1..Len(s)                         \* a position lies inside the input

EncodeConforms(h, bytes, out) ==
  LET e == Encode(h, bytes)
  IN /\ out.panic = ""
     /\ out.ok = e.ok
     /\ e.ok => /\ out.str = e.str
                /\ out.dec_ok /\ out.dec_hrp = LowerS(h) /\ out.dec_data = bytes
     /\ ~e.ok => out.str = <<>>

\* the regrouping package under Bech32 (pkg/bech32/internal/base32), bound directly
Base32EncodeConforms(src, out) ==
  /\ out.panic = "" /\ out.src_unchanged /\ out.tail_untouched
  /\ out.syms = ToBase32(src) /\ out.n = Len(out.syms) /\ out.len = out.n
Base32DecodeConforms(syms, out) ==
  LET d == FromBase32(syms) IN
  /\ out.panic = "" /\ out.src_unchanged /\ out.tail_untouched
  /\ out.ok = d.ok
  /\ out.ok => out.bytes = d.bytes /\ out.n = Len(d.bytes) /\ out.n = out.maxlen
  /\ ~out.ok => out.kind \in {"length", "padding"} /\ out.off \in 0..Len(syms) /\ out.n \in 0..out.maxlen

Conforms(e) ==
  CASE e.op = "bech32.Decode" -> DecodeConforms(e.in.s, e.out)
    [] e.op = "base32.Encode" -> Base32EncodeConforms(e.in.src, e.out)
    [] e.op = "base32.Decode" -> Base32DecodeConforms(e.in.syms, e.out)
    [] e.op = "bech32.Encode" -> EncodeConforms(e.in.hrp, e.in.data, e.out)
    [] e.op = "bech32.polymod" -> e.out.panic = "" /\ e.out.v = Polymod(e.in.values)
    [] OTHER -> FALSE

Init == l = 1 /\ bad = <<>>
Next == /\ l <= Len(Trace)
        /\ l' = l + 1
        /\ bad' = IF Conforms(Trace[l]) THEN bad ELSE Append(bad, l)
Spec == Init /\ [][Next]_vars

Done == (l = Len(Trace) + 1) => PrintT(<<"VERIF-RESULT", Len(Trace), bad>>)
=============================================================================
