----------------------------- MODULE Bech32Trace -----------------------------
(***************************************************************************)
(* Leg T for C04, C05, C16: recorded calls of the real bech32 package are  *)
(* judged by module Bech32 (TLC evaluates the real polymod and regrouping).*)
(***************************************************************************)
EXTENDS Bech32, Json

Trace == ndJsonDeserialize("trace.ndjson")

VARIABLES l, bad
vars == <<l, bad>>

DecodeConforms(s, out) ==
  LET d == Decode(s)
  IN /\ out.panic = ""
     /\ out.ok = d.ok
     /\ d.ok => /\ out.hrp = d.hrp /\ out.data = d.data
                /\ out.reenc_ok /\ out.reenc = LowerS(s)        \* one accepted spelling
     /\ ~d.ok => out.off \in -1..Len(s)                         \* a position lies inside the input

EncodeConforms(h, bytes, out) ==
  LET e == Encode(h, bytes)
  IN /\ out.panic = ""
     /\ out.ok = e.ok
     /\ e.ok => /\ out.str = e.str
                /\ out.dec_ok /\ out.dec_hrp = LowerS(h) /\ out.dec_data = bytes
     /\ ~e.ok => out.str = <<>>

Conforms(e) ==
  CASE e.op = "bech32.Decode" -> DecodeConforms(e.in.s, e.out)
    [] e.op = "bech32.Encode" -> EncodeConforms(e.in.hrp, e.in.data, e.out)
    [] e.op = "bech32.polymod" -> e.out.panic = "" /\ e.out.v = Polymod(e.in.values)
    [] OTHER -> FALSE

Init == l = 1 /\ bad = <<>>
Next == /\ l <= Len(Trace)
        /\ l' = l + 1
        /\ bad' = IF Conforms(Trace[l]) THEN bad ELSE Append(bad, l)
Spec == Init /\ [][Next]_vars

Done == (l = Len(Trace) + 1) => PrintT(<<"VERIF-RESULT", Len(Trace), bad>>)
=============================================================================
