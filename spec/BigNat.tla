------------------------------- MODULE BigNat -------------------------------
(***************************************************************************)
(* Natural numbers beyond TLC's 32-bit integers: little-endian sequences   *)
(* of limbs in base 4096 (so that limb products and column sums of up to   *)
(* 127 products stay below 2^31).  <<>> is zero; values are kept           *)
(* normalised (no leading zero limbs).  JSON traces carry such numbers as  *)
(* arrays.  Division never happens here: quotients are logged by the       *)
(* drivers as certificates and verified by multiplication and comparison.  *)
(***************************************************************************)
EXTENDS VLib

BNBase == 4096

BNNorm(a) ==
  LET nz == {i \in DOMAIN a : a[i] # 0}
  IN IF nz = {} THEN <<>> ELSE SubSeq(a, 1, CHOOSE i \in nz : \A j \in nz : j <= i)

BNIsNat(a) == \A i \in DOMAIN a : a[i] \in 0..(BNBase - 1)
BNWellFormed(a) == BNIsNat(a) /\ (Len(a) = 0 \/ a[Len(a)] # 0)

BNFromInt(v) ==           \* 0 <= v < 2^31
  BNNorm(<<v % 4096, (v \div 4096) % 4096, v \div 16777216>>)
BNToInt(a) ==             \* only for values < 2^31
  FoldLeft(LAMBDA acc, i : acc + a[i] * (4096 ^ (i - 1)), 0, [i \in DOMAIN a |-> i])

\* carry propagation over a sequence of column values (each < 2^31 - 2^20)
BNCarry(cols) ==
  LET st == FoldLeft(LAMBDA s, c : <<Append(s[1], (c + s[2]) % 4096), (c + s[2]) \div 4096>>, <<<<>>, 0>>, cols)
      \* remaining carry < 2^19: at most two more limbs
      hi == <<st[2] % 4096, (st[2] \div 4096) % 4096, st[2] \div 16777216>>
  IN BNNorm(st[1] \o hi)

BNLimb(a, i) == IF i <= Len(a) THEN a[i] ELSE 0
BNAdd(a, b) == BNCarry([i \in 1..VMax(Len(a), Len(b)) |-> BNLimb(a, i) + BNLimb(b, i)])
BNAddInt(a, v) == BNAdd(a, BNFromInt(v))
BNMulInt(a, m) == BNCarry([i \in DOMAIN a |-> a[i] * m])          \* m < 2^19
BNMul(a, b) ==                                                      \* Len(a), Len(b) <= 127
  IF a = <<>> \/ b = <<>> THEN <<>>
  ELSE BNCarry([k \in 1..(Len(a) + Len(b) - 1) |->
         LET lo == VMax(1, k + 1 - Len(b)) hi == VMin(k, Len(a))
         IN SumSeq([t \in 1..(hi - lo + 1) |-> a[lo + t - 1] * b[k + 2 - lo - t]])])

\* -1, 0, 1
BNCmp(a, b) ==
  IF Len(a) # Len(b) THEN (IF Len(a) < Len(b) THEN -1 ELSE 1)
  ELSE LET diff == {i \in DOMAIN a : a[i] # b[i]}
       IN IF diff = {} THEN 0
          ELSE LET top == CHOOSE i \in diff : \A j \in diff : j <= i
               IN IF a[top] < b[top] THEN -1 ELSE 1
BNLe(a, b) == BNCmp(a, b) <= 0
BNLt(a, b) == BNCmp(a, b) < 0
BNEq(a, b) == a = b

\* a - b for a >= b
BNSub(a, b) ==
  LET st == FoldLeft(LAMBDA s, i :
                LET d == a[i] - BNLimb(b, i) - s[2]
                IN IF d < 0 THEN <<Append(s[1], d + 4096), 1>> ELSE <<Append(s[1], d), 0>>,
              <<<<>>, 0>>, [i \in DOMAIN a |-> i])
  IN BNNorm(st[1])

BNPow2(k) == LET q == k \div 12 r == k % 12 IN [i \in 1..q |-> 0] \o <<2 ^ r>>
BNShl(a, k) == IF a = <<>> THEN <<>> ELSE BNMul(a, BNPow2(k))

RECURSIVE BNPow3(_)
BNPow3(k) == IF k = 0 THEN <<1>> ELSE BNMulInt(BNPow3(k - 1), 3)
\* powers of three as a table (evaluated once per use site by TLC's constant cache)
BNPow3Table == [k \in 0..243 |-> BNPow3(k)]

\* big-endian bytes -> BigNat (e.g. a 32-byte scalar)
BNFromBytesBE(bs) ==
  FoldLeft(LAMBDA acc, byte : BNAddInt(BNMulInt(acc, 256), byte), <<>>, bs)

\* certificate check for a = q*m + r with 0 <= r < m
BNDivCert(a, m, q, r) == BNWellFormed(q) /\ BNWellFormed(r) /\ BNLt(r, m) /\ BNAdd(BNMul(q, m), r) = a
=============================================================================
