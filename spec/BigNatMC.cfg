SPECIFICATION Spec
INVARIANT Agree
CHECK_DEADLOCK FALSE
