------------------------------ MODULE BigNatMC ------------------------------
(* Self-test of BigNat against TLC's native integers on a grid of values.   *)
EXTENDS BigNat
VARIABLES a, b
Vals == {0, 1, 2, 4095, 4096, 4097, 65535, 16777215, 16777216, 46340, 1000003, 2147483647, 123456789}
Init == a \in Vals /\ b \in Vals
Next == UNCHANGED <<a, b>>
Spec == Init /\ [][Next]_<<a, b>>
Small(x) == x <= 46340
Agree ==
  LET A == BNFromInt(a) B == BNFromInt(b)
  IN /\ BNWellFormed(A) /\ BNToInt(A) = a
     /\ BNCmp(A, B) = (IF a < b THEN -1 ELSE IF a = b THEN 0 ELSE 1)
     /\ (a <= 1073741823 /\ b <= 1073741823) => BNToInt(BNAdd(A, B)) = a + b
     /\ (Small(a) /\ Small(b)) => BNToInt(BNMul(A, B)) = a * b
     /\ a >= b => BNToInt(BNSub(A, B)) = a - b
     /\ BNAdd(BNMul(A, B), A) = BNMul(A, BNAdd(B, <<1>>))                 \* distributivity beyond 2^31
     /\ BNMul(A, B) = BNMul(B, A)
     /\ BNSub(BNAdd(BNMul(A, A), B), B) = BNMul(A, A)
     /\ b < 524288 => BNMulInt(A, b) = BNMul(A, B)
ASSUME BNPow3Table[5] = BNFromInt(243) /\ BNPow3Table[19] = BNFromInt(1162261467)
ASSUME BNMul(BNPow3Table[100], BNPow3Table[143]) = BNPow3Table[243]
ASSUME BNFromBytesBE(<<1, 0, 0>>) = BNFromInt(65536) /\ BNShl(BNFromInt(3), 40) = BNMul(BNFromInt(3), BNMul(BNFromInt(1048576), BNFromInt(1048576)))
=============================================================================
