----------------------------- MODULE Bip32Path -----------------------------
(***************************************************************************)
(* BIP-32 path text form (pkg/bip32path).  Strings are byte sequences; an  *)
(* index is a pair <<h, v>> with h in {0,1} (hardened) and 0 <= v < 2^31   *)
(* (the 32-bit index is v + h * 2^31; TLC integers end at 2^31 - 1).       *)
(*                                                                         *)
(*   Parse(s)  declarative: "" | "m" | ["m/"] comp ("/" comp)* with        *)
(*             comp = digit+ [H | '] and decimal value < 2^31              *)
(*   PathString(p)  "m" followed by "/" decimal(v) ["'"]                        *)
(*   Auto(s)   the same language as a character automaton (one step per    *)
(*             character), compared with Parse on the exhaustive model     *)
(***************************************************************************)
EXTENDS VLib

ChM == 109   ChSlash == 47   ChH == 72   ChApos == 39
IsDigit(c) == c \in 48..57
Limit == <<2,1,4,7,4,8,3,6,4,8>>          \* 2^31 = 2147483648

\* decimal value of a non-empty digit string, -1 if >= 2^31 (leading zeros ignored)
StripZeros(ds) ==
  LET nz == {i \in DOMAIN ds : ds[i] # 0}
  IN IF nz = {} THEN <<>> ELSE SubSeq(ds, CHOOSE i \in nz : \A j \in nz : i <= j, Len(ds))
LexLess(a, b) ==        \* equal lengths
  \E k \in DOMAIN a : a[k] < b[k] /\ \A j \in 1..(k-1) : a[j] = b[j]
DecVal(chars) ==
  LET ds == StripZeros([i \in DOMAIN chars |-> chars[i] - 48])
  IN IF Len(ds) > 10 THEN -1
     ELSE IF Len(ds) = 10 /\ ~LexLess(ds, Limit) THEN -1
     ELSE FoldLeft(LAMBDA a, d : 10 * a + d, 0, ds)

\* split on '/' (always at least one piece)
SplitSlash(t) ==
  LET cuts == <<0>> \o SelectSeq([i \in DOMAIN t |-> IF t[i] = ChSlash THEN i ELSE 0], LAMBDA x : x # 0) \o <<Len(t) + 1>>
  IN [k \in 1..(Len(cuts) - 1) |-> SubSeq(t, cuts[k] + 1, cuts[k+1] - 1)]

\* a component: <<ok, h, v>>
Comp(c) ==
  LET n == Len(c)
      marked == n >= 1 /\ c[n] \in {ChH, ChApos}
      digs == IF marked THEN SubSeq(c, 1, n - 1) ELSE c
      ok == Len(digs) >= 1 /\ (\A i \in DOMAIN digs : IsDigit(digs[i])) /\ DecVal(digs) >= 0
  IN IF ok THEN <<TRUE, IF marked THEN 1 ELSE 0, DecVal(digs)>> ELSE <<FALSE, 0, 0>>

Parse(s) ==
  IF s = <<>> \/ s = <<ChM>> THEN [ok |-> TRUE, path |-> <<>>]
  ELSE LET t == IF Len(s) >= 2 /\ s[1] = ChM /\ s[2] = ChSlash THEN SubSeq(s, 3, Len(s)) ELSE s
           cs == SplitSlash(t)
           rs == [k \in DOMAIN cs |-> Comp(cs[k])]
           ok == \A k \in DOMAIN rs : rs[k][1]
       IN [ok |-> ok, path |-> IF ok THEN [k \in DOMAIN rs |-> <<rs[k][2], rs[k][3]>>] ELSE <<>>]

RECURSIVE DecDigits(_)
DecDigits(v) == IF v < 10 THEN <<48 + v>> ELSE DecDigits(v \div 10) \o <<48 + (v % 10)>>

PathString(p) ==
  <<ChM>> \o FoldLeft(LAMBDA acc, e : acc \o <<ChSlash>> \o DecDigits(e[2]) \o (IF e[1] = 1 THEN <<ChApos>> ELSE <<>>), <<>>, p)

-----------------------------------------------------------------------------
\* character automaton.  State: [q, path, digs, h]
\*   q: "start" (nothing read), "m" (read "m" as first char), "comp" (at the
\*   beginning of a component), "digits", "marked", "fail"

AutoInit == [q |-> "start", path |-> <<>>, digs |-> <<>>]

CloseComp(st, h) ==      \* finish the current component with hardened flag h
  LET v == DecVal(st.digs)
  IN IF v < 0 THEN [st EXCEPT !.q = "fail"]
     ELSE [q |-> "closed", path |-> Append(st.path, <<h, v>>), digs |-> <<>>]

AutoStep(st, c) ==
  CASE st.q = "start" ->
         IF c = ChM THEN [st EXCEPT !.q = "m"]
         ELSE IF IsDigit(c) THEN [st EXCEPT !.q = "digits", !.digs = <<c>>]
         ELSE [st EXCEPT !.q = "fail"]
    [] st.q = "m" -> IF c = ChSlash THEN [st EXCEPT !.q = "comp"] ELSE [st EXCEPT !.q = "fail"]
    [] st.q = "comp" -> IF IsDigit(c) THEN [st EXCEPT !.q = "digits", !.digs = <<c>>] ELSE [st EXCEPT !.q = "fail"]
    [] st.q = "digits" ->
         IF IsDigit(c) THEN [st EXCEPT !.digs = Append(st.digs, c)]
         ELSE IF c \in {ChH, ChApos} THEN LET r == CloseComp(st, 1) IN IF r.q = "fail" THEN r ELSE [r EXCEPT !.q = "marked"]
         ELSE IF c = ChSlash THEN LET r == CloseComp(st, 0) IN IF r.q = "fail" THEN r ELSE [r EXCEPT !.q = "comp"]
         ELSE [st EXCEPT !.q = "fail"]
    [] st.q = "marked" -> IF c = ChSlash THEN [st EXCEPT !.q = "comp"] ELSE [st EXCEPT !.q = "fail"]
    [] OTHER -> [st EXCEPT !.q = "fail"]

AutoEnd(st) ==
  CASE st.q \in {"start", "m"} -> [ok |-> TRUE, path |-> <<>>]
    [] st.q = "digits" -> LET r == CloseComp(st, 0) IN IF r.q = "fail" THEN [ok |-> FALSE, path |-> <<>>] ELSE [ok |-> TRUE, path |-> r.path]
    [] st.q = "marked" -> [ok |-> TRUE, path |-> st.path]
    [] OTHER -> [ok |-> FALSE, path |-> <<>>]

Auto(s) == AutoEnd(FoldLeft(AutoStep, AutoInit, s))
=============================================================================
