SPECIFICATION Spec
CONSTANTS
  GenLen = 4
