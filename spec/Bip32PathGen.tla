---------------------------- MODULE Bip32PathGen ----------------------------
(* Leg G for C10: all strings up to length GenLen over the class alphabet   *)
(* (covers every automaton transition) plus numeric boundary strings.      *)
EXTENDS Bip32Path, Json
CONSTANT GenLen
VARIABLE x
Alphabet == {48, 49, 56, 57, ChM, ChSlash, ChH, ChApos, 120}
Strs(n) == UNION {[1..k -> Alphabet] : k \in 0..n}
P(str) == [op |-> "path.Parse", in |-> [s |-> str]]
S(p) == [op |-> "path.String", in |-> [path |-> p]]
D(v) == DecDigits(v)
Z(k) == [i \in 1..k |-> 48]
Pre == <<ChM, ChSlash>>
Special ==
  { Pre \o Z(k) \o D(v) \o m : k \in {0, 1, 2, 11, 30}, v \in {0, 1, 7, 8, 9, 10, 64, 2147483646, 2147483647},
                               m \in {<<>>, <<ChH>>, <<ChApos>>} }
  \cup { Pre \o Z(k) \o <<50,49,52,55,52,56,51,54,52,56>> \o m : k \in {0, 1}, m \in {<<>>, <<ChH>>} }   \* 2^31
  \cup { Pre \o <<52,50,57,52,57,54,55,50,57,53>> , Pre \o <<52,50,57,52,57,54,55,50,57,54>>,           \* 2^32-1, 2^32
         Pre \o <<57,57,57,57,57,57,57,57,57,57,57,57,57,57,57,57,57,57,57,57,57,57>> }
  \cup { Pre \o D(44) \o <<ChApos, ChSlash>> \o D(0) \o <<ChH, ChSlash>> \o Z(1) \o D(7) \o <<ChSlash>> \o D(2147483647) \o <<ChApos>> }
  \cup { <<ChM, ChSlash, 48, 120, 49, 48>>, <<ChM, ChSlash, 48, 98, 49>>, <<ChM, ChSlash, 48, 111, 55>>, <<ChM, ChSlash, 49, 95, 48>>,
         <<ChM, ChSlash, 43, 49>>, <<ChM, ChSlash, 45, 49>>, <<ChM, ChSlash, 32, 49>>, <<ChM, ChSlash, 49, 32>>, <<ChM, ChSlash, 49, 10>>,
         <<ChM, ChSlash, 217, 161>>, <<77, ChSlash, 49>>, <<ChM, ChSlash, 49, 104>>, <<ChM, ChSlash, 49, ChH, ChH>>, <<ChM, ChSlash, 49, ChApos, ChH>> }
Idx == {<<h, v>> : h \in {0, 1}, v \in {0, 1, 9, 10, 2147483647}}
Paths == {<<>>} \cup {<<a>> : a \in Idx} \cup {<<a, b>> : a \in Idx, b \in Idx}
Vectors == SetToSeq({P(t) : t \in Strs(GenLen) \cup Special}) \o SetToSeq({S(p) : p \in Paths})
ASSUME ndJsonSerialize("gen.ndjson", Vectors)
ASSUME PrintT(<<"VERIF-GEN", Len(Vectors)>>)
Init == x = 0
Next == UNCHANGED x
Spec == Init /\ [][Next]_x
=============================================================================
