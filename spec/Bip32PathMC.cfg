SPECIFICATION Spec
CONSTANTS
  MaxLen = 5
INVARIANTS AutomatonEqualsGrammar StepwiseEqualsFold AcceptedPrintsBack
CHECK_DEADLOCK FALSE
