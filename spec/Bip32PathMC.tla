---------------------------- MODULE Bip32PathMC ----------------------------
(***************************************************************************)
(* Leg M for C10: every string up to MaxLen over the class alphabet is a   *)
(* state (strings grow one character per step, the automaton state is a    *)
(* function of the string); paths up to length 2 over boundary indices.    *)
(***************************************************************************)
EXTENDS Bip32Path
CONSTANT MaxLen
VARIABLES s, st
vars == <<s, st>>

Alphabet == {48, 49, 50, 55, 56, 57, ChM, ChSlash, ChH, ChApos, 120}

Init == s = <<>> /\ st = AutoInit
Next == /\ Len(s) < MaxLen
        /\ \E c \in Alphabet : s' = Append(s, c) /\ st' = AutoStep(st, c)
Spec == Init /\ [][Next]_vars

AutomatonEqualsGrammar == AutoEnd(st) = Parse(s)
StepwiseEqualsFold == st = FoldLeft(AutoStep, AutoInit, s)
AcceptedPrintsBack ==         \* accepted => printing and re-parsing gives the same path
  Parse(s).ok => Parse(PathString(Parse(s).path)) = Parse(s)

Idx == {<<h, v>> : h \in {0, 1}, v \in {0, 1, 9, 10, 2147483647}}
ASSUME \A a \in Idx, b \in Idx :
   /\ Parse(PathString(<<>>)) = [ok |-> TRUE, path |-> <<>>]
   /\ Parse(PathString(<<a>>)) = [ok |-> TRUE, path |-> <<a>>]
   /\ Parse(PathString(<<a, b>>)) = [ok |-> TRUE, path |-> <<a, b>>]
   /\ Auto(PathString(<<a, b>>)) = [ok |-> TRUE, path |-> <<a, b>>]
\* decimal reading, leading zeros, 2^31 boundary
ASSUME /\ Parse(<<109,47,48,49,48>>).path = <<<<0, 10>>>>           \* m/010 -> 10
       /\ Parse(<<109,47,48,56>>).path = <<<<0, 8>>>>               \* m/08 -> 8
       /\ Parse(<<50,49,52,55,52,56,51,54,52,55>>).path = <<<<0, 2147483647>>>>
       /\ ~Parse(<<50,49,52,55,52,56,51,54,52,56>>).ok
       /\ Parse(<<48,48,50,49,52,55,52,56,51,54,52,55,72>>).path = <<<<1, 2147483647>>>>
       /\ ~Parse(<<109,47>>).ok /\ ~Parse(<<47>>).ok /\ ~Parse(<<109,109>>).ok
=============================================================================
