--------------------------- MODULE Bip32PathTrace ---------------------------
(* Leg T for C10: recorded calls of pkg/bip32path judged by Bip32Path.      *)
EXTENDS Bip32Path, Json

Trace == ndJsonDeserialize("trace.ndjson")
VARIABLES l, bad
vars == <<l, bad>>

Conforms(e) ==
  CASE e.op = "path.Parse" ->
         LET p == Parse(e.in.s)
         IN /\ e.out.panic = ""
            /\ e.out.ok = p.ok
            /\ p.ok => e.out.path = p.path
            /\ e.out.unmarshal_ok = p.ok                 \* UnmarshalText agrees with ParsePath
            /\ p.ok => e.out.unmarshal = p.path
    [] e.op = "path.String" ->
         /\ e.out.panic = ""
         /\ e.out.str = PathString(e.in.path)
         /\ e.out.marshal = e.out.str
         /\ e.out.reparse_ok /\ e.out.reparse = e.in.path     \* the printed form parses back
    [] OTHER -> FALSE

Init == l = 1 /\ bad = <<>>
Next == /\ l <= Len(Trace)
        /\ l' = l + 1
        /\ bad' = IF Conforms(Trace[l]) THEN bad ELSE Append(bad, l)
Spec == Init /\ [][Next]_vars
Done == (l = Len(Trace) + 1) => PrintT(<<"VERIF-RESULT", Len(Trace), bad>>)
=============================================================================
