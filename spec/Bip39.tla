-------------------------------- MODULE Bip39 --------------------------------
(***************************************************************************)
(* BIP-39 (pkg/bip39).  The bit-level codec is parameterised so that the   *)
(* very same operators are model-checked at a scaled size and used to      *)
(* judge traces at real size:                                              *)
(*   wb     bits per word index (real 11)                                  *)
(*   csdiv  ENT / CS (real 32)                                             *)
(* The hash (real: SHA-256) is supplied by the caller as the byte string   *)
(* H(entropy) (a logged fact at real size, a toy function in the model).   *)
(***************************************************************************)
EXTENDS VLib

\* word indices of an entropy (bytes) given the bytes of its hash
EncodeIdx(ent, hashBytes, wb, csdiv) ==
  LET eb == BytesToBits(ent)
      cs == Len(eb) \div csdiv
      all == eb \o SubSeq(BytesToBits(hashBytes), 1, cs)
  IN [k \in 1..(Len(all) \div wb) |-> ValBE(SubSeq(all, (k - 1) * wb + 1, k * wb))]

\* the entropy a sequence of word indices carries (before any checksum test)
CandidateEntropy(idx, wb, csdiv) ==
  LET bits == FlattenFixed([k \in DOMAIN idx |-> BitsBE(idx[k], wb)], wb)
      entBits == (Len(bits) * csdiv) \div (csdiv + 1)
  IN BitsToBytes(SubSeq(bits, 1, entBits))

ChecksumBits(idx, wb, csdiv) ==
  LET bits == FlattenFixed([k \in DOMAIN idx |-> BitsBE(idx[k], wb)], wb)
      entBits == (Len(bits) * csdiv) \div (csdiv + 1)
  IN SubSeq(bits, entBits + 1, Len(bits))

\* does the embedded checksum match, given the hash bytes of the candidate
Bip39ChecksumOK(idx, hashBytes, wb, csdiv) ==
  LET c == ChecksumBits(idx, wb, csdiv) IN c = SubSeq(BytesToBits(hashBytes), 1, Len(c))

-----------------------------------------------------------------------------
\* real-size parameters
WB == 11
CSDIV == 32
ValidEntropyLen(n) == n \in {16, 20, 24, 28, 32, 36, 40, 44, 48, 52, 56, 60, 64}
ValidWordCount(n) == n \in {12, 15, 18, 21, 24, 27, 30, 33, 36, 39, 42, 45, 48}

-----------------------------------------------------------------------------
\* sentence parsing (C09): white space as Go's unicode.IsSpace, at UTF-8 level
\* length of the white-space character starting at position i of s, 0 if none
SpaceLen(s, i) ==
  LET n == Len(s)
      b(k) == IF i + k <= n THEN s[i + k] ELSE -1
  IN IF s[i] \in {9, 10, 11, 12, 13, 32} THEN 1
     ELSE IF s[i] = 194 /\ b(1) \in {133, 160} THEN 2                          \* U+0085, U+00A0
     ELSE IF s[i] = 225 /\ b(1) = 154 /\ b(2) = 128 THEN 3                      \* U+1680
     ELSE IF s[i] = 226 /\ b(1) = 128 /\ b(2) \in (128..138) \cup {168, 169, 175} THEN 3   \* U+2000-200A, 2028, 2029, 202F
     ELSE IF s[i] = 226 /\ b(1) = 129 /\ b(2) = 159 THEN 3                      \* U+205F
     ELSE IF s[i] = 227 /\ b(1) = 128 /\ b(2) = 128 THEN 3                      \* U+3000
     ELSE 0

\* fields of a UTF-8 byte string: maximal runs of non-space characters
FieldsStep(st, i) ==          \* st = [fields, cur, skip]; fold over positions
  IF st.skip > 0 THEN [st EXCEPT !.skip = st.skip - 1]
  ELSE LET sl == SpaceLen(st.s, i)
       IN IF sl > 0
          THEN [st EXCEPT !.fields = IF st.cur = <<>> THEN st.fields ELSE Append(st.fields, st.cur),
                          !.cur = <<>>, !.skip = sl - 1]
          ELSE [st EXCEPT !.cur = Append(st.cur, st.s[i])]
Fields(s) ==
  LET fin == FoldLeft(FieldsStep, [s |-> s, fields |-> <<>>, cur |-> <<>>, skip |-> 0], [i \in DOMAIN s |-> i])
  IN IF fin.cur = <<>> THEN fin.fields ELSE Append(fin.fields, fin.cur)

JoinWords(ws) ==
  FoldLeft(LAMBDA acc, w : IF acc = <<>> THEN w ELSE acc \o <<32>> \o w, <<>>, ws)
=============================================================================
