SPECIFICATION Spec
