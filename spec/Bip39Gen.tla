------------------------------- MODULE Bip39Gen -------------------------------
(* Leg G for C03: boundary entropies chosen from the specification's case     *)
(* split (every length x zero/one patterns, leading and trailing zero bytes,  *)
(* one-hot bytes) and invalid sizes; the driver chains decode after encode.   *)
EXTENDS Bip39, Json
VARIABLE x
Lens == {16, 20, 24, 28, 32, 36, 40, 44, 48, 52, 56, 60, 64}
Mix(i) == ((i * 37 + 11) % 255) + 1
Pat(n, kd, k) ==
  [i \in 1..n |-> IF kd = "zero" THEN 0
                  ELSE IF kd = "one" THEN 255
                  ELSE IF kd = "lead" THEN (IF i <= k THEN 0 ELSE Mix(i))
                  ELSE IF kd = "trail" THEN (IF i > n - k THEN 0 ELSE Mix(i))
                  ELSE IF kd = "hotfirst" THEN (IF i = 1 THEN k ELSE 0)
                  ELSE IF kd = "hotlast" THEN (IF i = n THEN k ELSE 0)
                  ELSE ((i * 101 + k) % 256)]
E(ent, lang) == [op |-> "bip39.EntropyToMnemonic", in |-> [entropy |-> ent, lang |-> lang, chain |-> TRUE]]
Ents == { Pat(n, kd, k) : n \in Lens, kd \in {"zero", "one"}, k \in {0} }
        \cup { Pat(n, kd, k) : n \in Lens, kd \in {"lead", "trail"}, k \in 1..3 }
        \cup { Pat(n, kd, k) : n \in {16, 32, 64}, kd \in {"hotfirst", "hotlast"}, k \in {1, 128} }
        \cup { Pat(n, "mix", k) : n \in Lens, k \in {0, 1} }
        \cup { Pat(n, "mix", 3) : n \in {0, 1, 4, 12, 15, 17, 18, 19, 63, 65, 68, 128} }
Vectors == SetToSeq({E(e, "english") : e \in Ents}) \o SetToSeq({E(e, "japanese") : e \in Ents})
ASSUME ndJsonSerialize("gen.ndjson", Vectors)
ASSUME PrintT(<<"VERIF-GEN", Len(Vectors)>>)
Init == x = 0
Next == UNCHANGED x
Spec == Init /\ [][Next]_x
=============================================================================
