SPECIFICATION Spec
INVARIANTS EntropyRoundTrip AcceptedReencodes FieldsProps
CHECK_DEADLOCK FALSE
