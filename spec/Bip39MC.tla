------------------------------- MODULE Bip39MC -------------------------------
(***************************************************************************)
(* Leg M for C03/C09 at scaled parameters: 5-bit word indices, CS = ENT/4, *)
(* entropies of 1 and 2 bytes (ENT = 8, 16 -> 2, 4 words), a toy hash.     *)
(* Every entropy and every index sequence of those lengths is a state.     *)
(***************************************************************************)
EXTENDS Bip39
VARIABLES kind, val
vars == <<kind, val>>
wb == 5
cd == 4
\* toy hash: two bytes depending on all entropy bytes and the length
Toy(ent) == LET a == (FoldLeft(LAMBDA x, y : (x * 31 + y + 7) % 256, Len(ent), ent)) IN <<a, (a * 5 + 3) % 256>>

Init == \/ kind = "ent" /\ val \in [1..1 -> Byte] \cup [1..2 -> Byte]
        \/ kind = "idx" /\ val \in [1..2 -> 0..31] \cup [1..4 -> {0, 1, 7, 16, 31}]
        \/ kind = "str" /\ val = <<>>
\* C09 toy alphabet for the parser: a=97, space=32, tab=9, NBSP bytes (194,160), U+2028 bytes (226,128,168), stray 226
StrAlpha == {<<97>>, <<32>>, <<9>>, <<194, 160>>, <<226, 128, 168>>, <<226>>, <<98>>}
Next == /\ kind = "str" /\ Len(val) < 6
        /\ \E c \in StrAlpha : val' = val \o c
        /\ UNCHANGED kind
Spec == Init /\ [][Next]_vars

Accept(idx) == Bip39ChecksumOK(idx, Toy(CandidateEntropy(idx, wb, cd)), wb, cd)

EntropyRoundTrip ==
  kind = "ent" =>
    LET idx == EncodeIdx(val, Toy(val), wb, cd)
    IN /\ Len(idx) = 2 * Len(val)
       /\ \A k \in DOMAIN idx : idx[k] \in 0..31
       /\ CandidateEntropy(idx, wb, cd) = val            \* also with leading / trailing zero bytes
       /\ Accept(idx)
AcceptedReencodes ==
  kind = "idx" =>
    LET e == CandidateEntropy(val, wb, cd)
    IN /\ Len(e) = Len(val) \div 2
       /\ Accept(val) <=> EncodeIdx(e, Toy(e), wb, cd) = val
FieldsProps ==
  kind = "str" =>
    LET f == Fields(val)
    IN /\ \A k \in DOMAIN f : f[k] # <<>> /\ \A i \in DOMAIN f[k] : SpaceLen(f[k], i) = 0
       /\ Fields(JoinWords(f)) = f                               \* parse(print(parse s)) = parse s
       /\ Fields(<<32>> \o val \o <<9, 32>>) = f                 \* amount of surrounding space is irrelevant
=============================================================================
