------------------------------ MODULE Bip39Trace ------------------------------
(***************************************************************************)
(* Leg T/G for C03 and C09.  State of the specification: the selected word *)
(* list wl (set by SetWordList events, which log Word(0..2047)).  SHA-256, *)
(* NFKD and PBKDF2 values are logged facts; WHICH arguments they must be   *)
(* about is dictated here (a fact about anything else is rejected).        *)
(***************************************************************************)
EXTENDS Bip39, Json

Trace == ndJsonDeserialize("trace.ndjson")
VARIABLES l, bad, wl, lang, registry
vars == <<l, bad, wl, lang, registry>>
\* registry: language key -> word list registered at run time (the two built-in lists are always registered)

Known(w) == \E i \in DOMAIN wl : wl[i] = w
IndexOf(w) == (CHOOSE i \in DOMAIN wl : wl[i] = w) - 1
LexLT(a, b) == \/ \E k \in 1..VMin(Len(a), Len(b)) : a[k] < b[k] /\ \A j \in 1..(k-1) : a[j] = b[j]
               \/ Len(a) < Len(b) /\ \A j \in 1..Len(a) : a[j] = b[j]
Prefix4(w) == SubSeq(w, 1, VMin(4, Len(w)))

SetWordListConforms(e) ==
  IF e.in.lang \in DOMAIN registry
  THEN e.out.ok /\ e.out.words = registry[e.in.lang]          \* a registered custom list: exactly the registered words
  ELSE IF e.in.lang \in {"english", "japanese"}
  THEN /\ e.out.ok /\ Len(e.out.words) = 2048
       /\ Cardinality(RangeOf(e.out.words)) = 2048                       \* distinct
       /\ \A i \in 1..2048 : e.out.words[i] # <<>> /\ \A k \in DOMAIN e.out.words[i] : SpaceLen(e.out.words[i], k) = 0
       /\ e.in.lang = "english" =>
            /\ \A i \in 1..2047 : LexLT(e.out.words[i], e.out.words[i+1])  \* sorted
            /\ Cardinality({Prefix4(e.out.words[i]) : i \in 1..2048}) = 2048 \* unique 4-letter prefixes
  ELSE ~e.out.ok

\* mnemonic validity and entropy per the specification; r.fact = the entropy whose SHA-256 is needed
Decoded(words) ==
  IF ~ValidWordCount(Len(words)) \/ \E k \in DOMAIN words : ~Known(words[k])
  THEN [wellFormed |-> FALSE, idx |-> <<>>, cand |-> <<>>]
  ELSE LET idx == [k \in DOMAIN words |-> IndexOf(words[k])]
       IN [wellFormed |-> TRUE, idx |-> idx, cand |-> CandidateEntropy(idx, WB, CSDIV)]

ValidMnemonic(words, facts) ==      \* TRUE / FALSE / "nofact"
  LET d == Decoded(words)
  IN IF ~d.wellFormed THEN "false"
     ELSE IF facts.ent # d.cand THEN "nofact"
     ELSE IF Bip39ChecksumOK(d.idx, facts.sha, WB, CSDIV) THEN "true" ELSE "false"

AsciiOnly(s) == \A i \in DOMAIN s : s[i] < 128
Mnemonic8 == <<109, 110, 101, 109, 111, 110, 105, 99>>      \* "mnemonic"

Conforms(e) ==
  CASE e.op = "bip39.SetWordList" -> SetWordListConforms(e)
    [] e.op = "bip39.par" -> e.out.panic = ""        \* concurrent calls answer as they do alone (compared in the driver, child process)
    [] e.op = "bip39.RegisterWordList" -> e.out.panic = "" /\ Len(e.in.words) = 2048
    [] e.op = "bip39.EntropyToMnemonic" ->
         /\ e.out.panic = "" /\ wl # <<>>
         /\ IF ValidEntropyLen(Len(e.in.entropy))
            THEN /\ e.facts.ent = e.in.entropy
                 /\ e.out.ok
                 /\ e.out.words = [k \in 1..((Len(e.in.entropy) * 3) \div 4) |->
                                     wl[EncodeIdx(e.in.entropy, e.facts.sha, WB, CSDIV)[k] + 1]]
            ELSE ~e.out.ok /\ e.out.err = "size"            \* what accompanies the error is not part of C03
    [] e.op = "bip39.MnemonicToEntropy" ->
         LET d == Decoded(e.in.words) v == ValidMnemonic(e.in.words, e.facts)
         IN /\ e.out.panic = "" /\ wl # <<>>
            /\ v # "nofact"
            /\ e.out.ok = (v = "true")
            /\ v = "true" => e.out.entropy = d.cand
            /\ v = "false" => /\ e.out.err = (IF d.wellFormed THEN "checksum" ELSE "mnemonic")
    [] e.op = "bip39.MnemonicToSeed" ->
         LET v == ValidMnemonic(e.in.words, e.facts)
         IN /\ e.out.panic = "" /\ wl # <<>>
            /\ v # "nofact"
            /\ v = "false" => ~e.out.ok /\ e.out.seed = <<>>
            /\ e.out.pass_in_domain => e.out.ok = (v = "true")       \* (not a Unicode string: outside C09)
            /\ (v = "true" /\ e.out.pass_in_domain) =>
                             /\ e.facts.nfkd_in = e.in.pass
                             /\ AsciiOnly(e.in.pass) => e.facts.nfkd = e.in.pass
                             /\ e.facts.pbkdf_pw = JoinWords(e.in.words)
                             /\ e.facts.pbkdf_salt = Mnemonic8 \o e.facts.nfkd
                             /\ Len(e.facts.pbkdf_out) = 64
                             /\ e.out.seed = e.facts.pbkdf_out
    [] e.op = "bip39.ParseMnemonic" ->
         /\ e.out.panic = ""
         /\ e.facts.nfkd_in = e.in.s
         /\ AsciiOnly(e.in.s) => e.facts.nfkd = e.in.s
         /\ e.out.words = Fields(e.facts.nfkd)
         /\ e.out.reparse = e.out.words                    \* parse(print(parse s)) = parse s
         /\ e.out.unmarshal = e.out.words
         /\ e.out.printed = JoinWords(e.out.words)
    [] OTHER -> FALSE

Init == l = 1 /\ bad = <<>> /\ wl = <<>> /\ lang = "" /\ registry = <<>>
Next == /\ l <= Len(Trace)
        /\ l' = l + 1
        /\ LET e == Trace[l]
           IN /\ bad' = IF Conforms(e) THEN bad ELSE Append(bad, l)
              /\ IF e.op = "bip39.SetWordList" /\ e.out.ok
                 THEN wl' = e.out.words /\ lang' = e.in.lang
                 ELSE UNCHANGED <<wl, lang>>
              /\ IF e.op = "bip39.RegisterWordList"
                 THEN registry' = (e.in.lang :> e.in.words) @@ registry          \* registration replaces an earlier one
                 ELSE UNCHANGED registry
Spec == Init /\ [][Next]_vars
Done == (l = Len(Trace) + 1) => PrintT(<<"VERIF-RESULT", Len(Trace), bad>>)
=============================================================================
