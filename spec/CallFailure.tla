----------------------------- MODULE CallFailure -----------------------------
(***************************************************************************)
(* Companion of CallHistory: what a REJECTED call may leave behind.        *)
(*                                                                         *)
(* The decision procedures of this library (Bech32 Decode, address and     *)
(* path parsing, mnemonic decoding, Verify, the codecs) work through their *)
(* input in stages and return an error from the stage that finds the       *)
(* fault.  An implementation that keeps working memory between calls (a    *)
(* pooled accumulator, a shared hash state, scratch buffers) must give it  *)
(* back in the same condition on every return path.  The properties say    *)
(* "for every input": also for the input that follows a rejected one.      *)
(*                                                                         *)
(* Model: a call absorbs the chunks 1..S of its input into a scratch       *)
(* accumulator taken from a pool; at the last stage a nested helper (the   *)
(* checksum computation, say) takes a scratch object of its own.  A valid  *)
(* input v answers F(v) = its S chunks.  A rejected input Rej(s) fails at  *)
(* stage s: chunks 1..s-1 have been absorbed when the error return is      *)
(* taken.  Implementations:                                                *)
(*   honest        - resets the scratch when it takes it, gives it back    *)
(*                   exactly once on every path;                           *)
(*   dirtyOnError  - resets the scratch at the END of a successful call    *)
(*                   ("ready for the next one"), not when taking it: the   *)
(*                   error return gives back a scratch holding the chunks  *)
(*                   of the rejected input;                                *)
(*   doubleRelease - resets when taking, but the error return of stage     *)
(*                   Stage2 gives the scratch back twice (a deferred and   *)
(*                   an explicit release): the pool then hands the same    *)
(*                   object to a call and to its nested helper.            *)
(* Correctness: every answer is F(v) / "reject", whatever came before.     *)
(*                                                                         *)
(* TLC: honest is correct for all histories up to Depth; dirtyOnError is   *)
(* exposed by <<Rej(s), v>> exactly for s >= 2 and doubleRelease by        *)
(* <<Rej(Stage2), v>> - so a history set exposes them only if it contains  *)
(* EVERY kind of rejection followed by valid calls.  CallFailureGen writes *)
(* that set; tools/vlib.py call_histories instantiates it with one         *)
(* recorded rejected input per kind of rejection seen in the traces.       *)
(***************************************************************************)
EXTENDS Integers, Sequences, FiniteSets, TLC

CONSTANTS S,           \* number of stages
          Stage2,      \* the stage whose error return releases twice (doubleRelease)
          Impl,        \* "honest" | "dirtyOnError" | "doubleRelease"
          Depth

Valid == {1, 2}
Inputs == [kind : {"v"}, id : Valid] \cup [kind : {"r"}, id : 1..S]       \* r.id = the stage that rejects
Chunk(v, s) == 10 * v + s
F(v) == [s \in 1..S |-> Chunk(v, s)]
Reject == <<-1>>                       \* the answer "error"

VARIABLES pool,        \* free list of scratch ids (a sequence; the same id may be in it twice after a double release)
          scratch,     \* id -> accumulated chunks
          last,        \* <<input, answer>> of the latest call (Reject or a sequence of chunks)
          n
vars == <<pool, scratch, last, n>>

Init == pool = <<1, 2>> /\ scratch = [i \in 1..2 |-> <<>>] /\ last = <<[kind |-> "v", id |-> 1], F(1)>> /\ n = 0

ResetAtTake == Impl \in {"honest", "doubleRelease"}

\* one call, sequentially: take a scratch, absorb, (helper), answer, give back
Call(inp) ==
  /\ n < Depth /\ n' = n + 1
  /\ LET a == Head(pool)                                            \* the scratch of this call
         p1 == Tail(pool)
         acc0 == IF ResetAtTake THEN <<>> ELSE scratch[a]
         upto == IF inp.kind = "v" THEN S ELSE inp.id - 1           \* chunks absorbed before the return
         who == IF inp.kind = "v" THEN inp.id ELSE 1                \* a rejected input carries the chunks of input 1 up to its fault
         acc1 == acc0 \o [s \in 1..upto |-> Chunk(who, s)]
     IN IF inp.kind = "r"
        THEN /\ last' = <<inp, Reject>>
             /\ scratch' = [scratch EXCEPT ![a] = acc1]              \* given back as it is
             /\ pool' = IF Impl = "doubleRelease" /\ inp.id = Stage2 THEN <<a, a>> \o p1 ELSE <<a>> \o p1
        ELSE \* the nested helper takes the next scratch of the pool, resets it and leaves its own data there
             LET b == Head(p1)
                 accAfterHelper == IF b = a THEN <<99>> ELSE acc1      \* the same object: the helper has overwritten this call's chunks
             IN /\ last' = <<inp, accAfterHelper>>
                /\ scratch' = [scratch EXCEPT ![a] = IF Impl = "dirtyOnError" THEN <<>> ELSE accAfterHelper,   \* "ready for the next one"
                                              ![b] = IF b = a THEN @ ELSE <<>>]
                /\ pool' = <<a>> \o p1                                \* helper's scratch and this call's scratch given back once each (b stays where it was)

Next == \E inp \in Inputs : Call(inp)
Spec == Init /\ [][Next]_vars

Correct == last[2] = (IF last[1].kind = "v" THEN F(last[1].id) ELSE Reject)
=============================================================================
