SPECIFICATION Spec
