--------------------------- MODULE CallFailureGen ---------------------------
(***************************************************************************)
(* Leg G of the failure-history model (module CallFailure): all histories  *)
(* of two or three calls over two valid inputs (up to renaming) and ONE    *)
(* kind of rejection r that contain a rejected call followed by a valid    *)
(* one and end with a valid call.  CallFailure's flawed implementations    *)
(* are exposed within this set provided r ranges over every kind of        *)
(* rejection (TLC: dirtyOnError needs a fault at stage >= 2, doubleRelease *)
(* the fault of one particular stage).  The drivers instantiate r with one *)
(* recorded rejected input per kind of rejection seen, v1 / v2 with        *)
(* recorded accepted inputs.                                               *)
(***************************************************************************)
EXTENDS Integers, Sequences, FiniteSets, TLC, Json, SequencesExt
VARIABLE x
Sym == {"r", "v1", "v2"}
Seqs == UNION {[1..k -> Sym] : k \in 2..3}
FirstValid(h) == LET vs == {k \in DOMAIN h : h[k] # "r"} IN IF vs = {} THEN 0 ELSE CHOOSE k \in vs : \A j \in vs : k <= j
Canonical(h) == FirstValid(h) = 0 \/ h[FirstValid(h)] = "v1"                  \* up to renaming of the valid inputs
Wanted(h) == /\ h[Len(h)] # "r" /\ Canonical(h)
             /\ \E k \in DOMAIN h : h[k] = "r"
Histories == SetToSeq({[calls |-> h] : h \in {g \in Seqs : Wanted(g)}})
ASSUME ndJsonSerialize("gen.ndjson", Histories)
ASSUME PrintT(<<"VERIF-GEN", Len(Histories)>>)
Init == x = 0
Next == UNCHANGED x
Spec == Init /\ [][Next]_x
=============================================================================
