INIT Init
NEXT Next
CONSTANTS
  S = 3
  Stage2 = 2
  Impl = "honest"
  Depth = 3
INVARIANT Correct
CHECK_DEADLOCK FALSE
