----------------------------- MODULE CallHistory -----------------------------
(***************************************************************************)
(* Every property of this library that says "for every input, F returns    *)
(* ..." also quantifies over what the CALLER did before and does after the *)
(* call.  A Go caller owns its buffers: it reuses the buffer it passed in  *)
(* for the next input, it overwrites a result it was given (wiping a seed),*)
(* or it keeps a result while it goes on calling.  This module models one  *)
(* pure function F behind an API with that caller, and four               *)
(* implementations: the honest one and three flawed ones that are typical  *)
(* "optimisations":                                                        *)
(*   memoByRef  - remembers the last argument BY REFERENCE (the caller's   *)
(*                buffer) with its result; a hit is decided by comparing   *)
(*                the remembered slice with the argument: the same memory  *)
(*   cacheEntry - caches results by argument VALUE and hands out the cache *)
(*                entry itself                                             *)
(*   pool       - builds the result in one recycled buffer and returns it  *)
(*                                                                         *)
(* Memory is a set of cells; the caller's single input buffer is `arena`.  *)
(* A behaviour is a sequence of calls Call(i, mode): the caller writes     *)
(* input i into its buffer, calls, and then either overwrites the result   *)
(* (mode "own") or keeps it (mode "keep").  Correctness: every answer is   *)
(* F(i) at the moment it is returned, and every kept result still holds    *)
(* what it held when it was returned.                                      *)
(*                                                                         *)
(* TLC (CallHistoryMC.cfg and the three CallHistoryFlaw*.cfg) shows: the   *)
(* honest implementation is correct for all histories up to Depth, and     *)
(* each flawed one is exposed by some history of at most 3 calls over 2    *)
(* inputs.  CallHistoryGen therefore writes ALL histories of 3 calls over  *)
(* 3 inputs x {own, keep}; the drivers replay them on the real functions   *)
(* (tools/vlib.py call_histories), each call an ordinary event judged by   *)
(* the property's own trace specification.                                 *)
(***************************************************************************)
EXTENDS Integers, Sequences, FiniteSets, TLC

CONSTANTS Inputs,      \* e.g. 1..3
          Impl,        \* "honest" | "memoByRef" | "cacheEntry" | "pool"
          Depth

Modes == {"own", "keep"}
Garbage == 0                         \* content of a cell the caller has overwritten
F(i) == 100 + i                      \* the result value for input i (any injective map)

VARIABLES arena,       \* value in the caller's input buffer
          mem,         \* cell -> content (a sequence; cells are allocated by appending)
          kept,        \* set of <<cell, expected content>> the caller still holds
          memoVal,     \* memoByRef: 0 or the cell remembered with the last argument (the argument itself is `arena`: by reference)
          cache,       \* cacheEntry: input -> cell (0 = none)
          poolCell,    \* pool: 0 or the recycled cell
          last,        \* <<input, answer observed at return>> of the latest call
          n
vars == <<arena, mem, kept, memoVal, cache, poolCell, last, n>>

Init == /\ arena = 0 /\ mem = <<>> /\ kept = {} /\ memoVal = 0
        /\ cache = [i \in Inputs |-> 0] /\ poolCell = 0 /\ last = <<0, F(0)>> /\ n = 0

\* the cell the implementation returns and the memory after it has produced the result
Answer(i) ==
  CASE Impl = "honest" -> [cell |-> Len(mem) + 1, mem |-> Append(mem, F(i)), memo |-> 0, cache |-> cache, pool |-> 0]
    [] Impl = "memoByRef" ->
         \* "is the remembered argument equal to this argument?" - both are the caller's buffer, so: yes, whenever something is remembered
         IF memoVal # 0 THEN [cell |-> memoVal, mem |-> mem, memo |-> memoVal, cache |-> cache, pool |-> 0]
         ELSE [cell |-> Len(mem) + 1, mem |-> Append(mem, F(i)), memo |-> Len(mem) + 1, cache |-> cache, pool |-> 0]
    [] Impl = "cacheEntry" ->
         IF cache[i] # 0 THEN [cell |-> cache[i], mem |-> mem, memo |-> 0, cache |-> cache, pool |-> 0]
         ELSE [cell |-> Len(mem) + 1, mem |-> Append(mem, F(i)), memo |-> 0, cache |-> [cache EXCEPT ![i] = Len(mem) + 1], pool |-> 0]
    [] Impl = "pool" ->
         IF poolCell # 0 THEN [cell |-> poolCell, mem |-> [mem EXCEPT ![poolCell] = F(i)], memo |-> 0, cache |-> cache, pool |-> poolCell]
         ELSE [cell |-> Len(mem) + 1, mem |-> Append(mem, F(i)), memo |-> 0, cache |-> cache, pool |-> Len(mem) + 1]

Call(i, mode) ==
  /\ n < Depth
  /\ LET a == Answer(i)
         seen == a.mem[a.cell]                       \* what the caller reads from the result
     IN /\ arena' = i
        /\ last' = <<i, seen>>
        /\ memoVal' = a.memo /\ cache' = a.cache /\ poolCell' = a.pool
        /\ IF mode = "own"
           THEN /\ mem' = [a.mem EXCEPT ![a.cell] = Garbage]      \* the caller overwrites what it was given
                /\ kept' = kept
           ELSE /\ mem' = a.mem
                /\ kept' = kept \cup {<<a.cell, seen>>}
  /\ n' = n + 1

Next == \E i \in Inputs, m \in Modes : Call(i, m)
Spec == Init /\ [][Next]_vars

\* every answer is the function of the argument's value at the time of the call
AnswerCorrect == last[2] = F(last[1])
\* a result the caller keeps is not changed behind its back
KeptIntact == \A k \in kept : mem[k[1]] = k[2]
Correct == AnswerCorrect /\ KeptIntact
=============================================================================
