SPECIFICATION Spec
