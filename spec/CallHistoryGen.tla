--------------------------- MODULE CallHistoryGen ---------------------------
(***************************************************************************)
(* Leg G of the caller-history model (module CallHistory): all histories   *)
(* of three calls over up to three inputs, up to renaming of the inputs    *)
(* (the first call uses input 1, a later call uses an input already used   *)
(* or the next new one), each call in mode "own" (the caller overwrites    *)
(* the result) or "keep" (it keeps it).  CallHistory's flawed              *)
(* implementations are all exposed within this set (TLC, Depth = 3).  The  *)
(* drivers replay every history on the real functions with three concrete  *)
(* inputs of one shape, so that they share the caller's buffer.            *)
(***************************************************************************)
EXTENDS Integers, Sequences, FiniteSets, TLC, Json, SequencesExt
VARIABLE x
Modes == {"own", "keep"}
VMax2(a, b) == IF a > b THEN a ELSE b
Shapes == {h \in [1..3 -> 1..3] : h[1] = 1 /\ h[2] <= 2 /\ h[3] <= VMax2(h[1], h[2]) + 1}
Histories ==
  SetToSeq({[calls |-> [k \in 1..3 |-> [i |-> h[k], mode |-> m[k]]]] : h \in Shapes, m \in [1..3 -> Modes]})
ASSUME ndJsonSerialize("gen.ndjson", Histories)
ASSUME PrintT(<<"VERIF-GEN", Len(Histories)>>)
Init == x = 0
Next == UNCHANGED x
Spec == Init /\ [][Next]_x
=============================================================================
