SPECIFICATION Spec
CONSTANTS
  Inputs = {1, 2}
  Impl = "cacheEntry"
  Depth = 3
INVARIANT Correct
CHECK_DEADLOCK FALSE
