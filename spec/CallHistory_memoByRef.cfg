SPECIFICATION Spec
CONSTANTS
  Inputs = {1, 2}
  Impl = "memoByRef"
  Depth = 3
INVARIANT Correct
CHECK_DEADLOCK FALSE
