SPECIFICATION Spec
CONSTANTS
  Inputs = {1, 2}
  Impl = "pool"
  Depth = 3
INVARIANT Correct
CHECK_DEADLOCK FALSE
