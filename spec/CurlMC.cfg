SPECIFICATION Spec
CONSTANTS
  HL = 1
  W = 2
  RND = 2
  Depth = 4
VIEW View
INVARIANTS OutputsAgree StateRefines DirAgrees
CHECK_DEADLOCK FALSE
