------------------------------- MODULE CurlMC -------------------------------
(***************************************************************************)
(* Leg M for C20 (definition level) and C06 (bit-sliced sponge refines     *)
(* independent per-lane sponges) at a small size: hash length HL trits     *)
(* (state n = 3*HL), W lanes, RND rounds.                                   *)
(*                                                                         *)
(* The bit-sliced machine follows pkg/curl/curl.go: the state is n cells   *)
(* per lane; Absorb resets the rate of ALL lanes to "all ones" (trit 0),   *)
(* `in` only clears bits of the lanes in the batch, then one transform;    *)
(* Squeeze transforms before every block except the first after absorbing; *)
(* Reset, Clone; calls with a bad batch size / length are rejected without *)
(* touching the state.  The reference keeps, per lane, the list of         *)
(* absorbed blocks and the number of squeezed blocks, and evaluates the    *)
(* single-lane sponge of module CurlP81.                                   *)
(***************************************************************************)
EXTENDS CurlP81

CONSTANTS HL, W, RND, Depth
n == 3 * HL

VARIABLES inst,      \* implementation: inst[k] = [cells: lane -> n cell codes, dir]      (k in 1..2, or absent)
          ref,       \* reference: ref[k] = [abs: lane -> seq of blocks, sq: lane -> Nat, dir]
          lastOut,   \* outputs of the last squeeze, implementation and reference
          steps,
          last       \* label of the last action <<name, instance, batch>> (only used to export behaviours, leg G of C06)
vars == <<inst, ref, lastOut, steps, last>>

Lanes == 1..W
Blocks == [1..HL -> Trit]
ZeroBlock == [i \in 1..HL |-> 0]
Fresh == [cells |-> [j \in Lanes |-> [i \in 1..n |-> 3]], dir |-> "abs"]
FreshRef == [abs |-> [j \in Lanes |-> <<>>], sq |-> [j \in Lanes |-> 0], dir |-> "abs"]

Init == /\ inst = <<Fresh>> /\ ref = <<FreshRef>> /\ lastOut = <<>> /\ steps = 0 /\ last = <<"init", 0, <<>>>>

\* --- implementation-shaped operations on one instance
ImplAbsorb(c, batch) ==       \* batch: sequence (length 1..W) of blocks, one block each
  LET reset == [j \in Lanes |-> [i \in 1..n |-> IF i <= HL THEN 3 ELSE c.cells[j][i]]]
      \* `in`: s > 0 clears l, s < 0 clears h  ==  cell AND Enc(s)
      filled == [j \in Lanes |-> [i \in 1..n |->
                   IF i <= HL /\ j <= Len(batch)
                   THEN LET e == EncCell(batch[j][i]) IN (reset[j][i] % 2) * (e % 2) + 2 * ((reset[j][i] \div 2) * (e \div 2))
                   ELSE reset[j][i]]]
  IN [c EXCEPT !.cells = [j \in Lanes |-> TransformC(filled[j], n, RND)]]

ImplSqueeze(c) ==             \* one block; returns <<new instance, outputs per lane>>
  LET cc == IF c.dir = "sq" THEN [c EXCEPT !.cells = [j \in Lanes |-> TransformC(c.cells[j], n, RND)]] ELSE c
      c2 == [cc EXCEPT !.dir = "sq"]
  IN <<c2, [j \in Lanes |-> [i \in 1..HL |-> DecCell(c2.cells[j][i])]]>>

\* --- reference
RefAbsorb(r, batch) ==
  [r EXCEPT !.abs = [j \in Lanes |-> Append(r.abs[j], IF j <= Len(batch) THEN batch[j] ELSE ZeroBlock)]]
RefSqueeze(r) ==
  LET r2 == [r EXCEPT !.sq = [j \in Lanes |-> r.sq[j] + 1], !.dir = "sq"]
  IN <<r2, [j \in Lanes |-> SpongeOut(r2.abs[j], r2.sq[j], n, RND)]>>

Absorb(k) == /\ inst[k].dir = "abs"            \* absorbing after squeezing panics in the code: outside the property's domain
             /\ \E bs \in 1..W : \E batch \in [1..bs -> Blocks] :
                  /\ inst' = [inst EXCEPT ![k] = ImplAbsorb(inst[k], batch)]
                  /\ ref' = [ref EXCEPT ![k] = RefAbsorb(ref[k], batch)]
                  /\ last' = <<"absorb", k, batch>>
             /\ lastOut' = <<>>
Squeeze(k) == LET a == ImplSqueeze(inst[k]) b == RefSqueeze(ref[k])
              IN /\ inst' = [inst EXCEPT ![k] = a[1]] /\ ref' = [ref EXCEPT ![k] = b[1]]
                 /\ lastOut' = <<a[2], b[2]>> /\ last' = <<"squeeze", k, <<>>>>
Reset(k) == inst' = [inst EXCEPT ![k] = Fresh] /\ ref' = [ref EXCEPT ![k] = FreshRef] /\ lastOut' = <<>> /\ last' = <<"reset", k, <<>>>>
Clone == /\ Len(inst) = 1
         /\ inst' = Append(inst, inst[1]) /\ ref' = Append(ref, ref[1]) /\ lastOut' = <<>> /\ last' = <<"clone", 1, <<>>>>
Rejected(k) == UNCHANGED <<inst, ref>> /\ lastOut' = <<>> /\ last' = <<"rejected", k, <<>>>>     \* empty / oversize batch, bad length: nothing changes

Next == /\ steps < Depth /\ steps' = steps + 1
        /\ \/ \E k \in DOMAIN inst : Absorb(k) \/ Squeeze(k) \/ Reset(k) \/ Rejected(k)
           \/ Clone
Spec == Init /\ [][Next]_vars
View == <<inst, ref, lastOut, steps>>          \* `last` only labels transitions

\* every squeeze output of every lane equals the independent single-lane sponge
OutputsAgree == lastOut # <<>> => lastOut[1] = lastOut[2]
\* while absorbing, each lane's cells are exactly the trit state of its own sponge
StateRefines ==
  \A k \in DOMAIN inst : inst[k].dir = "abs" =>
     \A j \in Lanes : [i \in 1..n |-> DecCell(inst[k].cells[j][i])] = AbsorbAll(ref[k].abs[j], n, RND)
                      /\ \A i \in 1..n : inst[k].cells[j][i] # 0
DirAgrees == \A k \in DOMAIN inst : inst[k].dir = ref[k].dir

-----------------------------------------------------------------------------
\* C20, definition level: on the 9 valid cell pairs the bit formula is the truth table;
\* on all 16 combinations it is total with values in 0..3
ASSUME \A a \in Trit, b \in Trit : DecCell(SBoxC[EncCell(a)][EncCell(b)]) = SBoxT(a, b) /\ SBoxC[EncCell(a)][EncCell(b)] # 0
ASSUME \A a \in 0..3, b \in 0..3 : SBoxC[a][b] \in 0..3
\* the index walk visits every cell exactly once per round at real size
ASSUME Cardinality({P(i, 729) : i \in 0..728}) = 729 /\ P(1, 729) = 364 /\ P(2, 729) = 728 /\ P(3, 729) = 363
=============================================================================
