------------------------------- MODULE CurlP81 -------------------------------
(***************************************************************************)
(* Curl-P (pkg/curl): the permutation and the single-lane sponge, written  *)
(* for an arbitrary odd state size n = 3 * hashLen and round count, so     *)
(* that the same operators are model-checked at a small size and evaluated *)
(* by TLC at the real size (n = 729, 81 rounds).                           *)
(*                                                                         *)
(* Trit level:  new[i] = S(old[p(i)], old[p(i+1)]),  p(i) = ((n-1)/2)*i mod n *)
(* Bit level (what the code stores): a cell is a pair <<l, h>> of bits,    *)
(*   0 -> <<1,1>>, 1 -> <<0,1>>, -1 -> <<1,0>>; <<0,0>> is not a trit but  *)
(*   the bit formula is total, and C20 quantifies over such states too.    *)
(* Cells are encoded as integers c = l + 2*h in 0..3 for speed.            *)
(***************************************************************************)
EXTENDS VLib

\* the Curl truth table, indexed by a + 4*b + 5 (entries 3 and 7 unused)
TruthTable == <<1, 0, -1, 2, 1, -1, 0, 2, -1, 1, 0>>
SBoxT(a, b) == TruthTable[a + 4 * b + 5 + 1]

EncCell(t) == CASE t = 0 -> 3 [] t = 1 -> 2 [] t = -1 -> 1       \* l + 2h
DecCell(c) == (c \div 2) - (c % 2)                                 \* h - l (cell 0 reads as 0)

\* bit formula of the code: tmp = aL & (aH ^ bL); l' = ~tmp; h' = (aL ^ bH) | tmp
SBoxBits(aL, aH, bL, bH) ==
  LET x(p, q) == (p + q) % 2
      tmp == aL * x(aH, bL)
      hh == IF x(aL, bH) = 1 \/ tmp = 1 THEN 1 ELSE 0
  IN <<1 - tmp, hh>>
\* as a 4x4 table over cell codes (evaluated once)
SBoxC == [a \in 0..3 |-> [b \in 0..3 |->
            LET r == SBoxBits(a % 2, a \div 2, b % 2, b \div 2) IN r[1] + 2 * r[2]]]

P(i, n) == (((n - 1) \div 2) * i) % n             \* 0-based walk; 364*i mod 729 at real size

RoundC(st, n) == [i \in 1..n |-> SBoxC[st[P(i - 1, n) + 1]][st[P(i, n) + 1]]]
RECURSIVE TransformC(_, _, _)
TransformC(st, n, rounds) == IF rounds = 0 THEN st ELSE TransformC(TLCEval(RoundC(st, n)), n, rounds - 1)

RoundT(st, n) == [i \in 1..n |-> SBoxT(st[P(i - 1, n) + 1], st[P(i, n) + 1])]
RECURSIVE TransformT(_, _, _)
TransformT(st, n, rounds) == IF rounds = 0 THEN st ELSE TransformT(TLCEval(RoundT(st, n)), n, rounds - 1)

-----------------------------------------------------------------------------
\* single-lane sponge over trits.  blocks: sequence of hashLen-trit blocks.
ZeroState(n) == [i \in 1..n |-> 0]
AbsorbBlock(st, blk, n, rounds) ==
  TransformT([i \in 1..n |-> IF i <= Len(blk) THEN blk[i] ELSE st[i]], n, rounds)
AbsorbAll(blocks, n, rounds) ==
  FoldLeft(LAMBDA st, b : AbsorbBlock(st, b, n, rounds), ZeroState(n), blocks)
\* state after absorbing `blocks` and squeezing k >= 1 blocks: the k-th output is its first hashLen trits
RECURSIVE SqueezeState(_, _, _, _)
SqueezeState(st, k, n, rounds) == IF k = 1 THEN st ELSE SqueezeState(TransformT(st, n, rounds), k - 1, n, rounds)
SpongeOut(blocks, k, n, rounds) ==
  SubSeq(SqueezeState(AbsorbAll(blocks, n, rounds), k, n, rounds), 1, n \div 3)

N81 == 729
R81 == 81
=============================================================================
