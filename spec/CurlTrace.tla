------------------------------ MODULE CurlTrace ------------------------------
(***************************************************************************)
(* Leg T for C20 (transform events: TLC evaluates 81 rounds of the bit     *)
(* formula on audited lanes) and C06 (stateful sponge histories).          *)
(*                                                                         *)
(* C06 state: per instance the direction and, per lane, the list of        *)
(* absorbed block keys (0 = an explicit all-zero block; -1 = the lane was  *)
(* outside the batch of that Absorb call: C06 speaks about the lanes of a  *)
(* batch, what an implementation does with the others is left open, so    *)
(* such a lane is out of the domain until the next Reset) and the number   *)
(* of squeezed blocks; obs maps an output term     *)
(* <<absorbed keys, k>> to the fingerprint observed for it.  An event is   *)
(* rejected when a term is observed with two different fingerprints        *)
(* (some lane depended on something else than its own history), when an    *)
(* audited lane differs from the Curl-P-81 sponge evaluated by TLC, or     *)
(* when an error / no-error answer differs from the specification.         *)
(***************************************************************************)
EXTENDS CurlP81, Json

Trace == ndJsonDeserialize("trace.ndjson")
VARIABLES l, bad, pool, insts, obs
vars == <<l, bad, pool, insts, obs>>

MaxBatch == 64
HashLen == 243
FreshInst == [dir |-> "abs", abs |-> [j \in 1..MaxBatch |-> <<>>], sq |-> [j \in 1..MaxBatch |-> 0]]
BlockOf(key) == IF key = 0 THEN [i \in 1..HashLen |-> 0] ELSE pool[key]

\* --- C20
TransformConforms(e) ==
  /\ e.out.panic = "" /\ ~e.out.fault
  /\ e.out.equal_generic                              \* assembly (or portable) build == transformGeneric on all 64 lanes
  /\ \A k \in DOMAIN e.out.incells :
       e.out.outcells[k] = TransformC(e.out.incells[k], N81, R81)

\* --- C06
AbsorbOK(e) == e.in.bad = "" 
ExpectedErr(e) == CASE e.in.bad = "" -> "" [] e.in.bad \in {"batch0", "batch65"} -> "batch" [] OTHER -> "length"

AfterAbsorb(c, lanes, nblocks) ==        \* lanes: per lane the key of each block
  [c EXCEPT !.abs = [j \in 1..MaxBatch |->
       c.abs[j] \o (IF j <= Len(lanes) THEN lanes[j] ELSE [b \in 1..nblocks |-> -1])]]
InDomain(c, j) == \A k \in DOMAIN c.abs[j] : c.abs[j][k] # -1

\* terms produced by squeezing nblocks from lanes 1..nl of instance c
Terms(c, nl, nblocks) == [j \in 1..nl |-> [b \in 1..nblocks |-> <<c.abs[j], c.sq[j] + b>>]]
AfterSqueeze(c, nblocks) ==
  [c EXCEPT !.dir = IF nblocks > 0 THEN "sq" ELSE c.dir,
            !.sq = [j \in 1..MaxBatch |-> c.sq[j] + nblocks]]

NewObs(e, c) ==        \* set of <<term, fp>> observed by this squeeze event
  LET t == Terms(c, e.in.nlanes, e.in.nblocks)
  IN {<<t[j][b], e.out.fp[j][b]>> : j \in {jj \in 1..e.in.nlanes : InDomain(c, jj)}, b \in 1..e.in.nblocks}
Consistent(S) == \A x \in S, y \in S : x[1] = y[1] => x[2] = y[2]
ObsOK(S) == /\ Consistent(S)
            /\ \A x \in S : x[1] \in DOMAIN obs => obs[x[1]] = x[2]

AuditOK(e, c) ==
  \A a \in RangeOf(e.out.audit) :
     LET j == a.lane
         blocks == [k \in DOMAIN c.abs[j] |-> BlockOf(c.abs[j][k])]
     IN InDomain(c, j) => a.trits = FlattenFixed([b \in 1..e.in.nblocks |-> SpongeOut(blocks, c.sq[j] + b, N81, R81)], HashLen)

Conforms(e) ==
  CASE e.op = "curl.transform" -> TransformConforms(e)
    [] e.op = "curl.pool" -> \A k \in DOMAIN e.out.blocks : Len(e.out.blocks[k]) = HashLen
    [] e.op = "curl.first" -> e.out.panic = ""          \* ... also when that is the first use in the process (child processes)
    [] e.op = "curl.par" -> e.out.panic = ""            \* instances used concurrently behave as when used alone (compared in the driver)
    [] e.op = "curl.env" -> e.out.panic = ""            \* the environment writes to mutable state of other packages: no effect on any instance (Apply: UNCHANGED)
    [] e.op = "curl.new" -> e.out.panic = "" /\ e.out.fresh
    [] e.op = "curl.reset" -> e.out.panic = "" /\ e.out.fresh /\ e.in.id \in DOMAIN insts
    [] e.op = "curl.clone" -> e.out.panic = "" /\ e.out.same_state /\ e.in.id \in DOMAIN insts
    [] e.op = "curl.absorb" ->
         /\ e.out.panic = "" /\ e.in.id \in DOMAIN insts
         /\ e.in.bad # "trit" => ((e.out.err = "") <=> (ExpectedErr(e) = ""))     \* which error is reported is not part of C06
         /\ e.in.bad \notin {"", "trit"} => e.out.state_same                    \* rejected calls leave the state untouched
         \* values that are not trits are outside the domain (accepting them is allowed); IF the call is rejected, the state is untouched
         /\ e.in.bad = "trit" => (e.out.err # "" => e.out.state_same)
         /\ e.out.src_unchanged
    [] e.op = "curl.squeeze" ->
         /\ e.out.panic = "" /\ e.in.id \in DOMAIN insts
         /\ (e.out.err = "") <=> (ExpectedErr(e) = "")
         /\ e.in.bad # "" => e.out.state_same
         /\ (e.in.bad = "" /\ e.in.nblocks = 0) => e.out.state_same      \* squeezing nothing changes nothing (AfterSqueeze keeps dir)
         /\ e.in.bad = "" => /\ ObsOK(NewObs(e, insts[e.in.id]))
                             /\ AuditOK(e, insts[e.in.id])
    [] OTHER -> FALSE

Init == l = 1 /\ bad = <<>> /\ pool = <<>> /\ insts = <<>> /\ obs = <<>>

Apply(e) ==
  CASE e.op = "curl.pool" -> pool' = e.out.blocks /\ insts' = <<>> /\ obs' = <<>>       \* a new trace starts
    [] e.op = "curl.new" -> insts' = (e.in.id :> FreshInst) @@ insts /\ UNCHANGED <<pool, obs>>
    [] e.op = "curl.reset" /\ e.in.id \in DOMAIN insts ->
         insts' = [insts EXCEPT ![e.in.id] = FreshInst] /\ UNCHANGED <<pool, obs>>
    [] e.op = "curl.clone" /\ e.in.id \in DOMAIN insts ->
         insts' = (e.in.newid :> insts[e.in.id]) @@ insts /\ UNCHANGED <<pool, obs>>
    [] e.op = "curl.absorb" /\ e.in.id \in DOMAIN insts /\ e.in.bad = "" /\ e.out.err = "" ->
         insts' = [insts EXCEPT ![e.in.id] = AfterAbsorb(insts[e.in.id], e.in.lanes, e.in.nblocks)] /\ UNCHANGED <<pool, obs>>
    [] e.op = "curl.squeeze" /\ e.in.id \in DOMAIN insts /\ e.in.bad = "" /\ e.out.err = "" ->
         /\ insts' = [insts EXCEPT ![e.in.id] = AfterSqueeze(insts[e.in.id], e.in.nblocks)]
         /\ LET S == NewObs(e, insts[e.in.id])
            IN obs' = IF Consistent(S) THEN [t \in {x[1] : x \in S} |-> (CHOOSE x \in S : x[1] = t)[2]] @@ obs ELSE obs
         /\ UNCHANGED pool
    [] OTHER -> UNCHANGED <<pool, insts, obs>>

Next == /\ l <= Len(Trace)
        /\ l' = l + 1
        /\ LET e == Trace[l] IN bad' = (IF Conforms(e) THEN bad ELSE Append(bad, l)) /\ Apply(e)
Spec == Init /\ [][Next]_vars
Done == (l = Len(Trace) + 1) => PrintT(<<"VERIF-RESULT", Len(Trace), bad>>)
=============================================================================
