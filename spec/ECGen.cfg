SPECIFICATION Spec
CONSTANTS
  Primes = {13, 43}
