-------------------------------- MODULE ECGen --------------------------------
(* Leg G for C17/C08: the COMPLETE tables of the toy curves: all pairs of       *)
(* points for Add, all points for Double, all scalars 0..2n+2 in 0..3 byte       *)
(* encodings for ScalarMult / ScalarBaseMult, all (x,y) for IsOnCurve, all       *)
(* (k, d) for the shift.                                                         *)
EXTENDS ECGroup, Json
CONSTANT Primes
VARIABLE x
Pts(p) == Points(ToyCurve(p))
Enc(k) == IF k <= 255 THEN {<<k>>, <<0, k>>, <<0, 0, k>>}          \* big-endian byte strings of k with 0..2 leading zero bytes
          ELSE {<<k \div 256, k % 256>>, <<0, k \div 256, k % 256>>}
Scalars(p) == UNION {Enc(k) : k \in 0..(2 * ToyCurve(p).n + 2)} \cup {<<>>, <<1, 0>>, <<255, 255, 255>>}
Vectors ==
  SetToSeq(UNION {{[op |-> "ecs.Add", in |-> [p |-> p, x1 |-> a[1], y1 |-> a[2], x2 |-> b[1], y2 |-> b[2]]] : a \in Pts(p), b \in Pts(p)} : p \in Primes})
  \o SetToSeq(UNION {{[op |-> "ecs.Double", in |-> [p |-> p, x |-> a[1], y |-> a[2]]] : a \in Pts(p)} : p \in Primes})
  \o SetToSeq(UNION {{[op |-> "ecs.BaseMul", in |-> [p |-> p, k |-> k]] : k \in Scalars(p)} : p \in Primes})
  \o SetToSeq(UNION {{[op |-> "ecs.Mul", in |-> [p |-> p, x |-> a[1], y |-> a[2], k |-> k]] : a \in Pts(p), k \in {<<>>, <<0>>, <<1>>, <<2>>, <<ToyCurve(p).n - 1>>, <<ToyCurve(p).n>>, <<ToyCurve(p).n + 1>>, <<0, 3>>, <<255>>}} : p \in Primes})
  \o SetToSeq(UNION {{[op |-> "ecs.OnCurve", in |-> [p |-> p, x |-> a, y |-> b]] : a \in 0..(p - 1), b \in 0..(p - 1)} : p \in Primes})
  \o SetToSeq(UNION {{[op |-> "shift.s", in |-> [p |-> p, k |-> k, d |-> d]] : k \in 1..(ToyCurve(p).n - 1), d \in UNION {{<<v>>, <<0, v>>} : v \in 0..VMin(255, ToyCurve(p).n + 2)} \cup {<<1, 0>>, <<255>>}} : p \in Primes})
ASSUME ndJsonSerialize("gen.ndjson", Vectors)
ASSUME PrintT(<<"VERIF-GEN", Len(Vectors)>>)
Init == x = 0
Next == UNCHANGED x
Spec == Init /\ [][Next]_x
=============================================================================
