------------------------------- MODULE ECGroup -------------------------------
(***************************************************************************)
(* The group of the curve y^2 = x^3 + b over F_p (secp256k1: b = 7) with   *)
(* the identity written (0,0), as crypto/elliptic prescribes.  Small       *)
(* curves are evaluated with TLC integers (p <= 127: all products < 2^31); *)
(* real-size results are checked through certificates (module ECCert).     *)
(* A curve is a record [p, n, b, gx, gy].                                   *)
(***************************************************************************)
EXTENDS VLib

Id == <<0, 0>>
IsId(P) == P = Id
Mod(a, p) == ((a % p) + p) % p
OnCurve(c, P) == Mod(P[2] * P[2], c.p) = Mod(P[1] * P[1] * P[1] + c.b, c.p)
Valid(c, P) == IsId(P) \/ (P[1] \in 0..(c.p - 1) /\ P[2] \in 0..(c.p - 1) /\ OnCurve(c, P))
Inv(a, p) == CHOOSE i \in 1..(p - 1) : Mod(i * a, p) = 1
Neg(c, P) == IF IsId(P) THEN Id ELSE <<P[1], Mod(0 - P[2], c.p)>>

AddLambda(c, P, Q, lam) ==
  LET x3 == Mod(lam * lam - P[1] - Q[1], c.p)
  IN <<x3, Mod(lam * (P[1] - x3) - P[2], c.p)>>

Add(c, P, Q) ==
  IF IsId(P) THEN Q
  ELSE IF IsId(Q) THEN P
  ELSE IF P[1] = Q[1] /\ Mod(P[2] + Q[2], c.p) = 0 THEN Id                  \* P = -Q (includes 2-torsion)
  ELSE IF P = Q THEN AddLambda(c, P, Q, Mod(3 * P[1] * P[1] * Inv(Mod(2 * P[2], c.p), c.p), c.p))
  ELSE AddLambda(c, P, Q, Mod((Q[2] - P[2]) * Inv(Mod(Q[1] - P[1], c.p), c.p), c.p))
Double(c, P) == Add(c, P, P)

RECURSIVE Mul(_, _, _)
Mul(c, k, P) == IF k = 0 THEN Id ELSE Add(c, Mul(c, k - 1, P), P)
G(c) == <<c.gx, c.gy>>

Points(c) == {Id} \cup {<<x, y>> \in (0..(c.p - 1)) \X (0..(c.p - 1)) : OnCurve(c, <<x, y>>)}

\* toy curves y^2 = x^3 + 7 of prime order (orders probed with the real code, re-checked by TLC in ECGroupMC)
ToyCurve(p) ==
  CASE p = 13 -> [p |-> 13, n |-> 7, b |-> 7, gx |-> 7, gy |-> 5]
    [] p = 43 -> [p |-> 43, n |-> 31, b |-> 7, gx |-> 2, gy |-> 12]
    [] p = 61 -> [p |-> 61, n |-> 61, b |-> 7, gx |-> 2, gy |-> 25]
    [] p = 67 -> [p |-> 67, n |-> 79, b |-> 7, gx |-> 2, gy |-> 22]
    [] p = 79 -> [p |-> 79, n |-> 67, b |-> 7, gx |-> 1, gy |-> 18]
    [] p = 97 -> [p |-> 97, n |-> 79, b |-> 7, gx |-> 1, gy |-> 28]
    [] p = 127 -> [p |-> 127, n |-> 127, b |-> 7, gx |-> 1, gy |-> 32]

\* value of a big-endian byte string (small scalars only)
ScalarOf(bytes) == FoldLeft(LAMBDA a, x : 256 * a + x, 0, bytes)
=============================================================================
