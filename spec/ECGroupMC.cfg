SPECIFICATION Spec
CONSTANTS
  Primes = {13, 43}
INVARIANTS GroupAxioms
CHECK_DEADLOCK FALSE
