------------------------------ MODULE ECGroupMC ------------------------------
(* Leg M for C17/C08: group axioms of the affine law on toy curves, every     *)
(* triple of points a state; scalar multiplication; shift commutation.        *)
EXTENDS ECGroup
CONSTANT Primes
VARIABLES pr, P, Q, R, phase
vars == <<pr, P, Q, R, phase>>
PointsOf == [p \in Primes |-> Points(ToyCurve(p))]          \* evaluated once
C == ToyCurve(pr)
Init == /\ pr \in Primes /\ phase = 0
        /\ P \in PointsOf[pr] /\ Q = Id /\ R = Id
Next == /\ phase = 0 /\ phase' = 1
        /\ Q' \in PointsOf[pr] /\ R' \in PointsOf[pr]
        /\ UNCHANGED <<pr, P>>
Spec == Init /\ [][Next]_vars

GroupAxioms ==
  phase = 1 =>
  /\ Add(C, P, Q) \in PointsOf[pr]                                   \* closure
  /\ Add(C, P, Q) = Add(C, Q, P)                                     \* commutative
  /\ Add(C, Add(C, P, Q), R) = Add(C, P, Add(C, Q, R))               \* associative
  /\ Add(C, P, Id) = P /\ Add(C, P, Neg(C, P)) = Id                  \* identity, inverse
  /\ Double(C, P) = Add(C, P, P)

\* multiples of G built iteratively: Mult[k] = [k]G for k in 0..2n+2
Multiples(c) == LET f[k \in 0..(2 * c.n + 2)] == IF k = 0 THEN Id ELSE Add(c, f[k - 1], G(c)) IN f
\* prime order n: the points are exactly the multiples of G, [n]G = identity, scalars act modulo n;
\* C08: shifting the private scalar and shifting the public point commute for every (k, d)
ASSUME \A p \in Primes :
  LET c == ToyCurve(p) m == Multiples(c)
  IN /\ Cardinality(PointsOf[p]) = c.n /\ G(c) \in PointsOf[p] /\ ~IsId(G(c))
     /\ {m[k] : k \in 0..(c.n - 1)} = PointsOf[p]
     /\ m[c.n] = Id /\ m[c.n + 1] = G(c) /\ \A k \in 0..(c.n + 2) : m[k + c.n] = m[k]
     /\ \A k \in 1..(c.n - 1) : \A d \in 0..(c.n - 1) :
          /\ Add(c, m[k], m[d]) = m[(k + d) % c.n]
          /\ ((k + d) % c.n = 0) <=> IsId(Add(c, m[k], m[d]))
=============================================================================
