------------------------------- MODULE ECTrace -------------------------------
(***************************************************************************)
(* Leg G/T for C17 and C08.                                                *)
(*  ecs.* / shift.s : the real koblitzCurve code instantiated with toy      *)
(*        CurveParams (both copies) - TLC computes the group law itself.    *)
(*  ecb.* / shift.b : real secp256k1 parameters - results are verified      *)
(*        through certificates: a congruence A = B (mod p) is accepted iff  *)
(*        A + qb*p = B + qa*p for the logged quotients (sound whatever the  *)
(*        driver logs); TLC decides which case of the group law applies.    *)
(***************************************************************************)
EXTENDS ECGroup, BigNat, Json

Trace == ndJsonDeserialize("trace.ndjson")
VARIABLES l, bad
vars == <<l, bad>>

SecP == BNFromBytesBE(<<255,255,255,255,255,255,255,255,255,255,255,255,255,255,255,255,255,255,255,255,255,255,255,255,255,255,255,254,255,255,252,47>>)
SecN == BNFromBytesBE(<<255,255,255,255,255,255,255,255,255,255,255,255,255,255,255,254,186,174,220,230,175,72,160,59,191,210,94,140,208,54,65,65>>)
SecGx == BNFromBytesBE(<<121,190,102,126,249,220,187,172,85,160,98,149,206,135,11,7,2,155,252,219,45,206,40,217,89,242,129,91,22,248,23,152>>)
SecGy == BNFromBytesBE(<<72,58,218,119,38,163,196,101,93,164,251,252,14,17,8,168,253,23,180,72,166,133,84,25,156,71,208,143,251,16,212,184>>)
P256N == BNFromBytesBE(<<255,255,255,255,0,0,0,0,255,255,255,255,255,255,255,255,188,230,250,173,167,23,158,132,243,185,202,194,252,99,37,81>>)
OrderOf(curve) == IF curve = "secp256k1" THEN SecN ELSE P256N

\* ---------------------------------------------------------------- toy size
Pt(o) == <<o.x, o.y>>
SmallOK(o) == o.panic = "" /\ ~o.nil
SAdd(e) == SmallOK(e.out) /\ Pt(e.out) = Add(ToyCurve(e.in.p), <<e.in.x1, e.in.y1>>, <<e.in.x2, e.in.y2>>)
SDouble(e) == SmallOK(e.out) /\ Pt(e.out) = Double(ToyCurve(e.in.p), <<e.in.x, e.in.y>>)
SMul(e) == LET c == ToyCurve(e.in.p) IN SmallOK(e.out) /\ Pt(e.out) = Mul(c, ScalarOf(e.in.k) % c.n, <<e.in.x, e.in.y>>)
SBaseMul(e) == LET c == ToyCurve(e.in.p) IN SmallOK(e.out) /\ Pt(e.out) = Mul(c, ScalarOf(e.in.k) % c.n, G(c))
SOnCurve(e) == e.out.panic = "" /\ e.out.on = OnCurve(ToyCurve(e.in.p), <<e.in.x, e.in.y>>)

SShift(e) ==
  LET c == ToyCurve(e.in.p) dv == ScalarOf(e.in.d) s == (e.in.k + dv) % c.n
      valid == dv < c.n /\ s # 0
  IN /\ e.out.panic_priv = "" /\ e.out.panic_pub = ""                \* never panics
     /\ e.out.priv_ok = valid /\ e.out.pub_ok = valid                 \* both invalid or both succeed
     /\ valid => /\ e.out.priv_k = s
                 /\ e.out.priv_pub = Mul(c, s, G(c))
                 /\ e.out.pub = e.out.priv_pub                        \* with matching results

\* ---------------------------------------------------------------- real size
BId(P) == P[1] = <<>> /\ P[2] = <<>>
InField(v) == BNWellFormed(v) /\ BNLt(v, SecP)
\* A = B (mod p) with logged quotients
Cong(A, B, qa, qb) == BNWellFormed(qa) /\ BNWellFormed(qb) /\ BNAdd(A, BNMul(qb, SecP)) = BNAdd(B, BNMul(qa, SecP))
Sq(a) == BNMul(a, a)
BOnCurveCert(P, c) ==            \* y^2 = x^3 + 7 (mod p)
  Cong(Sq(P[2]), BNAddInt(BNMul(Sq(P[1]), P[1]), 7), c.qa, c.qb)
BValid(P, c) == BId(P) \/ (InField(P[1]) /\ InField(P[2]) /\ BOnCurveCert(P, c))

\* R = P + Q by the chord/tangent rule with slope lam (P, Q, R affine, not the identity)
SlopeOK(P, Q, lam, c) ==
  IF P = Q THEN Cong(BNMul(lam, BNMulInt(P[2], 2)), BNMulInt(Sq(P[1]), 3), c.s_qa, c.s_qb)
  ELSE Cong(BNAdd(BNMul(lam, Q[1]), P[2]), BNAdd(BNMul(lam, P[1]), Q[2]), c.s_qa, c.s_qb)
ChordOK(P, Q, R, lam, c) ==
  /\ InField(lam) /\ SlopeOK(P, Q, lam, c)
  /\ Cong(BNAdd(R[1], BNAdd(P[1], Q[1])), Sq(lam), c.x_qa, c.x_qb)
  /\ Cong(BNAdd(BNAdd(R[2], P[2]), BNMul(lam, R[1])), BNMul(lam, P[1]), c.y_qa, c.y_qb)
AreOpposite(P, Q) == P[1] = Q[1] /\ (BNAdd(P[2], Q[2]) = SecP \/ (P[2] = <<>> /\ Q[2] = <<>>))

SumOK(P, Q, R, c) ==             \* R is the group sum of P and Q
  IF BId(P) THEN R = Q
  ELSE IF BId(Q) THEN R = P
  ELSE IF AreOpposite(P, Q) THEN BId(R)
  ELSE ~BId(R) /\ InField(R[1]) /\ InField(R[2]) /\ ChordOK(P, Q, R, c.lam, c)

BPt(o) == <<o.x, o.y>>
BAdd(e) ==
  LET P == <<e.in.x1, e.in.y1>> Q == <<e.in.x2, e.in.y2>>
  IN /\ e.out.panic = "" /\ ~e.out.nil
     /\ BValid(P, e.cert.p1) /\ BValid(Q, e.cert.p2)                 \* the inputs are curve points
     /\ SumOK(P, Q, BPt(e.out), e.cert.sum)
     /\ e.in.double => (P = Q /\ e.out.dx = e.out.x /\ e.out.dy = e.out.y)    \* Double(P) = Add(P, P)

\* ScalarBaseMult is a homomorphism with [1]G = G, [0]G = [n]G = identity (all byte lengths, leading zeros)
BHom(e) ==
  LET a == BNFromBytesBE(e.in.a) b == BNFromBytesBE(e.in.b) s == e.cert.s
      A == BPt(e.out.A) B == BPt(e.out.B) S == BPt(e.out.S)
  IN /\ e.out.panic = "" /\ ~e.out.nil
     /\ BNDivCert(BNAdd(a, b), SecN, e.cert.q, s) /\ BNFromBytesBE(e.out.sbytes) = s        \* s = (a + b) mod n
     /\ BValid(A, e.cert.pa) /\ BValid(B, e.cert.pb) /\ BValid(S, e.cert.ps)
     /\ SumOK(A, B, S, e.cert.sum)
     /\ BPt(e.out.AB) = S                                             \* the real Add agrees
     /\ a = <<>> => BId(A)
     /\ a = <<1>> => A = <<SecGx, SecGy>>
     /\ a = SecN => BId(A)
     /\ s = <<>> => BId(S)
     /\ e.out.mulA = e.out.A                                          \* ScalarMult(G, a) = ScalarBaseMult(a)
     /\ "negA" \in DOMAIN e.out => AreOpposite(A, BPt(e.out.negA))     \* ScalarMult(-G, a) = -[a]G

BOnCurve(e) ==
  /\ e.out.panic = ""
  /\ BNDivCert(Sq(e.in.y), SecP, e.cert.q1, e.cert.r1)
  /\ BNDivCert(BNAddInt(BNMul(Sq(e.in.x), e.in.x), 7), SecP, e.cert.q2, e.cert.r2)
  /\ e.out.on = (e.cert.r1 = e.cert.r2)

BShift(e) ==
  LET n == OrderOf(e.in.curve)
      k == BNFromBytesBE(e.in.k) d == BNFromBytesBE(e.in.d)
      valid == BNLt(d, n) /\ e.cert.s # <<>>
  IN /\ BNDivCert(BNAdd(k, d), n, e.cert.q, e.cert.s)
     /\ e.out.panic_priv = "" /\ e.out.panic_pub = ""
     /\ e.out.priv_ok = valid /\ e.out.pub_ok = valid
     /\ valid => /\ BNFromBytesBE(e.out.priv_k) = e.cert.s /\ Len(e.out.priv_k) = 32
                 /\ e.out.priv_pub = e.out.pub /\ Len(e.out.pub) = 33

\* deriving the child of the public key = public key of the derived child (bytes, chain code, fingerprint)
BDerive(e) ==
  /\ e.out.panic = ""
  /\ e.out.priv_ok = e.out.pub_ok
  /\ e.out.priv_ok => /\ e.out.priv_pub = e.out.pub /\ e.out.priv_chain = e.out.pub_chain /\ e.out.priv_fp = e.out.pub_fp
                      /\ Len(e.out.pub) = 33 /\ Len(e.out.pub_chain) = 32 /\ Len(e.out.pub_fp) = 4

Conforms(e) ==
  CASE e.op = "ecs.Add" -> SAdd(e)
    [] e.op = "ecs.Double" -> SDouble(e)
    [] e.op = "ecs.Mul" -> SMul(e)
    [] e.op = "ecs.BaseMul" -> SBaseMul(e)
    [] e.op = "ecs.OnCurve" -> SOnCurve(e)
    [] e.op = "shift.s" -> SShift(e)
    [] e.op = "ecb.Add" -> BAdd(e)
    [] e.op = "ecb.hom" -> BHom(e)
    [] e.op = "ecb.OnCurve" -> BOnCurve(e)
    [] e.op \in {"shift.par", "ecb.par"} -> e.out.panic = ""      \* concurrent first use answers as later sequential use (compared in the driver)
    [] e.op = "shift.new" ->                  \* NewPrivateKey accepts exactly the scalars 0 < k < n
         LET v == BNFromBytesBE(e.in.buf) valid == v # <<>> /\ BNLt(v, OrderOf(e.in.curve))
         IN e.out.panic = "" /\ e.out.ok = valid /\ (valid => e.out.key = e.in.buf)
    [] e.op = "shift.b" -> BShift(e)
    [] e.op = "shift.derive" -> BDerive(e)
    [] OTHER -> FALSE

Init == l = 1 /\ bad = <<>>
Next == /\ l <= Len(Trace)
        /\ l' = l + 1
        /\ bad' = IF Conforms(Trace[l]) THEN bad ELSE Append(bad, l)
Spec == Init /\ [][Next]_vars
Done == (l = Len(Trace) + 1) => PrintT(<<"VERIF-RESULT", Len(Trace), bad>>)
=============================================================================
