-------------------------------- MODULE Ecvrf --------------------------------
(***************************************************************************)
(* ECVRF-EDWARDS25519-SHA512-TAI (RFC 9381, pkg/vrf) over the abstract     *)
(* group Z_{8q} (see module Ed25519): B = 8, torsion = multiples of q.     *)
(* Strings for points are <<kind, g>> ("c" canonical, "a" alias encoding   *)
(* of a small-order point, "u" undecodable).  The three hash functions are *)
(* parameters of the model (any functions).                                *)
(***************************************************************************)
EXTENDS Integers, FiniteSets, TLC
CONSTANT Q
N8 == 8 * Q
Points == 0..(N8 - 1)
B == 8
Torsion == {Q * t : t \in 0..7}
PAdd(a, b) == (a + b) % N8
PNeg(a) == (N8 - a) % N8
PMul(k, a) == (k * a) % N8
Mul8(a) == PMul(8, a)
Strings == {<<"c", g>> : g \in Points} \cup {<<"a", g>> : g \in Torsion} \cup {<<"u", 0>>}
CanonicalPoint(s) == s[1] = "c"
PointOf(s) == s[2]
SmallOrder(g) == Mul8(g) = 0

\* toy hash functions (any would do; they only need to be functions)
EncodeToCurve(Y, alpha) == PMul(1 + ((3 * Y + 5 * alpha) % (Q - 1)), B)      \* a prime-order point, never the identity
Challenge(Y, H, G, U, V) == (Y + 2 * H + 3 * G + 5 * U + 7 * V) % Q
Nonce(x, H) == (x * 11 + H + 1) % Q

Prove(x, alpha) ==
  LET Y == PMul(x, B) H == EncodeToCurve(Y, alpha) G == PMul(x, H) k == Nonce(x, H)
      c == Challenge(Y, H, G, PMul(k, B), PMul(k, H))
  IN [gamma |-> <<"c", G>>, c |-> c, s |-> (k + c * x) % Q]
ProofToHash(gammaPoint) == Mul8(gammaPoint)            \* beta = Hash(cofactor * Gamma): determined by 8*Gamma

\* Verify: <<valid, beta>>
Verify(Ys, alpha, pi, len) ==
  IF ~CanonicalPoint(Ys) \/ SmallOrder(PointOf(Ys)) THEN <<FALSE, 0>>          \* key not canonical / fails validate_key
  ELSE IF len # 80 \/ ~CanonicalPoint(pi.gamma) \/ pi.s >= Q THEN <<FALSE, 0>>  \* not the canonical 80-byte encoding
  ELSE LET Y == PointOf(Ys) H == EncodeToCurve(Y, alpha) G == PointOf(pi.gamma)
           U == PAdd(PMul(pi.s, B), PNeg(PMul(pi.c, Y)))
           V == PAdd(PMul(pi.s, H), PNeg(PMul(pi.c, G)))
       IN IF pi.c = Challenge(Y, H, G, U, V) THEN <<TRUE, ProofToHash(G)>> ELSE <<FALSE, 0>>
=============================================================================
