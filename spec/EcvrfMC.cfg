SPECIFICATION Spec
CONSTANTS
  Q = 7
INVARIANTS Complete Strict TorsionFreeOutput
CHECK_DEADLOCK FALSE
