------------------------------- MODULE EcvrfMC -------------------------------
(* Leg M for C18: completeness and strictness on the abstract group.           *)
EXTENDS Ecvrf
VARIABLES x, alpha, Ys, pi, len
vars == <<x, alpha, Ys, pi, len>>
Init == /\ x \in 1..(Q - 1) /\ alpha \in 0..2
        /\ Ys \in Strings /\ len \in {79, 80, 81}
        /\ pi \in [gamma : {<<"c", g>> : g \in {0, 8, 16, Q, Q + 8}} \cup {<<"a", 0>>, <<"u", 0>>}, c : {0, 1}, s : {0, 1, Q, Q + 1}]
Next == UNCHANGED vars
Spec == Init /\ [][Next]_vars
Complete ==              \* an honest proof verifies for its own key and gives the hash of the proof
  LET p == Prove(x, alpha) v == Verify(<<"c", PMul(x, B)>>, alpha, p, 80)
  IN v[1] /\ v[2] = ProofToHash(PointOf(p.gamma)) /\ p.s < Q
Strict ==                \* arbitrary key / proof material
  LET v == Verify(Ys, alpha, pi, len)
  IN /\ (~CanonicalPoint(Ys) \/ SmallOrder(PointOf(Ys))) => ~v[1]
     /\ (len # 80 \/ ~CanonicalPoint(pi.gamma) \/ pi.s >= Q) => ~v[1]
     /\ v[1] => v[2] = ProofToHash(PointOf(pi.gamma))
\* adding torsion to Gamma does not change the output hash (the cofactor clears it)
TorsionFreeOutput == \A t \in Torsion : ProofToHash(PAdd(PointOf(Prove(x, alpha).gamma), t)) = ProofToHash(PointOf(Prove(x, alpha).gamma))
=============================================================================
