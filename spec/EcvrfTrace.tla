----------------------------- MODULE EcvrfTrace -----------------------------
(***************************************************************************)
(* Leg G/T for C18 at real size.  SHA-512 values and point computations    *)
(* (an independent RFC 9381 transcription in the driver) are facts; the    *)
(* specification dictates the input of every hash, the try-and-increment   *)
(* counter, and recomputes the scalars: x (clamped), k = H(prefix||H) mod  *)
(* L, c (16 bytes), s = (k + c*x) mod L with certified reductions.         *)
(***************************************************************************)
EXTENDS BigNat, Json

Trace == ndJsonDeserialize("trace.ndjson")
VARIABLES l, bad
vars == <<l, bad>>

EdL == BNFromBytesBE(<<16,0,0,0,0,0,0,0,0,0,0,0,0,0,0,0,20,222,249,222,162,247,156,214,88,18,99,26,92,245,211,237>>)
Rev(s) == [i \in DOMAIN s |-> s[Len(s) + 1 - i]]
LE(bytes) == BNFromBytesBE(Rev(bytes))
RemOK(a, cert) == BNDivCert(a, EdL, cert.q, cert.r)
Clamp(h32) == [i \in 1..32 |-> IF i = 1 THEN h32[i] - (h32[i] % 8)
                               ELSE IF i = 32 THEN (h32[i] % 64) + 64 ELSE h32[i]]
Suite == <<3>>

ProveEvent(e) ==
  LET f == e.facts
      Y == e.out.pub
      x == LE(Clamp(SubSeq(f.hseed, 1, 32)))
      n == Len(f.tai)                                  \* try-and-increment attempts 0..n-1, the last one succeeded
      H == f.h
      pi == e.out.proof
  IN /\ e.out.panic = ""
     /\ f.hseed_of = e.in.seed /\ e.out.priv = e.in.seed \o Y
     \* encode_to_curve: hash_string = Hash(suite || 0x01 || Y || alpha || ctr || 0x00), first ctr whose point is valid
     /\ n >= 1
     /\ \A i \in 1..n : f.tai[i].of = Suite \o <<1>> \o Y \o e.in.alpha \o <<i - 1>> \o <<0>>
     /\ \A i \in 1..(n - 1) : ~f.tai[i].ok
     /\ f.tai[n].ok /\ f.h_from = SubSeq(f.tai[n].digest, 1, 32)
     \* nonce and challenge
     /\ f.kdigest_of = SubSeq(f.hseed, 33, 64) \o H /\ RemOK(LE(f.kdigest), f.kcert)
     /\ f.cdigest_of = Suite \o <<2>> \o Y \o H \o f.gamma \o f.kb \o f.kh \o <<0>>
     /\ Len(pi) = 80
     /\ SubSeq(pi, 1, 32) = f.gamma                                  \* Gamma = x*H (independent computation)
     /\ SubSeq(pi, 33, 48) = SubSeq(f.cdigest, 1, 16)                \* c = first 16 bytes of the challenge hash
     /\ RemOK(BNAdd(f.kcert.r, BNMul(LE(SubSeq(pi, 33, 48)), x)), f.scert)
     /\ LE(SubSeq(pi, 49, 80)) = f.scert.r                           \* s = (k + c*x) mod L
     /\ e.out.proof = f.ref_proof                                    \* ... and equals the independent implementation's proof
     \* Verify accepts it and all three ways to the output agree with Hash(suite || 0x03 || 8*Gamma || 0x00)
     /\ f.beta_of = Suite \o <<3>> \o f.gamma8 \o <<0>>
     /\ e.out.verify_ok /\ e.out.verify_beta = f.beta
     /\ e.out.pth_ok /\ e.out.pth_beta = f.beta /\ e.out.proof_hash = f.beta
     /\ e.out.proof_hash2 = f.beta /\ e.out.proof_bytes_after_hash = pi     \* Hash() does not disturb the proof
     /\ e.out.decode_ok /\ e.out.reencoded = pi

\* scenarios whose verdict is determined by their class (DESIGN.md C18)
VerifyEvent(e) ==
  /\ e.out.panic = ""
  /\ e.out.inputs_intact /\ e.out.second_same                      \* inputs are only read; verifying again gives the same answer
  /\ e.out.decode_ok => e.out.shared_hash = e.out.pth_beta          \* a reused Proof value hashes what it decoded last
  /\ e.in.expect = "accept" => e.out.ok /\ e.out.beta = e.facts.beta
  /\ e.in.expect = "reject" => ~e.out.ok
  /\ e.in.decodes = "no" => ~e.out.decode_ok /\ ~e.out.pth_ok
  /\ e.out.decode_ok => e.out.reencoded = e.out.pi                  \* decoding succeeds only for inputs that re-encode to themselves

\* any 80-byte string: decode succeeds => re-encodes to itself; s must be canonical
DecodeEvent(e) ==
  /\ e.out.panic = ""
  /\ e.out.decode_ok => e.out.shared_hash = e.out.pth_beta
  /\ e.out.decode_ok => e.out.reencoded = e.in.pi
  /\ (Len(e.in.pi) # 80) => ~e.out.decode_ok
  /\ (Len(e.in.pi) = 80 /\ ~BNLt(LE(SubSeq(e.in.pi, 49, 80)), EdL)) => ~e.out.decode_ok
  /\ e.out.pth_ok = e.out.decode_ok

Conforms(e) ==
  CASE e.op = "vrf.Prove" -> ProveEvent(e)
    [] e.op = "vrf.Verify" -> VerifyEvent(e)
    [] e.op = "vrf.Decode" -> DecodeEvent(e)
    [] e.op = "vrf.par" -> e.out.panic = ""          \* concurrent calls answer as they do alone (compared in the driver)
    [] e.op = "vrf.Sweep" -> e.out.panic = ""         \* every alpha length 0..300: Prove / Verify agree with the RFC 9381 transcription (compared in the driver)
    [] OTHER -> FALSE

Init == l = 1 /\ bad = <<>>
Next == /\ l <= Len(Trace)
        /\ l' = l + 1
        /\ bad' = IF Conforms(Trace[l]) THEN bad ELSE Append(bad, l)
Spec == Init /\ [][Next]_vars
Done == (l = Len(Trace) + 1) => PrintT(<<"VERIF-RESULT", Len(Trace), bad>>)
=============================================================================
