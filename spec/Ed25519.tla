------------------------------- MODULE Ed25519 -------------------------------
(***************************************************************************)
(* Ed25519 verification (pkg/ed25519) over an abstract group.              *)
(*                                                                         *)
(* Ed25519's group is cyclic of order 8*L (L an odd prime).  Everything    *)
(* the verdict depends on is: the prime-order part and the torsion part of *)
(* A and R, the encoding class of the byte strings, S as an integer, and   *)
(* the hash value k.  The model uses Z_{8q} (q a small odd prime): points  *)
(* are 0..8q-1, the base point is B = 8 (order q), the torsion subgroup is *)
(* the multiples of q.                                                     *)
(* A byte string for a point is <<kind, g>>: "c" canonical encoding of g,  *)
(* "a" a non-canonical (alias) encoding of g - only small-order points     *)
(* have one - and "u" a string that decodes to no point.                   *)
(***************************************************************************)
EXTENDS Integers, FiniteSets, TLC

CONSTANT Q
N8 == 8 * Q
Points == 0..(N8 - 1)
B == 8
Torsion == {Q * t : t \in 0..7}
PAdd(a, b) == (a + b) % N8
PNeg(a) == (N8 - a) % N8
PMul(k, a) == (k * a) % N8
Mul8(a) == PMul(8, a)

Strings == {<<"c", g>> : g \in Points} \cup {<<"a", g>> : g \in Torsion} \cup {<<"u", 0>>}
Decodable(s) == s[1] # "u"
PointOf(s) == s[2]
IsCanonicalEnc(s) == s[1] = "c"

\* S is an integer; "canonical" means S < group order of B (q); the top-bits pre-check corresponds to S < SMax
SMax == 4 * Q            \* stands for 2^253
SRange == 0..(SMax + 2)  \* values beyond SMax model set top bits

\* ZIP-215: declarative acceptance
Zip215(As, Rs, S, k, len) ==
  /\ len = 64
  /\ S < Q
  /\ Decodable(As) /\ Decodable(Rs)
  /\ Mul8(PMul(S, B)) = PAdd(Mul8(PointOf(Rs)), Mul8(PMul(k, PointOf(As))))

\* the verifier as coded (staged)
VerifyImpl(As, Rs, S, k, len) ==
  IF len # 64 \/ S >= SMax THEN FALSE                        \* len(sig) != 64 || sig[63]&224 != 0
  ELSE IF ~Decodable(As) THEN FALSE                          \* A: SetBytes (accepts non-canonical encodings)
  ELSE LET negA == PNeg(PointOf(As)) IN                      \* A.Negate(A); k hashed over the raw strings
  IF ~Decodable(Rs) THEN FALSE                               \* checkR: SetBytes
  ELSE IF S >= Q THEN FALSE                                  \* SetCanonicalBytes
  ELSE LET Rp == PAdd(PMul(k, negA), PMul(S, B))             \* [k](-A) + [S]B
           p == PAdd(Rp, PNeg(PointOf(Rs)))                  \* R' - checkR
       IN Mul8(p) = 0                                        \* MultByCofactor, compare with the identity

\* the cofactorless verifier of crypto/ed25519: canonical S, decodable A, and the ENCODING of [S]B - [k]A equals the R bytes
StdVerify(As, Rs, S, k, len) ==
  /\ len = 64 /\ S < Q /\ Decodable(As)
  /\ Rs = <<"c", PAdd(PMul(S, B), PNeg(PMul(k, PointOf(As))))>>
=============================================================================
