SPECIFICATION Spec
CONSTANTS
  Q = 5
