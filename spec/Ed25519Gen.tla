------------------------------ MODULE Ed25519Gen ------------------------------
(***************************************************************************)
(* Leg G for C01: the scenario table.  A scenario is a class               *)
(*   A: honest / small-order / undecodable, torsion index, encoding        *)
(*   R: likewise                                                           *)
(*   S: honest value, + j*L, + 1, top bits set                             *)
(*   message unchanged / changed after signing; signature length           *)
(* and its verdict, computed on the abstract model (module Ed25519) after  *)
(* checking that the verdict does not depend on the representative chosen. *)
(***************************************************************************)
EXTENDS Ed25519, Json, SequencesExt
VARIABLE x

Kinds == {"honest", "small", "undec"}
AliasT == {0, 2, 4, 6}           \* small-order points that have a non-canonical encoding
\* abstract representative of a class; a, r: prime-order parts; k: hash value at signing; dk: change of the hash by a changed message
StrOf(kind, t, enc, scalar) ==
  IF kind = "undec" THEN <<"u", 0>>
  ELSE <<enc, PAdd(PMul(IF kind = "honest" THEN scalar ELSE 0, B), Q * t)>>
SOf(skind, j, a, r, k) ==
  LET s0 == (r + k * a) % Q
  IN CASE skind = "ok" -> s0 [] skind = "plusL" -> s0 + j * Q [] skind = "plus1" -> (s0 + 1) % Q [] OTHER -> SMax + 1
Verdict(c, a, r, k) ==
  LET aa == IF c.akind = "honest" THEN a ELSE 0
      rr == IF c.rkind = "honest" THEN r ELSE 0
      kv == IF c.msg = "changed" THEN (k + 1) % Q ELSE k
  IN Zip215(StrOf(c.akind, c.at, c.aenc, a), StrOf(c.rkind, c.rt, c.renc, r), SOf(c.skind, c.j, aa, rr, k), kv, c.len)

Classes ==
  { [akind |-> ak, at |-> at, aenc |-> ae, rkind |-> rk, rt |-> rt, renc |-> re, skind |-> sk, j |-> j, msg |-> m, len |-> 64] :
      ak \in Kinds, at \in {0, 1, 4, 7}, ae \in {"c", "a"}, rk \in Kinds, rt \in {0, 2, 5}, re \in {"c", "a"},
      sk \in {"ok", "plusL", "plus1", "topbits"}, j \in {1}, m \in {"same", "changed"} }
  \cup { [akind |-> "honest", at |-> at, aenc |-> "c", rkind |-> "honest", rt |-> rt, renc |-> "c", skind |-> "ok", j |-> 1, msg |-> "same", len |-> 64] :
      at \in 0..7, rt \in 0..7 }                                     \* all 8 x 8 torsion shifts of an honest signature
  \cup { [akind |-> "honest", at |-> 0, aenc |-> "c", rkind |-> "honest", rt |-> 0, renc |-> "c", skind |-> "plusL", j |-> j, msg |-> "same", len |-> 64] :
      j \in 1..3 }                                                   \* (at real size the driver uses every j with S + jL < 2^256)
  \cup { [akind |-> "small", at |-> at, aenc |-> ae, rkind |-> "small", rt |-> rt, renc |-> re, skind |-> "ok", j |-> 1, msg |-> m, len |-> 64] :
      at \in 0..7, ae \in {"c", "a"}, rt \in 0..7, re \in {"c", "a"}, m \in {"same", "changed"} }
  \cup { [akind |-> "honest", at |-> 0, aenc |-> "c", rkind |-> "honest", rt |-> 0, renc |-> "c", skind |-> "ok", j |-> 1, msg |-> "same", len |-> ln] :
      ln \in {0, 63, 65} }
WellFormed(c) == /\ (c.aenc = "a" => c.akind = "small" /\ c.at \in AliasT)
                 /\ (c.renc = "a" => c.rkind = "small" /\ c.rt \in AliasT)
                 /\ (c.msg = "changed" => c.skind = "ok")      \* one perturbation at a time (two can cancel for special scalars)
                 /\ (c.akind = "undec" => c.at = 0 /\ c.aenc = "c") /\ (c.rkind = "undec" => c.rt = 0 /\ c.renc = "c")
Good == {c \in Classes : WellFormed(c)}

\* the verdict is a function of the class: independent of the representative scalars and hash value
ASSUME \A c \in Good : \A a \in 1..(Q - 1), r \in 1..(Q - 1), k \in 0..(Q - 1) : Verdict(c, a, r, k) = Verdict(c, 1, 2, 3)

Vectors == SetToSeq({ [op |-> "ed.Verify", in |-> [class |-> c, exp |-> IF Verdict(c, 1, 2, 3) THEN "T" ELSE "F"]] : c \in Good })
ASSUME ndJsonSerialize("gen.ndjson", Vectors)
ASSUME PrintT(<<"VERIF-GEN", Len(Vectors)>>)
Init == x = 0
Next == UNCHANGED x
Spec == Init /\ [][Next]_x
=============================================================================
