SPECIFICATION Spec
CONSTANTS
  Q = 5
INVARIANTS ImplIsZip215 TorsionInvariant NonCanonicalSRejected StdAccepted EncodingIrrelevant
CHECK_DEADLOCK FALSE
