------------------------------ MODULE Ed25519MC ------------------------------
(* Leg M for C01: every (A string, R string, S, k, length class) is a state.   *)
EXTENDS Ed25519
VARIABLES As, Rs, S, k, len, phase
vars == <<As, Rs, S, k, len, phase>>
\* (the second half of every state is chosen in Next so that TLC's workers share the enumeration)
Init == As \in Strings /\ Rs \in Strings /\ S = 0 /\ k = 0 /\ len = 64 /\ phase = 0
Next == /\ phase = 0 /\ phase' = 1
        /\ S' \in SRange /\ k' \in 0..(Q - 1) /\ len' \in {63, 64, 65}
        /\ UNCHANGED <<As, Rs>>
Spec == Init /\ [][Next]_vars

ImplIsZip215 == VerifyImpl(As, Rs, S, k, len) = Zip215(As, Rs, S, k, len)
\* adding a small-order component to A or R (same k: the equation still holds) does not change the verdict
TorsionInvariant ==
  (Decodable(As) /\ Decodable(Rs)) =>
     \A t \in Torsion :
        /\ VerifyImpl(<<"c", PAdd(PointOf(As), t)>>, Rs, S, k, len) = VerifyImpl(As, Rs, S, k, len)
        /\ VerifyImpl(As, <<"c", PAdd(PointOf(Rs), t)>>, S, k, len) = VerifyImpl(As, Rs, S, k, len)
\* a valid S plus a non-zero multiple of the order is rejected
NonCanonicalSRejected == (S >= Q) => ~VerifyImpl(As, Rs, S, k, len)
\* everything the cofactorless standard verifier accepts is accepted
StdAccepted == StdVerify(As, Rs, S, k, len) => VerifyImpl(As, Rs, S, k, len)
\* the encoding class of a decodable string is irrelevant
EncodingIrrelevant ==
  (Decodable(As) /\ Decodable(Rs)) =>
     VerifyImpl(<<"c", PointOf(As)>>, <<"c", PointOf(Rs)>>, S, k, len) = VerifyImpl(As, Rs, S, k, len)
=============================================================================
