----------------------------- MODULE Ed25519Trace -----------------------------
(***************************************************************************)
(* Leg G/T for C01 (and the S recomputation of C07) at real size.          *)
(* The driver builds A = [a]B + T_t and R = [r]B + T_u from known scalars  *)
(* and torsion points and logs a, r, the hash value k used by the verifier *)
(* (with its reduction certificate) and the class of every byte string.    *)
(* TLC decides ZIP-215 acceptance IN THE EXPONENT:                         *)
(*     accept  <=>  len = 64 /\ S < L /\ A, R decodable                    *)
(*                  /\ S = r + k*a  (mod L)                                *)
(* (the torsion parts vanish under the cofactor), independently of the     *)
(* curve arithmetic the code under test uses.                              *)
(***************************************************************************)
EXTENDS BigNat, Json

Trace == ndJsonDeserialize("trace.ndjson")
VARIABLES l, bad
vars == <<l, bad>>

EdL == BNFromBytesBE(<<16,0,0,0,0,0,0,0,0,0,0,0,0,0,0,0,20,222,249,222,162,247,156,214,88,18,99,26,92,245,211,237>>)
Rev(s) == [i \in DOMAIN s |-> s[Len(s) + 1 - i]]
LE(bytes) == BNFromBytesBE(Rev(bytes))

\* remainder of a modulo L, certified: cert = [q, r]
RemOK(a, cert) == BNDivCert(a, EdL, cert.q, cert.r)

VerifyEvent(e) ==
  LET sig == e.in.sig
      S == IF Len(sig) = 64 THEN LE(SubSeq(sig, 33, 64)) ELSE <<>>
      f == e.facts
      accept ==
        IF f.cls = "unknown" THEN FALSE                        \* random / bit-flipped material: rejected (cryptographic expectation)
        ELSE /\ Len(sig) = 64 /\ BNLt(S, EdL)
             /\ f.decA /\ f.decR
             \* k = SHA-512(R || A || M) read little endian, mod L
             /\ RemOK(LE(f.kdigest), f.kcert)
             \* S = r + k*a (mod L): both remainders certified, then compared
             /\ RemOK(BNAdd(f.r, BNMul(f.kcert.r, f.a)), f.rhs) /\ RemOK(S, f.lhs)
             /\ f.rhs.r = f.lhs.r
  IN /\ e.out.panic = ""
     /\ f.cls # "unknown" => /\ RemOK(LE(f.kdigest), f.kcert)       \* certificates are well formed whenever given
     /\ e.out.ok = accept
     /\ e.out.std => e.out.ok                                      \* everything crypto/ed25519 accepts is accepted
     /\ e.in.exp \in {"T", "F"} => e.out.ok = (e.in.exp = "T")      \* verdict of the abstract model for this class

\* C07: keys and signatures; S recomputed by TLC from SHA-512 facts
Clamp(h32) == [i \in 1..32 |-> IF i = 1 THEN h32[i] - (h32[i] % 8)
                               ELSE IF i = 32 THEN (h32[i] % 64) + 64 ELSE h32[i]]
SignEvent(e) ==
  LET f == e.facts
      s == LE(Clamp(SubSeq(f.hseed, 1, 32)))            \* secret scalar
  IN /\ e.out.panic = ""
     /\ f.hseed_of = e.in.seed
     /\ e.out.priv = e.in.seed \o e.out.pub /\ Len(e.out.pub) = 32
     /\ e.out.pub = e.out.std_pub /\ e.out.priv = e.out.std_priv           \* byte-identical to crypto/ed25519
     /\ e.out.sig = e.out.std_sig /\ e.out.sig2 = e.out.sig                 \* ... and deterministic
     /\ Len(e.out.sig) = 64
     \* r = H(prefix || M) mod L, k = H(R || A || M) mod L, S = (r + k*s) mod L
     /\ f.rdigest_of = SubSeq(f.hseed, 33, 64) \o e.in.msg
     /\ f.kdigest_of = SubSeq(e.out.sig, 1, 32) \o e.out.pub \o e.in.msg
     /\ RemOK(LE(f.rdigest), f.rcert) /\ RemOK(LE(f.kdigest), f.kcert)
     /\ RemOK(BNAdd(f.rcert.r, BNMul(f.kcert.r, s)), f.scert)
     /\ LE(SubSeq(e.out.sig, 33, 64)) = f.scert.r
     /\ e.out.verify_ok                                                     \* Verify accepts it for its own key and message
     /\ e.out.signer_sig = e.out.sig /\ e.out.signer_err = ""               \* crypto.Signer with crypto.Hash(0)
     /\ e.out.signer_hashed_err # ""                                        \* refuses pre-hashed input
     /\ e.out.signer_accepted_hashes = <<>>                                 \* ... for every hash identifier other than 0

\* GenerateKey(reader): the first 32 bytes the reader delivers (however it chunks them) are the seed; as crypto/ed25519
GenKeyEvent(e) ==
  /\ e.out.panic = "" /\ e.out.ok = e.out.std_ok
  /\ e.out.ok => /\ e.out.pub = e.out.std_pub /\ e.out.priv = e.out.std_priv
                 /\ Len(e.in.seed) >= 32 /\ e.out.priv = SubSeq(e.in.seed, 1, 32) \o e.out.pub
  /\ (Len(e.in.seed) < 32 \/ e.in.pattern = "short") => ~e.out.ok

Conforms(e) ==
  CASE e.op = "ed.Verify" -> VerifyEvent(e)
    [] e.op = "ed.GenerateKey" -> GenKeyEvent(e)
    [] e.op = "ed.Sign" -> SignEvent(e)
    [] e.op = "ed.SignPar" -> e.out.panic = ""       \* concurrent Sign / Verify calls answer as crypto/ed25519 does (compared in the driver)
    [] OTHER -> FALSE

Init == l = 1 /\ bad = <<>>
Next == /\ l <= Len(Trace)
        /\ l' = l + 1
        /\ bad' = IF Conforms(Trace[l]) THEN bad ELSE Append(bad, l)
Spec == Init /\ [][Next]_vars
Done == (l = Len(Trace) + 1) => PrintT(<<"VERIF-RESULT", Len(Trace), bad>>)
=============================================================================
