------------------------------ MODULE IotaCrypto ------------------------------
(***************************************************************************)
(* Composition of the packages along the repository's own pipelines        *)
(* (examples/kdf, examples/bech32, examples/mnemseed):                     *)
(*                                                                         *)
(*   sentence, passphrase --PBKDF2--> seed --SLIP-10 (ed25519, hardened    *)
(*   path)--> private key --Ed25519--> public key --BLAKE2b-256--> address *)
(*   --Bech32 (network prefix, version byte 0x00)--> address string        *)
(*                                                                         *)
(* Each arrow is the operator of the package's own module; values of the   *)
(* primitives are logged facts whose arguments are dictated here.  This    *)
(* module is growth beyond the twenty listed properties (DESIGN.md sect. 8) *)
(* and is exercised by bin/check C19 (composition leg).                    *)
(***************************************************************************)
EXTENDS Bip39, Slip10, Address, Json

Trace == ndJsonDeserialize("trace.ndjson")
VARIABLES l, bad
vars == <<l, bad>>

EdSeedKey == <<101, 100, 50, 53, 53, 49, 57, 32, 115, 101, 101, 100>>       \* "ed25519 seed"
Mnemonic8 == <<109, 110, 101, 109, 111, 110, 105, 99>>

\* the SLIP-10 ed25519 chain: facts.hmac[1] is the master step, facts.hmac[k+1] derives path[k]
ChainKeys(f, seed, path) ==
  /\ Len(f) = Len(path) + 1
  /\ f[1].key = EdSeedKey /\ f[1].data = seed
  /\ \A k \in 1..Len(path) :
        /\ path[k][1] = 1                                               \* ed25519: hardened only
        /\ f[k + 1].key = Right(f[k].out)
        /\ f[k + 1].data = <<0>> \o Left(f[k].out) \o Ser32(path[k])

KdfEvent(e) ==
  LET f == e.facts
      last == f.hmac[Len(f.hmac)].out
  IN /\ e.out.panic = "" /\ e.out.ok
     \* BIP-39 seed
     /\ f.nfkd_in = e.in.pass
     /\ f.pbkdf_pw = JoinWords(e.in.words) /\ f.pbkdf_salt = Mnemonic8 \o f.nfkd
     /\ e.out.seed = f.pbkdf_out /\ Len(e.out.seed) = 64
     \* SLIP-10
     /\ ChainKeys(f.hmac, e.out.seed, e.in.path)
     /\ e.out.key = Left(last) /\ e.out.chain = Right(last)
     \* Ed25519 public key and address
     /\ f.edpub_of = e.out.key /\ e.out.pub = f.edpub /\ Len(e.out.pub) = 32
     /\ f.blake_of = e.out.pub /\ e.out.addr = f.blake /\ Len(e.out.addr) = 32
     /\ LET s == AddrString(e.in.prefix, 0, e.out.addr)
        IN /\ s.ok /\ e.out.bech32 = s.str
           /\ ParseAddr(e.out.bech32) = [ok |-> TRUE, prefix |-> e.in.prefix, version |-> 0, hash |-> e.out.addr]
     /\ e.out.parse_ok /\ e.out.parse_prefix = e.in.prefix /\ e.out.parse_hash = e.out.addr

\* internal/hexutil: text form of bytes is lower-case hex, strict decoding
HexDigit(v) == IF v < 10 THEN 48 + v ELSE 87 + v
HexOf(bytes) == FlattenFixed([i \in DOMAIN bytes |-> <<HexDigit(bytes[i] \div 16), HexDigit(bytes[i] % 16)>>], 2)
HexVal(c) == IF c \in 48..57 THEN c - 48 ELSE IF c \in 97..102 THEN c - 87 ELSE IF c \in 65..70 THEN c - 55 ELSE -1
HexDecode(text) ==
  IF Len(text) % 2 = 1 \/ \E i \in DOMAIN text : HexVal(text[i]) < 0 THEN [ok |-> FALSE, bytes |-> <<>>]
  ELSE [ok |-> TRUE, bytes |-> [k \in 1..(Len(text) \div 2) |-> 16 * HexVal(text[2*k - 1]) + HexVal(text[2*k])]]
HexEvent(e) ==
  /\ e.out.panic = ""
  /\ e.op = "hex.Marshal" => e.out.text = HexOf(e.in.bytes) /\ e.out.str = e.out.text
  /\ e.op = "hex.Unmarshal" => LET d == HexDecode(e.in.text) IN e.out.ok = d.ok /\ (d.ok => e.out.bytes = d.bytes)

Conforms(e) ==
  CASE e.op = "compose.kdf" -> KdfEvent(e)
    [] e.op \in {"hex.Marshal", "hex.Unmarshal"} -> HexEvent(e)
    [] OTHER -> FALSE

Init == l = 1 /\ bad = <<>>
Next == /\ l <= Len(Trace)
        /\ l' = l + 1
        /\ bad' = IF Conforms(Trace[l]) THEN bad ELSE Append(bad, l)
Spec == Init /\ [][Next]_vars
Done == (l = Len(Trace) + 1) => PrintT(<<"VERIF-RESULT", Len(Trace), bad>>)
=============================================================================
