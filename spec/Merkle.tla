------------------------------- MODULE Merkle -------------------------------
(***************************************************************************)
(* Merkle tree hash (pkg/merkle) over a free term algebra: the hash of a   *)
(* byte string is the term itself, so equality of terms is equality of     *)
(* hashes for an ideal (injective) hash function.                          *)
(*   <<"empty">>          H()                                              *)
(*   <<"leaf", d>>        H(0x00 || d)                                     *)
(*   <<"node", l, r>>     H(0x01 || l || r)                                *)
(***************************************************************************)
EXTENDS VLib

\* largest power of two strictly below n (n >= 2)
RECURSIVE LP2(_)
LP2(n) == IF n <= 2 THEN 1 ELSE 2 * LP2(n - (n \div 2))      \* ceil(n/2) without overflow

RECURSIVE MTH(_)
MTH(ls) ==
  IF Len(ls) = 0 THEN <<"empty">>
  ELSE IF Len(ls) = 1 THEN <<"leaf", ls[1]>>
  ELSE LET k == LP2(Len(ls))
       IN <<"node", MTH(SubSeq(ls, 1, k)), MTH(SubSeq(ls, k + 1, Len(ls)))>>

\* shape only: leaves are their indices (used to fold real hash functions)
RECURSIVE Shape(_, _)
Shape(lo, hi) ==       \* leaves lo..hi (1-based, inclusive), hi >= lo
  IF lo = hi THEN lo
  ELSE LET k == LP2(hi - lo + 1) IN <<Shape(lo, lo + k - 1), Shape(lo + k, hi)>>

-----------------------------------------------------------------------------
\* independent bottom-up construction: pair adjacent nodes level by level, an
\* unpaired last node is promoted unchanged
RECURSIVE BottomUpLevels(_)
BottomUpLevels(level) ==
  IF Len(level) = 1 THEN level[1]
  ELSE LET n == Len(level)
           next == [i \in 1..((n + 1) \div 2) |->
                      IF 2 * i <= n THEN <<"node", level[2*i - 1], level[2*i]>> ELSE level[2*i - 1]]
       IN BottomUpLevels(next)
BottomUp(ls) == IF Len(ls) = 0 THEN <<"empty">>
                ELSE BottomUpLevels([i \in DOMAIN ls |-> <<"leaf", ls[i]>>])

-----------------------------------------------------------------------------
\* RFC 6962 audit paths.  Path(m, ls): m is the 0-based leaf index.
RECURSIVE Path(_, _)
Path(m, ls) ==
  IF Len(ls) <= 1 THEN <<>>
  ELSE LET k == LP2(Len(ls))
       IN IF m < k THEN Path(m, SubSeq(ls, 1, k)) \o <<MTH(SubSeq(ls, k + 1, Len(ls)))>>
          ELSE Path(m - k, SubSeq(ls, k + 1, Len(ls))) \o <<MTH(SubSeq(ls, 1, k))>>

\* RFC 9162 2.1.3.2 verification: root recomputed from leaf m of a tree of
\* size n and its audit path; <<"fail">> if the path is inconsistent
RECURSIVE ShiftWhileEven(_, _)
ShiftWhileEven(fn, sn) == IF fn % 2 = 1 \/ fn = 0 THEN <<fn, sn>> ELSE ShiftWhileEven(fn \div 2, sn \div 2)
VerifyStep(st, p) ==      \* st = <<fn, sn, r, ok>>
  LET fn == st[1] sn == st[2] r == st[3]
  IN IF ~st[4] \/ sn = 0 THEN <<fn, sn, r, FALSE>>
     ELSE IF fn % 2 = 1 \/ fn = sn
          THEN LET sh == IF fn % 2 = 0 THEN ShiftWhileEven(fn, sn) ELSE <<fn, sn>>
               IN <<sh[1] \div 2, sh[2] \div 2, <<"node", p, r>>, TRUE>>
          ELSE <<fn \div 2, sn \div 2, <<"node", r, p>>, TRUE>>
RootFromPath(m, n, leaf, path) ==
  LET st == FoldLeft(VerifyStep, <<m, n - 1, <<"leaf", leaf>>, TRUE>>, path)
  IN IF st[4] /\ st[2] = 0 THEN st[3] ELSE <<"fail">>
=============================================================================
