SPECIFICATION Spec
CONSTANTS
  GenN = 130
