------------------------------ MODULE MerkleGen ------------------------------
(* Leg G for C15: tree shapes for every n <= GenN (to be folded with real   *)
(* hash functions by the driver), recording-hash runs for every n <= GenN,  *)
(* marshal failures at every position (and pairs), LP2 boundary arguments.  *)
EXTENDS Merkle, Json
CONSTANT GenN
VARIABLE x
LeafOf(i, n) == <<i % 256, (i \div 256) % 256, n % 251>>
Leaves(n) == [i \in 1..n |-> LeafOf(i, n)]
H(n, f) == [op |-> "merkle.Hash", in |-> [leaves |-> Leaves(n), fail |-> f]]
R(n, h) == [op |-> "merkle.Real", in |-> [n |-> n, hash |-> h, shape |-> IF n = 0 THEN 0 ELSE Shape(1, n)]]
LP(n) == [op |-> "merkle.lp2", in |-> [n |-> n]]
Vectors ==
     [n \in 1..(GenN + 1) |-> H(n - 1, <<>>)]
  \o [n \in 1..(GenN + 1) |-> R(n - 1, <<"sha256", "blake2b", "sha512", "sha384", "sha512_256">>[(n % 5) + 1])]
  \o SetToSeq(UNION {{H(n, <<i>>) : i \in 0..(n-1)} : n \in {1, 2, 3, 5, 8, 13}})
  \o SetToSeq({H(7, <<i, j>>) : i \in 0..6, j \in 0..6} \ {H(7, <<i, i>>) : i \in 0..6})
  \o SetToSeq({LP(n) : n \in {2, 3} \cup {Pow(2, k) + d : k \in 2..30, d \in {-1, 0, 1}} \cup {2147483647, 1000000, 65537, 65538, 131073}})
ASSUME ndJsonSerialize("gen.ndjson", Vectors)
ASSUME PrintT(<<"VERIF-GEN", Len(Vectors)>>)
Init == x = 0
Next == UNCHANGED x
Spec == Init /\ [][Next]_x
=============================================================================
