SPECIFICATION Spec
CONSTANTS
  MaxN = 64
INVARIANTS ThreeConstructionsAgree WrongIndexRejected
CHECK_DEADLOCK FALSE
