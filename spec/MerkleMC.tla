------------------------------ MODULE MerkleMC ------------------------------
(* Leg M for C15: for every leaf count n <= MaxN the recursive definition,  *)
(* the bottom-up construction and the root recomputed from every leaf's    *)
(* RFC 6962 audit path agree (symbolic hash = free term algebra).          *)
EXTENDS Merkle
CONSTANT MaxN
VARIABLE n
Leaves(k) == [i \in 1..k |-> <<i>>]
Init == n = 0
Next == n < MaxN /\ n' = n + 1
Spec == Init /\ [][Next]_n

ThreeConstructionsAgree ==
  LET ls == Leaves(n) root == MTH(ls)
  IN /\ BottomUp(ls) = root
     /\ \A m \in 0..(n - 1) : RootFromPath(m, n, ls[m + 1], Path(m, ls)) = root
     /\ n >= 2 => LET k == LP2(n) IN k < n /\ 2 * k >= n /\ \E e \in 0..30 : k = Pow(2, e)
\* a wrong path or a wrong index is not accepted (the audit-path check is not vacuous)
WrongIndexRejected ==
  n >= 2 => LET ls == Leaves(n)
            IN \A m \in 0..(n - 2) : RootFromPath(m, n, ls[m + 2], Path(m, ls)) # MTH(ls)
=============================================================================
