----------------------------- MODULE MerkleTrace -----------------------------
(***************************************************************************)
(* Leg T/G for C15.  The driver registers a recording crypto.Hash whose    *)
(* k-th digest (of the process) is the 16-byte big-endian encoding of k    *)
(* and which logs the bytes written before each Sum ("calls").  From the logged calls TLC     *)
(* rebuilds the term the real Hasher computed and compares it with MTH.    *)
(***************************************************************************)
EXTENDS Merkle, Json

Trace == ndJsonDeserialize("trace.ndjson")
VARIABLES l, bad
vars == <<l, bad>>

IdOf(b) == IF Len(b) # 16 \/ \E i \in 1..12 : b[i] # 0 \/ b[13] >= 128 THEN 0
           ELSE ((b[13] * 256 + b[14]) * 256 + b[15]) * 256 + b[16]

\* calls: the logged calls <<[id, inp]>> of this event plus older ones its results refer to (ids number the calls of
\* the whole process, so a digest kept from an earlier call still names its preimage)
HasCall(calls, id) == \E k \in DOMAIN calls : calls[k].id = id
CallOf(calls, id) == calls[CHOOSE k \in DOMAIN calls : calls[k].id = id].inp
MaxId(calls) == IF Len(calls) = 0 THEN 0 ELSE calls[Len(calls)].id        \* shipped in ascending order

RECURSIVE TermOf(_, _, _)
TermOf(calls, id, bound) ==       \* ids must decrease strictly: the log is acyclic
  IF id < 1 \/ ~HasCall(calls, id) \/ id >= bound THEN <<"bad">>
  ELSE LET inp == CallOf(calls, id)
       IN IF Len(inp) = 0 THEN <<"empty">>
          ELSE IF inp[1] = 0 THEN <<"leaf", SubSeq(inp, 2, Len(inp))>>
          ELSE IF inp[1] = 1 /\ Len(inp) = 33
               THEN <<"node", TermOf(calls, IdOf(SubSeq(inp, 2, 17)), id), TermOf(calls, IdOf(SubSeq(inp, 18, 33)), id)>>
               ELSE <<"bad">>

MinOf(S) == CHOOSE x \in S : \A y \in S : x <= y

Conforms(e) ==
  CASE e.op = "merkle.Hash" ->
         IF Len(e.in.fail) = 0
         THEN /\ e.out.panic = "" /\ e.out.ok /\ e.out.unmodified /\ e.out.size = 16
              /\ TermOf(e.out.calls, IdOf(e.out.root), MaxId(e.out.calls) + 1) = MTH(e.in.leaves)
              /\ Len(e.in.leaves) = 0 => TermOf(e.out.calls, IdOf(e.out.emptyroot), MaxId(e.out.calls) + 1) = <<"empty">>
         ELSE /\ e.out.panic = "" /\ ~e.out.ok /\ e.out.unmodified
              /\ e.out.root = <<>>
              /\ e.out.err = MinOf(RangeOf(e.in.fail))        \* the first marshaling error
    [] e.op = "merkle.Real" ->      \* real hash functions folded over the specification's tree shape
         /\ e.out.panic = "" /\ e.out.ok
         /\ e.in.shape = (IF e.in.n = 0 THEN 0 ELSE Shape(1, e.in.n))
         /\ e.out.root = e.out.fold /\ Len(e.out.root) = e.out.size
         /\ e.out.root2 = e.out.root /\ e.out.intact                       \* hashing twice gives the same root, leaves untouched
    [] e.op = "merkle.Big" ->       \* large leaf counts against the bottom-up construction (MerkleMC: equal to MTH)
         /\ e.out.panic = "" /\ e.out.ok /\ e.out.root = e.out.bottomup /\ Len(e.out.root) = e.out.size /\ e.out.intact
    [] e.op = "merkle.BigErr" ->    \* large trees with several failing leaves: the first marshaling error in leaf order, no hash
         /\ e.out.panic = "" /\ ~e.out.ok /\ e.out.root = <<>> /\ e.out.err = MinOf(RangeOf(e.in.fail))
    [] e.op = "merkle.Par" -> e.out.panic = "" /\ e.out.ok            \* separately created Hashers used at the same time answer as alone (compared in the driver)
    [] e.op = "merkle.Empty" -> e.out.panic = "" /\ e.out.ok           \* H() for no leaves, whatever earlier callers did with their copies
    [] e.op = "merkle.lp2" ->
         /\ e.out.panic = "" /\ e.out.k = LP2(e.in.n)
    [] OTHER -> FALSE

Init == l = 1 /\ bad = <<>>
Next == /\ l <= Len(Trace)
        /\ l' = l + 1
        /\ bad' = IF Conforms(Trace[l]) THEN bad ELSE Append(bad, l)
Spec == Init /\ [][Next]_vars
Done == (l = Len(Trace) + 1) => PrintT(<<"VERIF-RESULT", Len(Trace), bad>>)
=============================================================================
