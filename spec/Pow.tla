--------------------------------- MODULE Pow ---------------------------------
(***************************************************************************)
(* Proof of work (pkg/pow, pkg/pow/v2).                                    *)
(*   PowHash(digest, nonce8)  Curl-P-81 hash of b1t6(digest) ++ b1t6(nonce)*)
(*                            ++ 000 (nonce8 = the 8 little-endian bytes)   *)
(*   v1: Score = 3^z / len, z = trailing zero trits of the hash            *)
(*   v2: h = hash read as little-endian base-3 number (digit 2 for -1) + 1,*)
(*       d = floor(3^243 / h), Score = min(floor(d / len), 2^64 - 1)       *)
(* The BLAKE2b-256 digest of the data is a logged fact.  Floats are logged *)
(* as [m |-> BigNat, e |-> Int] meaning m * 2^e (exact).                   *)
(***************************************************************************)
EXTENDS CurlP81, B1T, BigNat

\* (the digest of the configured hash function - 32 bytes for the default BLAKE2b-256, fewer for e.g. SHA-224 or SHA-1 -
\* then the nonce, then zero trits up to one Curl block)
PowBlock(digest, nonce8) == LET b == B6Encode(digest) \o B6Encode(nonce8) IN b \o [i \in 1..(243 - Len(b)) |-> 0]
PowHash(digest, nonce8) == SpongeOut(<<PowBlock(digest, nonce8)>>, 1, N81, R81)

TrailingZeros(h) ==
  LET nz == {i \in DOMAIN h : h[i] # 0}
  IN IF nz = {} THEN Len(h) ELSE Len(h) - (CHOOSE i \in nz : \A j \in nz : j <= i)

-----------------------------------------------------------------------------
\* exact float comparisons:  f = [m, e]  value m * 2^e

FloatGe(a, b) ==           \* a >= b
  IF a.e >= b.e THEN BNLe(b.m, BNShl(a.m, a.e - b.e)) ELSE BNLe(BNShl(b.m, b.e - a.e), a.m)

\* |s - num/den| <= one unit in the last place of s  (num BigNat, den small int)
FloatIsQuotient(s, num, den) ==
  LET lo == BNMulInt(BNSub(s.m, <<1>>), den)        \* (m-1)*den   (m >= 1)
      hi == BNMulInt(BNAdd(s.m, <<1>>), den)
  IN IF s.e >= 0 THEN BNLe(BNShl(lo, s.e), num) /\ BNLe(num, BNShl(hi, s.e))
     ELSE LET n2 == BNShl(num, 0 - s.e) IN BNLe(lo, n2) /\ BNLe(n2, hi)

Score1Conforms(score, z, len) == score.m # <<>> /\ FloatIsQuotient(score, BNPow3Table[z], len)

\* least z with 3^z >= len * t for t = [m, e] (the number of zeros Mine must look for), z in 0..243
Enough(z, len, t) ==       \* 3^z / len >= t  <=>  3^z >= len * m * 2^e
  IF t.e >= 0 THEN BNLe(BNShl(BNMulInt(t.m, len), t.e), BNPow3Table[z])
  ELSE BNLe(BNMulInt(t.m, len), BNShl(BNPow3Table[z], 0 - t.e))
RequiredZeros(len, t) == CHOOSE z \in 0..243 : Enough(z, len, t) /\ \A y \in 0..(z - 1) : ~Enough(y, len, t)

-----------------------------------------------------------------------------
\* v2

MaxHash == BNPow3Table[243]
U64Max == BNSub(BNPow2(64), <<1>>)
HInt(h) ==      \* little-endian base 3, digit 2 for -1, plus one
  BNAddInt(FoldLeft(LAMBDA acc, i : BNAddInt(BNMulInt(acc, 3), IF h[Len(h) + 1 - i] = -1 THEN 2 ELSE h[Len(h) + 1 - i]),
                    <<>>, [i \in DOMAIN h |-> i]), 1)

Qualifies(h, lx) == BNLe(BNMul(HInt(h), lx), MaxHash)                         \* floor(3^243/h) >= lx
StrictlyQualifies(h, lx) == BNLe(BNMul(HInt(h), BNAdd(lx, <<1>>)), MaxHash)   \* floor(3^243/h) >  lx
\* s = least with 3^s >= lx
Sufficient(lx) == CHOOSE s \in 0..243 : BNLe(lx, BNPow3Table[s]) /\ \A y \in 0..(s - 1) : ~BNLe(lx, BNPow3Table[y])

\* Score2 via certificates: d = floor(3^243 / h), q = floor(d / len)
Score2Conforms(score, h, len, cert) ==
  /\ BNDivCert(MaxHash, HInt(h), cert.d, cert.r1)
  /\ BNDivCert(cert.d, BNFromInt(len), cert.q, cert.r2)
  /\ score = (IF BNLe(cert.q, U64Max) THEN cert.q ELSE U64Max)
=============================================================================
