SPECIFICATION Spec
CONSTANTS
  HL = 4
  NL = 2
INVARIANTS V1LaneTest V2Sound V2Complete StrictNeedsZeros SZerosSuffice
CHECK_DEADLOCK FALSE
