-------------------------------- MODULE PowMC --------------------------------
(***************************************************************************)
(* Leg M for C11/C12 at a scaled hash length HL (all quantities fit TLC    *)
(* integers): every state of NL lanes of valid trits x every lx.           *)
(*  v1 lane test: returns the first lane with >= n trailing zeros.         *)
(*  v2 three-stage test as coded (mask with s-1 zeros, fast accept with s  *)
(*  zeros, big-int compare with the target hash) returns a qualifying lane *)
(*  whenever a strictly qualifying lane exists and never a non-qualifying  *)
(*  one; a strictly qualifying hash has at least s-1 trailing zeros.       *)
(***************************************************************************)
EXTENDS VLib
CONSTANTS HL, NL
VARIABLES lanes, lx
vars == <<lanes, lx>>

MaxH == 3 ^ HL
Hashes == [1..HL -> Trit]
LxSet == (1..12) \cup {3 ^ k + d : k \in 2..HL, d \in {-1, 0, 1}} \cup {MaxH + 5}
Init == lanes \in [1..NL -> Hashes] /\ lx \in LxSet
Next == UNCHANGED vars
Spec == Init /\ [][Next]_vars

TZ(h) == LET nz == {i \in 1..HL : h[i] # 0} IN IF nz = {} THEN HL ELSE HL - (CHOOSE i \in nz : \A j \in nz : j <= i)
HIntS(h) == FoldLeft(LAMBDA acc, i : 3 * acc + (IF h[HL + 1 - i] = -1 THEN 2 ELSE h[HL + 1 - i]), 0, [i \in 1..HL |-> i]) + 1
Diff(h) == MaxH \div HIntS(h)
Qual(h) == Diff(h) >= lx
Strict(h) == Diff(h) > lx
S == CHOOSE s \in 0..(HL + 1) : (s = HL + 1 \/ 3 ^ s >= lx) /\ \A y \in 0..(s - 1) : 3 ^ y < lx
Target == MaxH \div (lx + 1)
None == NL + 1

\* v1: first lane whose last n trits are all zero
Check1(n) == LET ok == {j \in 1..NL : \A i \in (HL - n + 1)..HL : lanes[j][i] = 0}
             IN IF ok = {} THEN None ELSE CHOOSE j \in ok : \A k \in ok : j <= k
\* v2 as coded
Check2 ==
  LET req == S - 1
      cand == {j \in 1..NL : \A i \in (HL - req + 1)..HL : lanes[j][i] = 0}          \* bit of v is 0
      suff == {j \in cand : lanes[j][HL - S + 1] = 0}                                  \* bit of w is 0
  IN IF cand = {} THEN None
     ELSE IF suff # {} THEN CHOOSE j \in suff : \A k \in suff : j <= k
     ELSE LET good == {j \in cand : HIntS(lanes[j]) <= Target}
          IN IF good = {} THEN None ELSE CHOOSE j \in good : \A k \in good : j <= k

V1LaneTest == \A n \in 0..HL :
   LET r == Check1(n) IN (r = None <=> \A j \in 1..NL : TZ(lanes[j]) < n)
                         /\ (r # None => TZ(lanes[r]) >= n /\ \A j \in 1..(r - 1) : TZ(lanes[j]) < n)
V2Sound == (S <= HL /\ S >= 1) => (Check2 # None => Qual(lanes[Check2]))
V2Complete == (S <= HL /\ S >= 1) => ((\E j \in 1..NL : Strict(lanes[j])) => Check2 # None)
StrictNeedsZeros == (S >= 1) => \A j \in 1..NL : Strict(lanes[j]) => TZ(lanes[j]) >= S - 1
SZerosSuffice == (S <= HL) => \A j \in 1..NL : TZ(lanes[j]) >= S => Qual(lanes[j])
=============================================================================
