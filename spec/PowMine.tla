------------------------------- MODULE PowMine -------------------------------
(***************************************************************************)
(* The concurrent protocol of Worker.Mine (pkg/pow/worker.go and           *)
(* pkg/pow/v2/worker.go, identical in structure).                          *)
(*                                                                         *)
(* Processes: main (the caller inside Mine), the cancellation watcher,     *)
(* NW workers, and the environment (cancels the context at any instant,    *)
(* also before the call).  Shared state: the context, the stop flag        *)
(* `done`, the buffered channel `results` (capacity Cap; the code uses     *)
(* NW), the channel `closing`, the WaitGroup counter.                      *)
(*                                                                         *)
(* One action per stretch of code between two consecutive hook points      *)
(* (verifHook calls, build tag verif); the pc values are the names of the  *)
(* hook a process has reached:                                             *)
(*   worker : init -> start -> batch* -> found -> stored -> sent -> finished *)
(*                         \-> exit ------------------------------> finished *)
(*   watcher: init -> select -> ctxdone -> stored -> finished                *)
(*                          \-> closing ----------> finished                 *)
(*   main   : waiting -> joined -> closed -> returned                        *)
(* A worker's step out of "start"/"batch" ends with the load of `done`     *)
(* that decides whether another batch begins.  Whether a batch finds a     *)
(* nonce is nondeterministic within Mode (always / never / either).        *)
(***************************************************************************)
EXTENDS Integers, Sequences, FiniteSets, TLC

CONSTANTS
  \* @type: Int;
  NW,        \* number of workers
  \* @type: Int;
  Cap,       \* capacity of the results channel (NW in the code)
  \* @type: Str;
  Mode       \* "always" | "never" | "either"

\* (type annotations are comments for TLC / SANY; Apalache reads them for the inductive-invariant check of PowMineInd)
VARIABLES
  \* @type: Str;
  ctx,
  \* @type: Int;
  done,
  \* @type: Seq(Int);
  results,
  \* @type: Bool;
  resultsClosed,
  \* @type: Bool;
  closingClosed,
  \* @type: Int;
  wg,
  \* @type: Int -> Str;
  pcw,
  \* @type: Str;
  pcwt,
  \* @type: Str;
  pcm,
  \* @type: Int;
  ret,
  \* @type: <<Str, Int, Str>>;
  last
vars == <<ctx, done, results, resultsClosed, closingClosed, wg, pcw, pcwt, pcm, ret, last>>
modelVars == <<ctx, done, results, resultsClosed, closingClosed, wg, pcw, pcwt, pcm, ret>>

Workers == 1..NW

Init == /\ ctx = "live" /\ done = 0 /\ results = <<>> /\ resultsClosed = FALSE /\ closingClosed = FALSE
        /\ wg = NW /\ pcw = [i \in Workers |-> "init"] /\ pcwt = "init" /\ pcm = "waiting"
        /\ ret = 0 /\ last = <<"init", 0, "init">>

\* ------------------------------------------------------------ environment
Cancel == /\ ctx = "live" /\ ctx' = "cancelled"
          /\ last' = <<"env", 0, "cancel">>
          /\ UNCHANGED <<done, results, resultsClosed, closingClosed, wg, pcw, pcwt, pcm, ret>>

\* ------------------------------------------------------------ workers
\* The loop condition: the stop flag `done` decides; an implementation may also let the workers look at the context
\* itself, so once the context is cancelled a worker may stop even before the watcher has raised the flag.
AfterLoadSet == IF done = 1 THEN {"exit"} ELSE IF ctx = "cancelled" THEN {"batch", "exit"} ELSE {"batch"}

KStart(i) == /\ pcw[i] = "init" /\ pcw' = [pcw EXCEPT ![i] = "start"]
             /\ last' = <<"k", i, "start">>
             /\ UNCHANGED <<ctx, done, results, resultsClosed, closingClosed, wg, pcwt, pcm, ret>>
KLoad(i) == /\ pcw[i] = "start" /\ \E nx \in AfterLoadSet : pcw' = [pcw EXCEPT ![i] = nx] /\ last' = <<"k", i, nx>>
            /\ UNCHANGED <<ctx, done, results, resultsClosed, closingClosed, wg, pcwt, pcm, ret>>
KBatchFound(i) == /\ pcw[i] = "batch" /\ Mode \in {"always", "either"}
                  /\ pcw' = [pcw EXCEPT ![i] = "found"]
                  /\ last' = <<"k", i, "found">>
                  /\ UNCHANGED <<ctx, done, results, resultsClosed, closingClosed, wg, pcwt, pcm, ret>>
KBatchNone(i) == /\ pcw[i] = "batch" /\ Mode \in {"never", "either"}
                 /\ \E nx \in AfterLoadSet : pcw' = [pcw EXCEPT ![i] = nx] /\ last' = <<"k", i, nx>>
                 /\ UNCHANGED <<ctx, done, results, resultsClosed, closingClosed, wg, pcwt, pcm, ret>>
KStore(i) == /\ pcw[i] = "found" /\ done' = 1 /\ pcw' = [pcw EXCEPT ![i] = "stored"]
             /\ last' = <<"k", i, "stored">>
             /\ UNCHANGED <<ctx, results, resultsClosed, closingClosed, wg, pcwt, pcm, ret>>
KSend(i) == /\ pcw[i] = "stored" /\ Len(results) < Cap /\ ~resultsClosed      \* a send on a full channel blocks
            /\ results' = Append(results, i) /\ pcw' = [pcw EXCEPT ![i] = "sent"]
            /\ last' = <<"k", i, "sent">>
            /\ UNCHANGED <<ctx, done, resultsClosed, closingClosed, wg, pcwt, pcm, ret>>
KFinish(i) == /\ pcw[i] \in {"sent", "exit"} /\ pcw' = [pcw EXCEPT ![i] = "finished"] /\ wg' = wg - 1   \* deferred wg.Done()
              /\ last' = <<"k", i, "finished">>
              /\ UNCHANGED <<ctx, done, results, resultsClosed, closingClosed, pcwt, pcm, ret>>
WorkerStep(i) == KStart(i) \/ KLoad(i) \/ KBatchFound(i) \/ KBatchNone(i) \/ KStore(i) \/ KSend(i) \/ KFinish(i)

\* ------------------------------------------------------------ watcher
WStart == /\ pcwt = "init" /\ pcwt' = "select" /\ last' = <<"w", 0, "select">>
          /\ UNCHANGED <<ctx, done, results, resultsClosed, closingClosed, wg, pcw, pcm, ret>>
WSelCtx == /\ pcwt = "select" /\ ctx = "cancelled" /\ pcwt' = "ctxdone" /\ last' = <<"w", 0, "ctxdone">>
           /\ UNCHANGED <<ctx, done, results, resultsClosed, closingClosed, wg, pcw, pcm, ret>>
WSelClosing == /\ pcwt = "select" /\ closingClosed /\ pcwt' = "closing" /\ last' = <<"w", 0, "closing">>
               /\ UNCHANGED <<ctx, done, results, resultsClosed, closingClosed, wg, pcw, pcm, ret>>
WStore == /\ pcwt = "ctxdone" /\ done' = 1 /\ pcwt' = "stored" /\ last' = <<"w", 0, "stored">>
          /\ UNCHANGED <<ctx, results, resultsClosed, closingClosed, wg, pcw, pcm, ret>>
WFinish == /\ pcwt \in {"stored", "closing"} /\ pcwt' = "finished" /\ last' = <<"w", 0, "finished">>
           /\ UNCHANGED <<ctx, done, results, resultsClosed, closingClosed, wg, pcw, pcm, ret>>
WatcherStep == WStart \/ WSelCtx \/ WSelClosing \/ WStore \/ WFinish

\* ------------------------------------------------------------ main
MJoin == /\ pcm = "waiting" /\ wg = 0 /\ pcm' = "joined" /\ last' = <<"m", 0, "joined">>          \* wg.Wait() returns
         /\ UNCHANGED <<ctx, done, results, resultsClosed, closingClosed, wg, pcw, pcwt, ret>>
MClose == /\ pcm = "joined" /\ resultsClosed' = TRUE /\ closingClosed' = TRUE /\ pcm' = "closed"
          /\ last' = <<"m", 0, "closed">>
          /\ UNCHANGED <<ctx, done, results, wg, pcw, pcwt, ret>>
MRecv == /\ pcm = "closed" /\ pcm' = "returned"
         /\ ret' = IF results # <<>> THEN Head(results) ELSE -1                 \* nonce, ok := <-results  (-1 stands for ErrCancelled)
         /\ results' = IF results # <<>> THEN Tail(results) ELSE results
         /\ last' = <<"m", 0, "returned">>
         /\ UNCHANGED <<ctx, done, resultsClosed, closingClosed, wg, pcw, pcwt>>
\* Mine may notice a context that is already cancelled before it starts anything and return the cancellation error at
\* once (no goroutine is started, nothing to join): a legitimate variant of the protocol, modelled as one step
MEarly == /\ pcm = "waiting" /\ ctx = "cancelled" /\ pcwt = "init" /\ \A i \in Workers : pcw[i] = "init"
          /\ pcm' = "returned" /\ ret' = -1
          /\ pcw' = [i \in Workers |-> "finished"] /\ pcwt' = "finished" /\ wg' = 0
          /\ last' = <<"m", 0, "returned">>
          /\ UNCHANGED <<ctx, done, results, resultsClosed, closingClosed>>
\* Once the context is cancelled the cancellation error is a legitimate answer even if a nonce was delivered as well
MRecvCancelled == /\ pcm = "closed" /\ ctx = "cancelled" /\ pcm' = "returned" /\ ret' = -1
                  /\ last' = <<"m", 0, "returned">>
                  /\ UNCHANGED <<ctx, done, results, resultsClosed, closingClosed, wg, pcw, pcwt>>
MainStep == MJoin \/ MClose \/ MRecv \/ MRecvCancelled \/ MEarly

Next == Cancel \/ (\E i \in Workers : WorkerStep(i)) \/ WatcherStep \/ MainStep

Fairness == /\ \A i \in Workers : WF_vars(WorkerStep(i))
            /\ WF_vars(WatcherStep) /\ WF_vars(MainStep)
Spec == Init /\ [][Next]_vars /\ Fairness

View == modelVars            \* `last` only labels transitions

-----------------------------------------------------------------------------
\* safety

TypeOK == /\ done \in {0, 1} /\ wg \in 0..NW /\ Len(results) <= Cap
          /\ ret \in {0, -1} \cup Workers

\* a finder is never blocked on its send
SendNeverBlocks == \A i \in Workers : pcw[i] = "stored" => Len(results) < Cap /\ ~resultsClosed
\* a returned nonce was found (and sent) by a worker
NonceOnlyIfFound == (pcm = "returned" /\ ret \in Workers) => pcw[ret] = "finished" /\ done = 1
\* the cancellation error only if the context was cancelled
CancelledOnlyIfCancelled == (pcm = "returned" /\ ret = -1) => ctx = "cancelled"
\* when Mine returns every worker has finished, and the watcher has finished or can finish at once
JoinedAtReturn == pcm \in {"joined", "closed", "returned"} => \A i \in Workers : pcw[i] = "finished"
WatcherReleased == pcm = "returned" => (pcwt # "init" /\ pcwt # "select") \/ closingClosed
\* the only states without a successor are complete terminations
Terminated == pcm = "returned" /\ pcwt = "finished" /\ \A i \in Workers : pcw[i] = "finished"
NoStuckState == (~ENABLED Next) => Terminated

\* liveness (under weak fairness of every process)
CancelLeadsToReturn == (ctx = "cancelled") ~> (pcm = "returned")
FoundLeadsToReturn == (\E i \in Workers : pcw[i] = "found") ~> (pcm = "returned")
AlwaysModeReturns == (Mode = "always") => <>(pcm = "returned")
NoLeak == (pcm = "returned") ~> Terminated
=============================================================================
