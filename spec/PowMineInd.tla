----------------------------- MODULE PowMineInd -----------------------------
(***************************************************************************)
(* An inductive invariant of PowMine, discharged by Apalache               *)
(*   Init => IndInv              init Init,    inv IndInv, length 0        *)
(*   IndInv /\ Next => IndInv'   init IndInit, inv IndInv, length 1        *)
(*   IndInv => Safety            init IndInit, inv Safety, length 0        *)
(* for each number of workers separately (constants fixed by CInit1 .. CInit6).  *)
(* Unlike the TLC runs this does not enumerate reachable states: it holds   *)
(* for every state satisfying IndInv, so the safety clauses of C13 follow   *)
(* for the given NW by induction, in every mode at once.                    *)
(***************************************************************************)
EXTENDS PowMine, Apalache

PCW == {"init", "start", "batch", "found", "stored", "sent", "exit", "finished"}
PCWT == {"init", "select", "ctxdone", "closing", "stored", "finished"}
PCM == {"waiting", "joined", "closed", "returned"}

\* @type: (Seq(Int)) => Set(Int);
RangeOf(s) == {s[k] : k \in DOMAIN s}

Typed == /\ ctx \in {"live", "cancelled"} /\ done \in {0, 1}
         /\ resultsClosed \in BOOLEAN /\ closingClosed \in BOOLEAN
         /\ wg \in 0..NW /\ pcw \in [Workers -> PCW] /\ pcwt \in PCWT /\ pcm \in PCM
         /\ ret \in {0, -1} \cup Workers
         /\ Len(results) <= NW /\ \A k \in DOMAIN results : results[k] \in Workers

\* who may still be counted by the WaitGroup
Unfinished == {i \in Workers : pcw[i] # "finished"}

IndInv ==
  /\ Typed
  /\ Cap = NW /\ NW >= 1 /\ Mode \in {"always", "never", "either"}
  /\ wg = Cardinality(Unfinished)
  \* the channel holds each sender once, and only workers past their send
  /\ \A k, m \in DOMAIN results : k # m => results[k] # results[m]
  /\ \A k \in DOMAIN results : pcw[results[k]] \in {"sent", "finished"}
  /\ \A i \in Workers : pcw[i] \in {"stored", "sent"} => done = 1
  /\ results # <<>> => done = 1
  \* the watcher only acts on a cancelled context / a closed channel
  /\ pcwt \in {"ctxdone", "stored"} => ctx = "cancelled"
  /\ pcwt = "closing" => closingClosed
  \* main: closes only after the join, receives only after the close
  /\ pcm \in {"joined", "closed", "returned"} => Unfinished = {}
  /\ (resultsClosed \/ closingClosed) => pcm \in {"closed", "returned"}
  /\ pcm = "closed" => resultsClosed /\ closingClosed
  /\ pcm = "returned" => (closingClosed \/ pcwt = "finished")
  /\ pcm # "returned" => ret = 0
  \* why the stop flag is up, and why a worker left without a find (until main has received)
  /\ pcm # "returned" =>
        /\ \A i \in Workers : pcw[i] = "sent" => i \in RangeOf(results)
        /\ done = 1 => \/ ctx = "cancelled" \/ results # <<>> \/ \E i \in Workers : pcw[i] = "stored"
        /\ \A i \in Workers : (pcw[i] = "exit" \/ (pcw[i] = "finished" /\ i \notin RangeOf(results)))
                                 => (done = 1 \/ ctx = "cancelled")
  /\ pcm = "returned" =>
        /\ ret = -1 => ctx = "cancelled"
        /\ ret \in Workers => pcw[ret] = "finished" /\ done = 1
        /\ ret # 0

\* the safety clauses of PowMineSafety.cfg that do not use ENABLED
Safety == TypeOK /\ SendNeverBlocks /\ NonceOnlyIfFound /\ CancelledOnlyIfCancelled /\ JoinedAtReturn /\ WatcherReleased

\* an arbitrary state satisfying IndInv (`last` only labels transitions and is read by nothing)
IndInit ==
  /\ ctx \in {"live", "cancelled"} /\ done \in {0, 1}
  /\ resultsClosed \in BOOLEAN /\ closingClosed \in BOOLEAN
  /\ wg \in 0..NW /\ pcw \in [Workers -> PCW] /\ pcwt \in PCWT /\ pcm \in PCM
  /\ ret \in {0, -1} \cup Workers
  /\ results = Gen(6)                  \* any sequence of at most 6 integers; Typed (in IndInv) bounds it by NW
  /\ last = <<"any", 0, "any">>
  /\ IndInv

\* vacuity controls: each of these "invariants" must be reported VIOLATED from IndInit (the states exist)
W1 == ~(pcm = "returned" /\ ret \in Workers)
W2 == ~(\E i \in Workers : pcw[i] = "stored" /\ Len(results) = NW - 1)
W3 == ~(pcm = "returned" /\ ret = -1 /\ results # <<>>)
W4 == ~(pcm = "waiting" /\ done = 1 /\ ctx = "live" /\ \E i \in Workers : pcw[i] = "batch")

CInit1 == NW = 1 /\ Cap = 1 /\ Mode \in {"always", "never", "either"}
CInit2 == NW = 2 /\ Cap = 2 /\ Mode \in {"always", "never", "either"}
CInit3 == NW = 3 /\ Cap = 3 /\ Mode \in {"always", "never", "either"}
CInit4 == NW = 4 /\ Cap = 4 /\ Mode \in {"always", "never", "either"}
CInit5 == NW = 5 /\ Cap = 5 /\ Mode \in {"always", "never", "either"}
CInit6 == NW = 6 /\ Cap = 6 /\ Mode \in {"always", "never", "either"}
\* control: an undersized channel (what seeded change C13-m1 did) must break the induction
CInitBad == NW = 3 /\ Cap = 1 /\ Mode \in {"always", "never", "either"}
=============================================================================
