SPECIFICATION Spec
CONSTANTS
  NW = 2
  Cap = 2
  Mode = "either"
PROPERTIES CancelLeadsToReturn FoundLeadsToReturn AlwaysModeReturns NoLeak
CHECK_DEADLOCK FALSE
