SPECIFICATION Spec
CONSTANTS
  NC = 2
  NW = 2
  Share = "none"
  Slots = 2
  Mode1 = "never"
  Mode2 = "either"
  Mode3 = "never"
  CancelOf = {1, 2}
INVARIANTS CancelledOnlyIfOwnCancelled NonceOnlyIfFound JoinedAtReturn
PROPERTIES CancelLeadsToReturn AlwaysReturns NoLeak
CHECK_DEADLOCK FALSE
