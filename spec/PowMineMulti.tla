---------------------------- MODULE PowMineMulti ----------------------------
(***************************************************************************)
(* Several Mine calls at the same time (C13: "every interleaving of        *)
(* workers, the cancellation watcher and the caller" - a caller may have   *)
(* several calls in flight, on one Worker value or on separate ones).      *)
(*                                                                         *)
(* The protocol of ONE call is module PowMine; here every variable of      *)
(* PowMine becomes a function of the call c \in Calls and the actions are  *)
(* the same, indexed by c.  What a correct implementation shares between   *)
(* calls is nothing (Share = "none"): `done`, `results`, `closing` and the *)
(* WaitGroup are locals of Mine.  Two typical "optimisations" are named    *)
(* deviations, so that TLC shows which interface-level clause of           *)
(* PowMineTrace (outcome-only traces) exposes them:                        *)
(*   Share = "done"  : the stop flag lives in the Worker value; all calls  *)
(*                     on it read and write the same flag;                 *)
(*   Share = "slots" : a process-wide semaphore with Slots places bounds   *)
(*                     the number of hashing workers; a worker takes a     *)
(*                     place before it starts (a blocking acquire that     *)
(*                     looks at neither `done` nor the context) and gives  *)
(*                     it back when it finishes.                           *)
(* Mode[c] says whether the batches of call c may find a nonce.            *)
(* Environment: cancels the context of any call in CancelOf at any time.   *)
(***************************************************************************)
EXTENDS Integers, Sequences, FiniteSets, TLC

CONSTANTS NC,        \* number of concurrent calls
          NW,        \* workers per call
          Share,     \* "none" | "done" | "slots"
          Slots,     \* places of the semaphore (Share = "slots")
          Mode1, Mode2, Mode3,   \* the modes of calls 1..3: "always" | "never" | "either"  (NC <= 3)
          CancelOf   \* set of calls whose context the environment may cancel

ASSUME NC \in 1..3
Calls == 1..NC
ModeOf == <<Mode1, Mode2, Mode3>>
Workers == 1..NW

VARIABLES ctx, done, results, closed, wg, pcw, pcwt, pcm, ret, free
vars == <<ctx, done, results, closed, wg, pcw, pcwt, pcm, ret, free>>

\* the cell of `done` a call uses
D(c) == IF Share = "done" THEN 1 ELSE c

Init == /\ ctx = [c \in Calls |-> "live"] /\ done = [c \in Calls |-> 0]
        /\ results = [c \in Calls |-> <<>>] /\ closed = [c \in Calls |-> FALSE]
        /\ wg = [c \in Calls |-> NW] /\ pcw = [c \in Calls |-> [i \in Workers |-> "init"]]
        /\ pcwt = [c \in Calls |-> "init"] /\ pcm = [c \in Calls |-> "waiting"]
        /\ ret = [c \in Calls |-> 0] /\ free = Slots

Cancel(c) == /\ c \in CancelOf /\ ctx[c] = "live" /\ ctx' = [ctx EXCEPT ![c] = "cancelled"]
             /\ UNCHANGED <<done, results, closed, wg, pcw, pcwt, pcm, ret, free>>

SetW(c, i, v) == pcw' = [pcw EXCEPT ![c][i] = v]
AfterLoad(c) == IF done[D(c)] = 1 THEN "exit" ELSE "batch"

KStart(c, i) == /\ pcw[c][i] = "init"
                /\ IF Share = "slots" THEN free > 0 /\ free' = free - 1 ELSE free' = free     \* blocking acquire
                /\ SetW(c, i, "start")
                /\ UNCHANGED <<ctx, done, results, closed, wg, pcwt, pcm, ret>>
KLoad(c, i) == /\ pcw[c][i] = "start" /\ SetW(c, i, AfterLoad(c))
               /\ UNCHANGED <<ctx, done, results, closed, wg, pcwt, pcm, ret, free>>
KBatchFound(c, i) == /\ pcw[c][i] = "batch" /\ ModeOf[c] \in {"always", "either"} /\ SetW(c, i, "found")
                     /\ UNCHANGED <<ctx, done, results, closed, wg, pcwt, pcm, ret, free>>
KBatchNone(c, i) == /\ pcw[c][i] = "batch" /\ ModeOf[c] \in {"never", "either"} /\ SetW(c, i, AfterLoad(c))
                    /\ UNCHANGED <<ctx, done, results, closed, wg, pcwt, pcm, ret, free>>
KStore(c, i) == /\ pcw[c][i] = "found" /\ done' = [done EXCEPT ![D(c)] = 1] /\ SetW(c, i, "stored")
                /\ UNCHANGED <<ctx, results, closed, wg, pcwt, pcm, ret, free>>
KSend(c, i) == /\ pcw[c][i] = "stored" /\ Len(results[c]) < NW /\ ~closed[c]
               /\ results' = [results EXCEPT ![c] = Append(@, i)] /\ SetW(c, i, "sent")
               /\ UNCHANGED <<ctx, done, closed, wg, pcwt, pcm, ret, free>>
KFinish(c, i) == /\ pcw[c][i] \in {"sent", "exit"} /\ SetW(c, i, "finished") /\ wg' = [wg EXCEPT ![c] = @ - 1]
                 /\ free' = IF Share = "slots" THEN free + 1 ELSE free
                 /\ UNCHANGED <<ctx, done, results, closed, pcwt, pcm, ret>>
WorkerStep(c, i) == KStart(c, i) \/ KLoad(c, i) \/ KBatchFound(c, i) \/ KBatchNone(c, i) \/ KStore(c, i) \/ KSend(c, i) \/ KFinish(c, i)

SetWt(c, v) == pcwt' = [pcwt EXCEPT ![c] = v]
WStart(c) == pcwt[c] = "init" /\ SetWt(c, "select") /\ UNCHANGED <<ctx, done, results, closed, wg, pcw, pcm, ret, free>>
WSelCtx(c) == pcwt[c] = "select" /\ ctx[c] = "cancelled" /\ SetWt(c, "ctxdone") /\ UNCHANGED <<ctx, done, results, closed, wg, pcw, pcm, ret, free>>
WSelClosing(c) == pcwt[c] = "select" /\ closed[c] /\ SetWt(c, "finished") /\ UNCHANGED <<ctx, done, results, closed, wg, pcw, pcm, ret, free>>
WStore(c) == pcwt[c] = "ctxdone" /\ done' = [done EXCEPT ![D(c)] = 1] /\ SetWt(c, "finished") /\ UNCHANGED <<ctx, results, closed, wg, pcw, pcm, ret, free>>
WatcherStep(c) == WStart(c) \/ WSelCtx(c) \/ WSelClosing(c) \/ WStore(c)

MJoin(c) == /\ pcm[c] = "waiting" /\ wg[c] = 0 /\ pcm' = [pcm EXCEPT ![c] = "joined"]
            /\ UNCHANGED <<ctx, done, results, closed, wg, pcw, pcwt, ret, free>>
MClose(c) == /\ pcm[c] = "joined" /\ closed' = [closed EXCEPT ![c] = TRUE] /\ pcm' = [pcm EXCEPT ![c] = "closed"]
             /\ UNCHANGED <<ctx, done, results, wg, pcw, pcwt, ret, free>>
MRecv(c) == /\ pcm[c] = "closed" /\ pcm' = [pcm EXCEPT ![c] = "returned"]
            /\ ret' = [ret EXCEPT ![c] = IF results[c] # <<>> THEN Head(results[c]) ELSE -1]
            /\ UNCHANGED <<ctx, done, results, closed, wg, pcw, pcwt, free>>
MainStep(c) == MJoin(c) \/ MClose(c) \/ MRecv(c)

CallStep(c) == (\E i \in Workers : WorkerStep(c, i)) \/ WatcherStep(c) \/ MainStep(c)
Next == \E c \in Calls : Cancel(c) \/ CallStep(c)

Fairness == \A c \in Calls : /\ \A i \in Workers : WF_vars(WorkerStep(c, i))
                             /\ WF_vars(WatcherStep(c)) /\ WF_vars(MainStep(c))
Spec == Init /\ [][Next]_vars /\ Fairness

-----------------------------------------------------------------------------
\* what PowMineTrace demands of every single call of an outcome-only trace

\* the cancellation error only if the call's OWN context was cancelled
CancelledOnlyIfOwnCancelled == \A c \in Calls : (pcm[c] = "returned" /\ ret[c] = -1) => ctx[c] = "cancelled"
NonceOnlyIfFound == \A c \in Calls : (pcm[c] = "returned" /\ ret[c] \in Workers) => pcw[c][ret[c]] = "finished"
JoinedAtReturn == \A c \in Calls : pcm[c] = "returned" => \A i \in Workers : pcw[c][i] = "finished"
\* a cancelled call returns whatever the other calls do; so does a call whose every batch finds
CancelLeadsToReturn == \A c \in Calls : (ctx[c] = "cancelled") ~> (pcm[c] = "returned")
AlwaysReturns == \A c \in Calls : ModeOf[c] = "always" => <>(pcm[c] = "returned")
NoLeak == \A c \in Calls : (pcm[c] = "returned") ~> (pcwt[c] = "finished")
=============================================================================
