INIT Init
NEXT Next
CONSTANTS
  NW = 3
  Cap = 3
  Mode = "either"
VIEW View
INVARIANTS TypeOK SendNeverBlocks NonceOnlyIfFound CancelledOnlyIfCancelled JoinedAtReturn WatcherReleased NoStuckState
CHECK_DEADLOCK FALSE
