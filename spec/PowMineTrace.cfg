INIT TInit
NEXT TNext
CONSTANTS
  NW = 2
  Cap = 2
  Mode = "either"
INVARIANT NotAccepted
CONSTRAINT Track
POSTCONDITION Post
CHECK_DEADLOCK FALSE
