---------------------------- MODULE PowMineTrace ----------------------------
(***************************************************************************)
(* Trace validation for C13: is a recorded execution of the real Mine a    *)
(* behaviour of PowMine?                                                   *)
(*                                                                         *)
(* Each line of the trace is one hook event <<proc, id, ev>> in the global  *)
(* order of a sequence counter taken (under a mutex) inside the hook.  A    *)
(* hook fires AFTER the stretch of code it ends (e.g. "stored" after the    *)
(* atomic store), so the corresponding PowMine action happened at some      *)
(* unknown instant between the previous event of the same process and this  *)
(* event.  TLC infers that instant: a process may run ONE action ahead of   *)
(* the log (ahead[p]); consuming an event requires that the process is      *)
(* ahead and that its pc is the hook named by the event.  Unlogged final    *)
(* steps (wg.Done, goroutine exit) stay ahead for ever.  The trace is       *)
(* accepted iff some interleaving consumes every line.                      *)
(*                                                                         *)
(* To keep the inference linear in the trace length the placement of an     *)
(* action inside its window is only left open where it can matter:          *)
(*  - a load of `done` that read 0 (next hook "batch") is placed as early   *)
(*    as possible, one that read 1 (next hook "exit") as late as possible:  *)
(*    `done` only goes from 0 to 1, so if any placement explains the loads, *)
(*    this one does;                                                        *)
(*  - a store to `done` may be placed anywhere while done = 0 (which store  *)
(*    comes first, and when, is what the loads depend on) and as late as    *)
(*    possible afterwards (it no longer changes anything);                  *)
(*  - likewise a send while `results` is empty (main receives the first);   *)
(*  - the environment, the watcher and main may act anywhere (three         *)
(*    processes);                                                           *)
(*  - purely local steps are placed as early as possible.                   *)
(***************************************************************************)
EXTENDS PowMine, Json, SequencesExt

Trace == ndJsonDeserialize("trace.ndjson")      \* Trace[1] is the header
Events == SubSeq(Trace, 2, Len(Trace))
NE == Len(Events)

VARIABLES l, ahead
tvars == <<vars, l, ahead>>

Procs == {<<"k", i>> : i \in Workers} \cup {<<"w", 0>>, <<"m", 0>>, <<"env", 0>>}
ProcOf(e) == <<e.proc, e.id>>

\* NextIdx[p][j]: least index >= j of an event of p, 0 if none (j in 1..NE+1); built backwards once
NextIdx ==
  LET step(acc, k) ==        \* k runs NE, NE-1, ..., 1; acc[p] is a sequence indexed by position
        [p \in Procs |-> <<(IF ProcOf(Events[k]) = p THEN k ELSE acc[p][1])>> \o acc[p]]
  IN FoldLeft(step, [p \in Procs |-> <<0>>], [i \in 1..NE |-> NE + 1 - i])
NextLabel(p) == LET k == NextIdx[p][l] IN IF k = 0 THEN "none" ELSE Events[k].ev

StepOf(p) == CASE p[1] = "k" -> WorkerStep(p[2])
               [] p[1] = "w" -> WatcherStep
               [] p[1] = "m" -> MainStep
               [] p[1] = "env" -> Cancel

\* the hook name a process stands at
At(p) == CASE p[1] = "k" -> pcw[p[2]]
           [] p[1] = "w" -> IF pcwt = "select" THEN "start" ELSE pcwt
           [] p[1] = "m" -> pcm
           [] p[1] = "env" -> IF ctx = "cancelled" THEN "cancel" ELSE "none"
\* the same after the step (primed)
AtNext(p) == CASE p[1] = "k" -> pcw'[p[2]]
               [] p[1] = "w" -> IF pcwt' = "select" THEN "start" ELSE pcwt'
               [] p[1] = "m" -> pcm'
               [] p[1] = "env" -> IF ctx' = "cancelled" THEN "cancel" ELSE "none"

TInit == Init /\ l = 1 /\ ahead = [p \in Procs |-> FALSE]

\* p performs its next action now; it must lead to the hook its next logged event names
\* (or, after its last event, to the unlogged end of the goroutine)
Run(p) == /\ ~ahead[p] /\ StepOf(p)
          /\ AtNext(p) = (IF NextLabel(p) = "none" THEN "finished" ELSE NextLabel(p))
          /\ ahead' = [ahead EXCEPT ![p] = TRUE] /\ l' = l

\* placement policy (see the module comment)
Forced(p) ==          \* as early as possible
  /\ ~ahead[p]
  /\ \/ p[1] = "k" /\ NextLabel(p) \in {"start", "batch", "found"}
     \/ p[1] = "k" /\ NextLabel(p) = "none" /\ pcw[p[2]] \in {"sent", "exit"}
     \/ p[1] = "w" /\ NextLabel(p) = "none" /\ pcwt \in {"stored", "closing"}
     \/ p[1] = "w" /\ pcwt = "init" /\ NextLabel(p) = "start"
Free(p) ==            \* anywhere in its window
  /\ ~ahead[p]
  /\ \/ p[1] \in {"w", "m", "env"} /\ NextLabel(p) # "none"
     \/ p[1] = "k" /\ NextLabel(p) = "stored" /\ done = 0
     \/ p[1] = "k" /\ NextLabel(p) = "sent" /\ results = <<>>
Late(p) == ~ahead[p] /\ l <= NE /\ ProcOf(Events[l]) = p       \* right before its own event

ForcedSet == {p \in Procs : Forced(p)}

Consume == /\ l <= NE
           /\ LET e == Events[l] p == ProcOf(e)
              IN /\ p \in Procs /\ ahead[p] /\ At(p) = e.ev
                 \* what Mine returned: a nonce (when a worker of the model sent one) or the cancellation error
                 /\ e.ev = "returned" => /\ (e.val = -1) <=> (ret = -1)        \* the cancellation error exactly when the model says so
                                         /\ (e.val = 1) <=> (ret \in Workers)   \* else a nonce (val = -2: another error, never allowed)
                                         /\ e.leaked = 0            \* no goroutine outlives Mine
                                         /\ ~e.bad_nonce            \* a returned nonce meets the target (Score, in the driver)
                 /\ ahead' = [ahead EXCEPT ![p] = FALSE]
           /\ l' = l + 1
           /\ UNCHANGED vars

\* Outcome-only traces (header.outcome_only): calls whose hook events cannot be attributed to one call - several Mine
\* calls at the same time, on one Worker or on separate ones (module PowMineMulti: calls share nothing, so each call on
\* its own is a behaviour of PowMine).  Only PowMine's invariants at the interface are checked for the judged call: no
\* cancellation error unless its own context was cancelled (CancelledOnlyIfCancelled; header.cancelled says whether the
\* driver cancelled it), a returned nonce meets the target (NonceOnlyIfFound), nothing leaks, and it returns at all
\* (CancelLeadsToReturn / FoundLeadsToReturn: the driver logs "hang" instead of "returned", which no action consumes).
OutcomeOnly == "outcome_only" \in DOMAIN Trace[1] /\ Trace[1].outcome_only
OwnCtxCancelled == "cancelled" \in DOMAIN Trace[1] /\ Trace[1].cancelled
ConsumeOutcome == /\ OutcomeOnly /\ l <= NE
                  /\ LET e == Events[l]
                     IN /\ e.ev = "returned"
                        /\ (e.val = -1) => OwnCtxCancelled   \* the cancellation error only for a cancelled context
                        /\ e.val # -2 /\ ~e.bad_nonce /\ e.leaked = 0
                  /\ l' = l + 1 /\ UNCHANGED <<vars, ahead>>

\* Executions recorded from the repository's own tests (header.env_unlogged): the test cancels its context itself, nothing
\* logs that step.  It is composed into the trace specification as a silent action (at most once: Cancel needs a live context).
EnvUnlogged == "env_unlogged" \in DOMAIN Trace[1] /\ Trace[1].env_unlogged
SilentCancel == EnvUnlogged /\ Cancel /\ UNCHANGED <<l, ahead>>

TNext == IF OutcomeOnly THEN ConsumeOutcome ELSE IF ForcedSet # {}
         THEN Run(CHOOSE p \in ForcedSet : TRUE)      \* any fixed order: forced steps commute
         ELSE \/ Consume
              \/ SilentCancel
              \/ \E p \in Procs : (Free(p) \/ Late(p)) /\ Run(p)
TSpec == TInit /\ [][TNext]_tvars

\* "violated" exactly when the whole trace has been explained
NotAccepted == l # NE + 1

\* diagnostics: the longest explained prefix (needs -workers 1)
ASSUME TLCSet(7, 0)
Track == TLCSet(7, IF l > TLCGet(7) THEN l ELSE TLCGet(7))
Post == PrintT(<<"VERIF-PREFIX", TLCGet(7) - 1, NE>>)
=============================================================================
