------------------------------ MODULE PowTrace ------------------------------
(***************************************************************************)
(* Leg T/G for C11 and C12.  TLC evaluates the Curl-P-81 hash of every     *)
(* returned nonce / scored message itself (from the logged BLAKE2b digest  *)
(* fact), counts zeros, and compares scores exactly (BigNat).              *)
(***************************************************************************)
EXTENDS Pow, Json

Trace == ndJsonDeserialize("trace.ndjson")
VARIABLES l, bad
vars == <<l, bad>>

\* a score is positive; a zero or negative target is met by every score
IsNonPositive(t) == t.m = <<>> \/ ("neg" \in DOMAIN t /\ t.neg)
TargetMet(score, t) == IF IsNonPositive(t) THEN TRUE ELSE FloatGe(score, t)

\* ---------------- v1
ScoreEvent(e) ==
  LET len == Len(e.in.msg)
      nonce == SubSeq(e.in.msg, len - 7, len)
      z == TrailingZeros(PowHash(e.facts.digest, nonce))
  IN /\ e.out.panic = ""
     /\ e.facts.data = SubSeq(e.in.msg, 1, len - 8)
     /\ Score1Conforms(e.out.score, z, len)

Cancellable(e) == "cancel_ms" \in DOMAIN e.in

MineEvent(e) ==
  LET len == Len(e.in.data) + 8
  IN /\ ~e.out.crashed                                  \* Mine must not take the process down
     /\ e.facts.data = e.in.data
     /\ Cancellable(e) \/ e.out.ok                      \* (a call whose context may end early may also return the cancellation error)
     /\ e.out.ok =>
         LET z == TrailingZeros(PowHash(e.facts.digest, e.out.nonce))
         IN /\ Score1Conforms(e.out.score, z, len)       \* Score(data ++ nonce) is 3^z / len ...
            /\ TargetMet(e.out.score, e.in.target)       \* ... and meets the target: a nonce returned WITHOUT error always does
     /\ e.out.data_intact                              \* the caller's data is only read

\* white box: lane j has exactly tz[j] trailing zero trits; first lane with >= n zeros, else 64
Check1Event(e) ==
  LET ok == {j \in 1..64 : e.in.tz[j] >= e.in.n}
  IN e.out.panic = "" /\ (IF ok = {} THEN e.out.idx = 64 ELSE e.out.idx + 1 \in ok)      \* some lane with at least n zeros (which one is free)

\* ---------------- v2
Score2Event(e) ==
  LET len == Len(e.in.msg)
      nonce == SubSeq(e.in.msg, len - 7, len)
  IN /\ e.out.panic = ""
     /\ e.facts.data = SubSeq(e.in.msg, 1, len - 8)
     /\ Score2Conforms(e.out.score, PowHash(e.facts.digest, nonce), len, e.cert)

Mine2Event(e) ==
  LET len == Len(e.in.data) + 8
      lx == BNMulInt(e.in.target, len)
      s == Sufficient(lx)
  IN /\ ~e.out.crashed /\ (Cancellable(e) \/ e.out.ok)
     /\ e.facts.data = e.in.data
     /\ IF ~e.out.ok THEN TRUE                                                     \* (only possible for a cancellable call)
        ELSE IF e.in.target = <<>> THEN Len(e.out.nonce) = 8                       \* target 0: every nonce qualifies
        ELSE /\ Qualifies(PowHash(e.facts.digest, e.out.nonce), lx)               \* sound
             \* single worker: no earlier block of 64 nonces holds a strictly qualifying nonce
             /\ e.in.workers = 1 =>
                  \A b \in DOMAIN e.facts.blocks :
                     LET blk == e.facts.blocks[b]
                     IN /\ \A c \in RangeOf(blk.cands) : ~StrictlyQualifies(c.trits, lx)
                        \* lanes with fewer than s-1 zeros cannot strictly qualify (PowMC!StrictNeedsZeros);
                        \* every lane with at least s-1 zeros must be among the logged candidates
                        /\ \A j \in 1..64 : blk.tz[j] >= s - 1 => \E c \in RangeOf(blk.cands) : c.lane = j - 1 /\ TrailingZeros(c.trits) = blk.tz[j]
             \* audit of the hash facts: TLC recomputes the audited candidate itself
             /\ \A a \in RangeOf(e.facts.audit) : PowHash(e.facts.digest, a.nonce) = a.trits

Check2Event(e) ==
  LET lx == e.in.lx
      s == Sufficient(lx)
      full == e.out.full                                    \* [lane, trits] for the lanes whose hash is logged
      FullOf(j) == CHOOSE c \in RangeOf(full) : c.lane = j
      HasFull(j) == \E c \in RangeOf(full) : c.lane = j
  IN /\ e.out.panic = ""
     /\ \A c \in RangeOf(full) : TrailingZeros(c.trits) = e.out.tz[c.lane + 1]
     /\ \A j \in 1..64 : e.out.tz[j] >= s - 1 => HasFull(j - 1)          \* all lanes that could qualify are logged
     /\ e.out.idx \in 0..64
     /\ e.out.idx < 64 => HasFull(e.out.idx) /\ Qualifies(FullOf(e.out.idx).trits, lx)       \* never a non-qualifying lane
     /\ (\E c \in RangeOf(full) : StrictlyQualifies(c.trits, lx)) => e.out.idx < 64          \* never passes over a clear one

Conforms(e) ==
  CASE e.op = "pow.Score" -> ScoreEvent(e)
    [] e.op = "pow.Mine" -> MineEvent(e)
    [] e.op = "pow.check" -> Check1Event(e)
    [] e.op = "pow.required" ->        \* a hash with the z zeros Mine looks for scores at least the target
         /\ e.out.panic = "" /\ e.out.z \in 0..243
         /\ Score1Conforms(e.out.s_z, e.out.z, e.in.len)
         /\ TargetMet(e.out.s_z, e.in.target)
    [] e.op = "pow2.Score" -> Score2Event(e)
    [] e.op = "pow2.Mine" -> Mine2Event(e)
    [] e.op = "pow2.check" -> Check2Event(e)
    [] e.op = "pow2.params" ->         \* sufficientTrailingZeros and targetHash of the code, by what they must guarantee
         /\ e.out.panic = "" /\ e.out.s \in 0..243
         /\ BNLe(e.in.lx, BNPow3Table[e.out.s])                                            \* s zeros are sufficient
         /\ BNWellFormed(e.out.target)
         /\ BNLe(BNMul(e.out.target, e.in.lx), MaxHash)                                    \* every hash up to the target qualifies
         /\ ~BNLe(BNMul(BNAdd(e.out.target, <<1>>), BNAdd(e.in.lx, <<1>>)), MaxHash)       \* no clearly qualifying hash above it
    [] OTHER -> FALSE

Init == l = 1 /\ bad = <<>>
Next == /\ l <= Len(Trace)
        /\ l' = l + 1
        /\ bad' = IF Conforms(Trace[l]) THEN bad ELSE Append(bad, l)
Spec == Init /\ [][Next]_vars
Done == (l = Len(Trace) + 1) => PrintT(<<"VERIF-RESULT", Len(Trace), bad>>)
=============================================================================
