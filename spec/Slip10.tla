------------------------------- MODULE Slip10 -------------------------------
(***************************************************************************)
(* SLIP-0010 / BIP-32 derivation (pkg/slip10).                             *)
(*                                                                         *)
(* A derivation step produces a chain of HMAC-SHA512 candidates            *)
(*   I_0 = HMAC(key, data_0),  I_{j+1} = HMAC(key, Retry(I_j))             *)
(* and asks the curve about I_j's left half until it answers other than    *)
(* "invalid key".  The HMAC values are logged facts; WHICH key and data    *)
(* every fact must be about is defined here.                               *)
(*   master:  key = curve's seed key, data_0 = seed, Retry(I) = I          *)
(*   child :  key = parent chain code,                                     *)
(*            data_0 = 0x00 || ser256(k_par) || ser32(i)      hardened     *)
(*                   = serP(K_par) || ser32(i)                normal       *)
(*            Retry(I) = 0x01 || I_R || ser32(i)                           *)
(* Curve answers: ECDSA curves: invalid iff parse256(I_L) >= n or the      *)
(* resulting key is zero; ed25519: always valid (hardened only); the toy   *)
(* plug-in curve answers by a script (so that every retry pattern and a    *)
(* permanent error can be exercised on the real slip10 code).              *)
(***************************************************************************)
EXTENDS BigNat

Ser32(idx) ==        \* idx = <<hardened (0/1), v>> with v < 2^31: big-endian 4 bytes of v + h*2^31
  <<(idx[2] \div 16777216) + 128 * idx[1], (idx[2] \div 65536) % 256, (idx[2] \div 256) % 256, idx[2] % 256>>
Left(I) == SubSeq(I, 1, 32)
Right(I) == SubSeq(I, 33, 64)

MasterRetryData(I) == I
ChildData0(hardened, kparBytes, pubparBytes, idx) ==
  IF hardened THEN <<0>> \o kparBytes \o Ser32(idx) ELSE pubparBytes \o Ser32(idx)
ChildRetryData(I, idx) == <<1>> \o Right(I) \o Ser32(idx)

\* the chain of facts follows the prescription: same key, first data, retry data
ChainOK(facts, key, data0, Retry(_)) ==
  /\ Len(facts) >= 1
  /\ \A j \in DOMAIN facts : facts[j].key = key /\ Len(facts[j].out) = 64
  /\ facts[1].data = data0
  /\ \A j \in 1..(Len(facts) - 1) : facts[j + 1].data = Retry(facts[j].out)

\* index of the first candidate whose answer is not "invalid" (0 if none within the chain)
FirstDecided(answers) ==
  LET S == {j \in DOMAIN answers : answers[j] # "invalid"} IN IF S = {} THEN 0 ELSE CHOOSE j \in S : \A k \in S : j <= k

\* ECDSA private child: (parse256(I_L) + k_par) mod n, "invalid" if I_L >= n or the sum is 0
EcdsaAnswer(IL, kpar, n) ==
  LET a == BNFromBytesBE(IL) s0 == BNAdd(a, kpar) s == IF BNLe(n, s0) THEN BNSub(s0, n) ELSE s0
  IN IF BNLe(n, a) \/ s = <<>> THEN "invalid" ELSE "ok"
EcdsaChild(IL, kpar, n) ==
  LET a == BNFromBytesBE(IL) s0 == BNAdd(a, kpar) IN IF BNLe(n, s0) THEN BNSub(s0, n) ELSE s0
EcdsaMasterAnswer(IL, n) == LET a == BNFromBytesBE(IL) IN IF a = <<>> \/ BNLe(n, a) THEN "invalid" ELSE "ok"

\* is the derivation defined at all
Defined(curve, parentPrivate, hardened) ==
  /\ hardened => parentPrivate                         \* no hardened child of a public key
  /\ curve = "ed25519" => hardened                     \* ed25519: hardened only
=============================================================================
