SPECIFICATION Spec
CONSTANTS
  K = 3
