------------------------------ MODULE Slip10Gen ------------------------------
(* Leg G for C02: every answer script of the toy plug-in curve up to K         *)
(* candidates (retry patterns and permanent errors), for the master key and    *)
(* for hardened / normal children of private and public parents.               *)
EXTENDS Slip10, Json
CONSTANT K
VARIABLE x
\* scripts: n "invalid" answers followed by a deciding answer; `wrapped`: the plug-in curve returns its invalid-key answers
\* wrapped in another error (errors.Is still recognises them: they are invalid-key answers all the same)
Scripts == { [j \in 1..(n + 1) |-> IF j <= n THEN "invalid" ELSE a] : n \in 0..K, a \in {"ok", "perm"} }
Seed(k) == [i \in 1..(16 + k) |-> (i * 29 + k) % 256]
Idx == {<<0, 0>>, <<0, 1>>, <<1, 0>>, <<1, 2147483647>>, <<0, 2147483647>>}
Vectors ==
  SetToSeq({[op |-> "slip10.master", in |-> [curve |-> "toy", seed |-> Seed(Len(s)), script |-> s, wrapped |-> w]] : s \in Scripts, w \in BOOLEAN})
  \o SetToSeq({[op |-> "slip10.child", in |-> [curve |-> "toy", script |-> s, index |-> i, pub |-> p, seed |-> Seed(3), wrapped |-> w]]
               : s \in Scripts, i \in Idx, p \in BOOLEAN, w \in BOOLEAN})
ASSUME ndJsonSerialize("gen.ndjson", Vectors)
ASSUME PrintT(<<"VERIF-GEN", Len(Vectors)>>)
Init == x = 0
Next == UNCHANGED x
Spec == Init /\ [][Next]_x
=============================================================================
