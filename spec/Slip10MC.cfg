SPECIFICATION Spec
CONSTANTS
  K = 4
INVARIANT FirstDecidedWins
CHECK_DEADLOCK FALSE
