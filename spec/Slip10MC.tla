------------------------------ MODULE Slip10MC ------------------------------
(* Leg M for C02: the retry procedure as a state machine over all answer      *)
(* scripts of a curve (ok / invalid / permanent error) up to K candidates:    *)
(* the result is the first decided candidate; a permanent error ends the      *)
(* derivation without another try; "undefined" derivations never try.         *)
EXTENDS Slip10
CONSTANT K
VARIABLES answers, defined, phase, j, result, tries
vars == <<answers, defined, phase, j, result, tries>>
Init == /\ answers \in [1..K -> {"ok", "invalid", "perm"}] /\ defined \in BOOLEAN
        /\ phase = "start" /\ j = 1 /\ result = 0 /\ tries = <<>>
Start == /\ phase = "start" /\ phase' = IF defined THEN "try" ELSE "failed"
         /\ UNCHANGED <<answers, defined, j, result, tries>>
Try == /\ phase = "try" /\ tries' = Append(tries, j)
       /\ CASE answers[j] = "ok" -> phase' = "done" /\ result' = j /\ j' = j
            [] answers[j] = "perm" -> phase' = "failed" /\ result' = j /\ j' = j
            [] OTHER -> IF j < K THEN phase' = "try" /\ j' = j + 1 /\ result' = result
                        ELSE phase' = "exhausted" /\ j' = j /\ result' = result
       /\ UNCHANGED <<answers, defined>>
Next == Start \/ Try
Spec == Init /\ [][Next]_vars
FirstDecidedWins ==
  /\ phase = "done" => result = FirstDecided(answers) /\ answers[result] = "ok"
  /\ (phase = "failed" /\ defined) => result = FirstDecided(answers) /\ answers[result] = "perm"
  /\ tries = [i \in 1..Len(tries) |-> i]                                   \* candidates are tried in chain order, each once
  /\ \A i \in 1..(Len(tries) - 1) : answers[tries[i]] = "invalid"           \* a retry happens only after "invalid key"
  /\ ~defined => tries = <<>> /\ phase \in {"start", "failed"}
=============================================================================
