----------------------------- MODULE Slip10Trace -----------------------------
(***************************************************************************)
(* Leg G/T for C02: recorded derivations of the real slip10 package on     *)
(* secp256k1, NIST P-256, ed25519 and on a scripted toy plug-in curve.     *)
(***************************************************************************)
EXTENDS Slip10, Json

Trace == ndJsonDeserialize("trace.ndjson")
VARIABLES l, bad
vars == <<l, bad>>

SecN == BNFromBytesBE(<<255,255,255,255,255,255,255,255,255,255,255,255,255,255,255,254,186,174,220,230,175,72,160,59,191,210,94,140,208,54,65,65>>)
P256N == BNFromBytesBE(<<255,255,255,255,0,0,0,0,255,255,255,255,255,255,255,255,188,230,250,173,167,23,158,132,243,185,202,194,252,99,37,81>>)
OrderOf(curve) == IF curve = "secp256k1" THEN SecN ELSE P256N
SeedKey(curve) == CASE curve = "secp256k1" -> <<66,105,116,99,111,105,110,32,115,101,101,100>>
                    [] curve = "p256" -> <<78,105,115,116,50,53,54,112,49,32,115,101,101,100>>
                    [] curve = "ed25519" -> <<101,100,50,53,53,49,57,32,115,101,101,100>>
                    [] OTHER -> <<116,111,121,32,115,101,101,100>>
IsEcdsa(curve) == curve \in {"secp256k1", "p256"}
Zero4 == <<0, 0, 0, 0>>
AddBytes(a, b) == [i \in 1..32 |-> (a[i] + b[i]) % 256]          \* the toy curve's shift

\* the answers the curve gives along the chain of candidates
MasterAnswers(e) ==
  [j \in DOMAIN e.facts.hmac |->
     CASE e.in.curve = "toy" -> IF j <= Len(e.in.script) THEN e.in.script[j] ELSE "perm"
       [] e.in.curve = "ed25519" -> "ok"
       [] OTHER -> EcdsaMasterAnswer(Left(e.facts.hmac[j].out), OrderOf(e.in.curve))]

MasterEvent(e) ==
  LET f == e.facts.hmac ans == MasterAnswers(e) d == FirstDecided(ans)
  IN /\ e.out.panic = ""
     /\ ChainOK(f, SeedKey(e.in.curve), e.in.seed, MasterRetryData)
     /\ d # 0                                                     \* the logged chain is long enough to decide
     /\ e.in.curve = "toy" => /\ Len(e.out.calls) = d             \* exactly the candidates up to the first decided one
                              /\ \A j \in 1..d : e.out.calls[j] = Left(f[j].out)
     /\ IF ans[d] = "ok"
        THEN /\ e.out.ok /\ e.out.private
             /\ e.out.key = Left(f[d].out) /\ e.out.chain = Right(f[d].out)
             /\ e.out.fp = Zero4
        ELSE /\ ~e.out.ok /\ e.out.err = "perm"                   \* a permanent curve error is returned, not retried

ChildAnswers(e, kparBN) ==
  [j \in DOMAIN e.facts.hmac |->
     CASE e.in.curve = "toy" -> IF j <= Len(e.in.script) THEN e.in.script[j] ELSE "perm"
       [] e.in.curve = "ed25519" -> "ok"
       [] e.in.parent.private -> EcdsaAnswer(Left(e.facts.hmac[j].out), kparBN, OrderOf(e.in.curve))
       [] OTHER -> IF BNLe(OrderOf(e.in.curve), BNFromBytesBE(Left(e.facts.hmac[j].out))) THEN "invalid" ELSE "ok"]

ChildEvent(e) ==
  LET hardened == e.in.index[1] = 1
      par == e.in.parent
  IN /\ e.out.panic = ""
     /\ e.out.parent_unchanged                                    \* deriving children never modifies the parent object
     /\ IF ~Defined(e.in.curve, par.private, hardened)
        THEN ~e.out.ok                                            \* undefined derivations fail with an error
        ELSE
        LET f == e.facts.hmac
            kparBN == IF par.private /\ IsEcdsa(e.in.curve) THEN BNFromBytesBE(par.key) ELSE <<>>
            pubpar == IF par.private THEN e.facts.parent_pub.pub ELSE par.key
            ans == ChildAnswers(e, kparBN)
            d == FirstDecided(ans)
        IN /\ par.private => e.facts.parent_pub.of = par.key                   \* the fact is about the parent key
           /\ ChainOK(f, par.chain, ChildData0(hardened, par.key, pubpar, e.in.index), LAMBDA I : ChildRetryData(I, e.in.index))
           /\ d # 0
           /\ e.in.curve = "toy" => /\ Len(e.out.calls) = d /\ \A j \in 1..d : e.out.calls[j] = Left(f[j].out)
           /\ e.facts.fp_of = pubpar                                           \* fingerprint of the PARENT's public key
           /\ IF ans[d] = "ok"
              THEN /\ e.out.ok /\ e.out.private = par.private
                   /\ e.out.chain = Right(f[d].out)
                   /\ e.out.fp = SubSeq(e.facts.hash160, 1, 4)
                   /\ CASE e.in.curve = "toy" -> e.out.key = (IF par.private THEN AddBytes(par.key, Left(f[d].out))
                                                                ELSE <<2>> \o AddBytes(SubSeq(par.key, 2, 33), Left(f[d].out)))
                        [] e.in.curve = "ed25519" -> e.out.key = Left(f[d].out)
                        [] par.private -> /\ Len(e.out.key) = 32
                                          /\ BNFromBytesBE(e.out.key) = EcdsaChild(Left(f[d].out), kparBN, OrderOf(e.in.curve))
                        [] OTHER -> Len(e.out.key) = 33          \* public parent: the point itself is covered by C08 (commutation)
                   /\ par.private => /\ e.facts.child_pub.of = e.out.key       \* serialised public key of the child
                                     /\ e.out.pub = e.facts.child_pub.pub
              ELSE ~e.out.ok /\ e.out.err = "perm"

\* a plug-in curve that rejects the first `deep` candidates (thousands): the retry goes on until a candidate is valid.
\* Logged: the last three links of the reference chain, the number of candidates the curve was asked about, the last one.
DeepEvent(e) ==
  LET t == e.facts.tail n == Len(t) master == e.in.level = "master"
      par == SubSeq(e.in.seed, 1, 32)
  IN /\ e.out.panic = "" /\ e.out.ok
     /\ e.out.ncalls = e.in.deep + 1                               \* every rejected candidate, then the accepted one
     /\ n >= 2 /\ \A k \in 1..(n - 1) : /\ t[k + 1].key = t[k].key
                                       /\ t[k + 1].data = (IF master THEN MasterRetryData(t[k].out) ELSE ChildRetryData(t[k].out, <<1, 5>>))
     /\ t[n].key = (IF master THEN SeedKey("toy") ELSE par)
     /\ e.out.last_call = Left(t[n].out)
     /\ e.out.chain = Right(t[n].out)
     /\ e.out.key = (IF master THEN Left(t[n].out) ELSE AddBytes(par, Left(t[n].out)))

\* deriving along p then i equals deriving along p followed by i
PathEvent(e) ==
  /\ e.out.panic = "" /\ e.out.direct_ok = e.out.step_ok
  /\ e.out.direct_ok => e.out.direct = e.out.step

Conforms(e) ==
  CASE e.op = "slip10.master" -> MasterEvent(e)
    [] e.op = "slip10.child" -> ChildEvent(e)
    [] e.op = "slip10.path" -> PathEvent(e)
    [] e.op = "slip10.deep" -> DeepEvent(e)
    [] OTHER -> FALSE

Init == l = 1 /\ bad = <<>>
Next == /\ l <= Len(Trace)
        /\ l' = l + 1
        /\ bad' = IF Conforms(Trace[l]) THEN bad ELSE Append(bad, l)
Spec == Init /\ [][Next]_vars
Done == (l = Len(Trace) + 1) => PrintT(<<"VERIF-RESULT", Len(Trace), bad>>)
=============================================================================
