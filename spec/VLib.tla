------------------------------- MODULE VLib -------------------------------
(***************************************************************************)
(* Shared operators of the iota-crypto-demo specification.                 *)
(*                                                                         *)
(* Data conventions (the same the Go API uses, see DESIGN.md Appendix A):  *)
(*   byte strings / text  : sequences of 0..255 (text = UTF-8 bytes or,    *)
(*                          where stated, code points)                     *)
(*   trits                : sequences of -1..1                             *)
(*   big naturals         : little-endian limb sequences (module BigNat)   *)
(***************************************************************************)
EXTENDS Integers, Sequences, FiniteSets, TLC, SequencesExt

Byte == 0..255
Trit == {-1, 0, 1}

VMin(a, b) == IF a <= b THEN a ELSE b
VMax(a, b) == IF a >= b THEN a ELSE b

RangeOf(s) == {s[i] : i \in DOMAIN s}

\* s[a..b] (1-based, inclusive); empty if b < a.  Total (clamps to the domain).
Slice(s, a, b) == IF b < a THEN <<>> ELSE SubSeq(s, VMax(a, 1), VMin(b, Len(s)))

\* Concatenation of a sequence of sequences (iterative: no deep recursion).
Flatten(ss) ==
  LET n == Len(ss)
      off[i \in 0..n] == IF i = 0 THEN 0 ELSE off[i-1] + Len(ss[i])
      total == off[n]
      \* owner[k] = index of the piece holding flat position k
      piece(k) == CHOOSE i \in 1..n : off[i-1] < k /\ k <= off[i]
  IN [k \in 1..total |-> LET i == piece(k) IN ss[i][k - off[i-1]]]

\* All pieces have the same length w: cheap flatten.
FlattenFixed(ss, w) ==
  [k \in 1..(Len(ss) * w) |-> ss[((k-1) \div w) + 1][((k-1) % w) + 1]]

\* Cut s into consecutive groups of w (the last may be shorter).
Groups(s, w) ==
  LET n == (Len(s) + w - 1) \div w
  IN [g \in 1..n |-> Slice(s, (g-1)*w + 1, g*w)]

\* Sum / fold of an integer sequence, iterative via a function definition.
\* NOTE (TLC): folds go through SequencesExt!FoldLeft, which is implemented
\* strictly in Java.  A hand-written recursion whose step uses the previous
\* accumulator twice is re-evaluated lazily by TLC and becomes exponential.
SumSeq(s) == FoldLeft(LAMBDA a, b : a + b, 0, s)

\* big-endian bits of v in w positions, and back
BitsBE(v, w) == [j \in 1..w |-> (v \div (2 ^ (w - j))) % 2]
ValBE(bits) == FoldLeft(LAMBDA a, b : 2 * a + b, 0, bits)
BytesToBits(bs) == FlattenFixed([i \in DOMAIN bs |-> BitsBE(bs[i], 8)], 8)
BitsToBytes(bits) == [g \in 1..(Len(bits) \div 8) |-> ValBE(SubSeq(bits, 8 * g - 7, 8 * g))]

Pow(b, e) ==
  LET p[i \in 0..e] == IF i = 0 THEN 1 ELSE b * p[i-1]
  IN p[e]

\* Index of the first position satisfying P, 0 if none.
FirstIndex(s, P(_)) ==
  IF \E i \in DOMAIN s : P(s[i])
  THEN CHOOSE i \in DOMAIN s : P(s[i]) /\ \A j \in 1..(i-1) : ~P(s[j])
  ELSE 0

SeqRepeat(x, n) == [i \in 1..n |-> x]

IsPrefixOf(p, s) == Len(p) <= Len(s) /\ \A i \in DOMAIN p : p[i] = s[i]

=============================================================================
