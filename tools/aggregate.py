#!/usr/bin/env python3
"""Rewrites seeded/RESULTS.md and benign/RESULTS.md from the per-change result files (meta.json / result*.json)."""
import glob, json, os
V = os.path.dirname(os.path.dirname(os.path.abspath(__file__)))
rows = []
for d in sorted(glob.glob(os.path.join(V, "seeded", "C*"))):
    m = json.load(open(os.path.join(d, "meta.json")))
    det = m.get("detection", {})
    out = "DETECTED" if det.get("detected") else ("missed" if "detected" in det else det.get("status", "not run"))
    rows.append((os.path.basename(d), m["property"], out, det.get("first_rejected_op") or "", m.get("summary", "").replace("|", "/").replace("\n", " ")[:300]))
with open(os.path.join(V, "seeded", "RESULTS.md"), "w") as f:
    f.write("# Seeded changes vs. checks (quick tier)\n\n%d changes, %d detected.\n\n| seeded change | property | outcome | first rejected op | what was changed |\n|---|---|---|---|---|\n"
            % (len(rows), sum(1 for r in rows if r[2] == "DETECTED")))
    for r in rows:
        f.write("| %s | %s | %s | %s | %s |\n" % r)
res = [json.load(open(p)) for p in sorted(glob.glob(os.path.join(V, "benign", "C*-[bcd]*", "result*.json")))]
with open(os.path.join(V, "benign", "RESULTS.md"), "w") as f:
    f.write("# Property-preserving changes vs. checks (quick tier)\n\nExpected: quiet.  %d runs, %d quiet.  `wb skipped` = the white-box driver part no longer compiled and was left out.\n\n"
            "| change | property | outcome | white-box part skipped |\n|---|---|---|---|\n" % (len(res), sum(1 for r in res if r["verdict"].startswith("quiet"))))
    for r in res:
        f.write("| %s | %s | %s | %s |\n" % (r["name"], r["property"], r["verdict"], ", ".join(r.get("whitebox_skipped", []))))
print("seeded: %d (%d detected); benign runs: %d (%d quiet)" % (len(rows), sum(1 for r in rows if r[2] == "DETECTED"), len(res), sum(1 for r in res if r["verdict"].startswith("quiet"))))
