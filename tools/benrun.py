#!/usr/bin/env python3
"""Runs the quick check of a property against property-preserving changes (benign/<id>-b<k>/patch.diff):
the expected outcome is exit 0 and no VIOLATION line.  usage: tools/benrun.py [names...]   (default: all)
Imports new ones from /tmp/ben/out/<id>/b<k>.diff when present."""
import glob, json, os, re, shutil, subprocess, sys, time
V = os.path.dirname(os.path.dirname(os.path.abspath(__file__)))
REPO = os.environ.get("VERIF_REPO", "/repo")   # a lane: its own copy of /verif and its own worktree of /repo
os.chdir(V)
for d in sorted(glob.glob("/tmp/ben/out/C*/b*.diff")) + sorted(glob.glob("/tmp/ben/out2/C*/b*.diff")) + sorted(glob.glob("/tmp/ben/out3/C*/b*.diff")):
    pid = d.split("/")[-2]; k = os.path.basename(d)[:-5]
    if "/out2/" in d:
        k = "c" + k[1:]               # second round: <id>-c<k>
    if "/out3/" in d:
        k = "d" + k[1:]               # third round: <id>-d<k>
    dst = os.path.join(V, "benign", "%s-%s" % (pid, k))
    if not os.path.exists(dst):
        os.makedirs(dst)
        shutil.copy(d, dst + "/patch.diff")
        if os.path.exists(d[:-5] + ".txt"):
            shutil.copy(d[:-5] + ".txt", dst + "/note.txt")
names = sys.argv[1:] or sorted(os.path.basename(p) for p in glob.glob("benign/C*-[bcd]*"))
def clean():
    subprocess.run(["git", "-C", REPO, "checkout", "--", "."], check=True)
    subprocess.run(["git", "-C", REPO, "clean", "-fdq", "--", "pkg", "internal"], check=True)
rows = []
for n in names:
    cross = None
    if "@" in n:                      # <change>@<property>: run another property's check against this change
        n, cross = n.split("@")
    d = os.path.join("benign", n); pid = cross or n.split("-")[0]
    if subprocess.run(["git", "-C", REPO, "status", "--porcelain", "--untracked-files=no"], capture_output=True, text=True).stdout.strip():
        print("/repo dirty, abort"); sys.exit(2)
    r = subprocess.run(["git", "-C", REPO, "apply", os.path.abspath(d + "/patch.diff")], capture_output=True, text=True)
    if r.returncode:
        rows.append((n, pid, "patch does not apply", "")); print(rows[-1]); clean(); continue
    t0 = time.time()
    try:
        c = subprocess.run(["bin/check", pid, "--tier", "quick"], capture_output=True, text=True, timeout=1500)
        out, rc = c.stdout + c.stderr, c.returncode
    except subprocess.TimeoutExpired as e:
        out, rc = str(e.stdout or "") + str(e.stderr or ""), 124
    finally:
        clean()
    open("out/ben_%s.log" % n, "w").write(out)
    viol = bool(re.search(r"^VIOLATION", out, re.M))
    skipped = re.findall(r"white-box part of (\S+) skipped", out)
    verdict = "quiet (rc=0)" if rc == 0 and not viol else ("ALARM rc=%d" % rc if viol or rc == 1 else "infra rc=%d" % rc)
    m = re.search(r"rejected: (.{0,260})", out)
    rows.append((n, pid, verdict, ("wb skipped: " + ",".join(sorted(set(skipped))) if skipped else "") + (" | " + m.group(1) if m and verdict != "quiet (rc=0)" else "")))
    if cross:
        n = n + "@" + cross
    json.dump(dict(name=n, property=pid, verdict=verdict, rc=rc, wall_s=round(time.time() - t0, 1), whitebox_skipped=sorted(set(skipped))),
              open(d + ("/result_%s.json" % cross if cross else "/result.json"), "w"), indent=1)
    print(rows[-1], flush=True)
allr = []
for p in sorted(glob.glob("benign/C*-[bcd]*/result*.json")):
    allr.append(json.load(open(p)))
with open("benign/RESULTS.md", "w") as f:
    f.write("# Property-preserving changes vs. checks (quick tier)\n\nExpected: quiet.  `wb skipped` = the white-box driver part no longer compiled and was left out.\n\n| change | property | outcome | white-box part skipped |\n|---|---|---|---|\n")
    for r in allr:
        f.write("| %s | %s | %s | %s |\n" % (r["name"], r["property"], r["verdict"], ", ".join(r["whitebox_skipped"])))
print("written benign/RESULTS.md")
