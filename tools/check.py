#!/usr/bin/env python3
"""bin/check <Cxx> [--tier quick|thorough] [--replay file]"""
import argparse, importlib, os, sys, traceback
sys.path.insert(0, os.path.dirname(os.path.abspath(__file__)))
import vlib


def main():
    ap = argparse.ArgumentParser()
    ap.add_argument("pid")
    ap.add_argument("--tier", default=os.environ.get("VERIF_TIER", "quick"))
    ap.add_argument("--replay")
    a = ap.parse_args()
    if a.tier not in ("quick", "thorough"):
        a.tier = "quick"
    try:
        seed = int(os.environ.get("VERIF_SEED", "1"))
    except ValueError:
        seed = 1
    mod = importlib.import_module("checks." + a.pid.lower())
    ctx = vlib.Ctx(a.pid, a.tier, seed)
    try:
        if a.replay:
            rc = mod.replay(ctx, a.replay)
        else:
            rc = mod.run(ctx)
    except vlib.Infra as e:
        print("INFRA-ERROR property=%s: %s" % (a.pid, e), file=sys.stderr)
        sys.exit(2)
    except Exception:
        traceback.print_exc()
        print("INFRA-ERROR property=%s: internal error" % a.pid, file=sys.stderr)
        sys.exit(2)
    sys.exit(rc)


if __name__ == "__main__":
    main()
