"""Program-level leg of C20: the checked-in transform_amd64.s is translated to a TLA+ instruction list and executed
by the AsmMachine specification (address run over the whole routine, symbolic run of one round body)."""
import os, re, shutil, subprocess, sys
import vlib

ASM = os.path.join(vlib.REPO, "pkg/curl/transform_amd64.s")


def run(ctx):
    if not os.path.exists(ASM):
        ctx.skipped.append("AsmMachine: %s not found" % ASM)
        return
    for mode, cfg in (("sym", "AsmSym"), ("addr", "AsmAddr")):
        d = ctx.rundir("M_" + cfg)
        for f in ("AsmMachine.tla", cfg + ".cfg"):
            shutil.copy(os.path.join(vlib.SPEC, f), d)
        r = subprocess.run([sys.executable, os.path.join(vlib.VERIF, "tools", "asm2tla.py"), ASM, os.path.join(d, "AsmProgram.tla")],
                           capture_output=True, text=True)
        if r.returncode != 0:
            # an instruction form AsmMachine has no semantics for: this white-box leg is skipped (recorded in the evidence),
            # the other legs of C20 still decide
            ctx.skipped.append("AsmMachine: " + r.stderr.strip()[:300])
            ctx.log("AsmMachine leg skipped: " + r.stderr.strip()[:200])
            return
        cmd = ["java", "-Xss512m", "-XX:+UseParallelGC", "-Xmx6g", "-cp", vlib.TLA_CP, "tlc2.TLC", "-workers", "1",
               "-metadir", os.path.join(d, "meta"), "-config", cfg + ".cfg", "AsmMachine.tla"]
        try:
            p = subprocess.run(cmd, cwd=d, capture_output=True, text=True, timeout=900)
        except subprocess.TimeoutExpired:
            raise vlib.Infra("AsmMachine %s timed out" % mode)
        out = p.stdout + p.stderr
        open(os.path.join(d, "tlc.log"), "w").write(out)
        shutil.rmtree(os.path.join(d, "meta"), ignore_errors=True)
        gen = dist = 0
        for m in vlib.STAT_RE.finditer(out):
            gen, dist = int(m.group(1)), int(m.group(2))
        ctx.states += dist
        ctx.transitions += gen
        ctx.model_states += dist
        ctx.legs.setdefault("M", []).append(dict(module="AsmMachine", cfg=cfg, distinct=dist, generated=gen, source=ASM))
        ctx.log("M AsmMachine/%s: %d instructions executed" % (cfg, dist))
        m = re.search(r'<<\s*"VERIF-ASM",\s*"([^"]*)",\s*(\d+)\s*>>', out, re.S)
        if p.returncode != 0 or not m:
            raise vlib.Infra("AsmMachine %s failed (rc=%d)\n%s" % (mode, p.returncode, vlib.tail(out, 30)))
        if m.group(1) == "ok":
            continue
        ctx.bad.append(dict(event=dict(op="asm." + mode, failed=m.group(1), pc=int(m.group(2)), steps=dist, source="pkg/curl/transform_amd64.s",
                                       **{"in": {"file": "pkg/curl/transform_amd64.s"}}),
                            reason="the checked-in assembly, executed by the AsmMachine specification, fails: %s (instruction %s)" % (m.group(1), m.group(2))))
