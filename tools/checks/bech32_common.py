import vlib

ASSUME = ["TLC/SANY, CommunityModules (Json, Bitwise, SequencesExt)", "Go toolchain",
          "inputs are byte strings; the specification treats every byte >= 0x80 as non-ASCII (invalid anywhere)"]


def driver(ctx):
    return vlib.build_driver(ctx, "pkg/bech32", ["bech32/driver_test.go"])


def run_ops(ctx, binp, vectors, label):
    d = ctx.rundir("drv_" + label)
    inp = d + "/in.ndjson"
    vlib.write_ndjson(inp, vectors)
    vlib.run_driver(ctx, binp, "replay", d + "/out.ndjson", infile=inp)
    return vlib.read_ndjson(d + "/out.ndjson")


def record(ctx, binp, n, label, focus=None):
    d = ctx.rundir("rec_" + label)
    vlib.run_driver(ctx, binp, "record", d + "/t.ndjson", n=n, extra_env={"VERIF_FOCUS": focus} if focus else None)
    return vlib.read_ndjson(d + "/t.ndjson")


def judge(ctx, binp, events, what, history=None):
    """`history`: everything the driver process did (also the calls of the other operation that are not judged here): a
    deviation may depend on an earlier call of either kind, so rejections are reproduced with the whole run before them."""
    bad = vlib.validate_trace(ctx, "Bech32Trace", events)
    seq = [b for b in bad if not b["in"].get("par")]
    par = [b for b in bad if b["in"].get("par")]
    # concurrent batches are reproduced as a whole batch (their trace), sequential calls one by one
    conf = vlib.reproduce(ctx, binp, seq, history=(history if history is not None else events)) + vlib.reproduce_concurrent(ctx, binp, events, par, "Bech32Trace")
    # the unexported polymod is a white-box aid (what it returns is the implementation's business): Decode / Encode decide
    for e in vlib.settle_whitebox(ctx, conf, {"bech32.polymod"}, label="bech32"):
        ctx.bad.append(dict(event=e, reason=what))


def replay(ctx, path, level, rule):
    import json
    data = json.load(open(path))
    binp = driver(ctx)
    evs = run_ops(ctx, binp, [dict(op=v["event"]["op"], **{"in": v["event"]["in"]}) for v in data["violations"]], "replay")
    bad = vlib.validate_trace(ctx, "Bech32Trace", evs)
    for e in bad:
        ctx.bad.append(dict(event=e, reason="replayed"))
    return vlib.finish(ctx, level, rule, ASSUME, matchers=MATCHERS)


def is_kelvin(e):
    """known finding F-C04-kelvin: input contains U+212A KELVIN SIGN (e2 84 aa) and was accepted."""
    s = bytes(e["in"].get("s", []))
    return e["op"] == "bech32.Decode" and b"\xe2\x84\xaa" in s and e["out"].get("ok") is True


MATCHERS = {"F-C04-kelvin": is_kelvin}
