import hashlib, json
import vlib

PINS = {"english": "2f5eed53a4727b4bf8880d8f3f199efc90e58503646d9ff8eff3a2ed3b24dbda",
        "japanese": "2eed0aef492291e061633d7ad8117f1a2b03eb80a29d0e4e3117ac2528d05ffd"}
ASSUME = ["TLC/SANY/CommunityModules", "Go toolchain; crypto/sha256, crypto/hmac+sha512 (driver's PBKDF2 from RFC 8018), x/text NFKD as fact providers",
          "the official word lists are not available offline: the embedded lists are pinned by SHA-256 of the words joined by newlines "
          "(the English digest equals the widely published digest of bip-0039/english.txt) plus structural invariants checked by TLC"]


def driver(ctx):
    return vlib.build_driver(ctx, "pkg/bip39", ["bip39/driver_test.go"])


def check_pins(ctx, events):
    """The word dump logged by SetWordList events must hash to the pinned digests."""
    for e in events:
        if e["op"] == "bip39.SetWordList" and e["out"].get("ok"):
            words = [bytes(w) for w in e["out"]["words"]]
            dg = hashlib.sha256(b"\n".join(words) + b"\n").hexdigest()
            lang = e["in"]["lang"]
            if lang in PINS and PINS[lang] != dg:
                slim = dict(e)
                slim["out"] = dict(ok=True, words_sha256=dg, pinned=PINS.get(lang),
                                   first_diff="word list of '%s' differs from the pinned official list" % lang)
                ctx.bad.append(dict(event=slim, reason="embedded %s word list does not match the pinned digest of the official BIP-39 list" % lang))
                return


def slim(e):
    if e["op"] == "bip39.SetWordList":
        e = dict(e)
        e["out"] = dict(ok=e["out"].get("ok"), words="(%d words)" % len(e["out"].get("words", [])))
    return e


def caller_histories(ctx, binp, events, ops, what, extra_env=None):
    """TLC-generated caller histories (spec/CallHistory) on the English list: the trace starts with the SetWordList event"""
    vlib.call_history_model(ctx)
    vlib.call_histories(ctx, binp, events, ops, "Bip39Trace", what, extra_env=extra_env, stateful=True,
                        prefix=[dict(op="bip39.SetWordList", **{"in": dict(lang="english")})],
                        select=lambda e: e["in"].get("lang") == "english" and e["out"].get("ok") is True)


def judge(ctx, binp, events, what, extra_env=None):
    check_pins(ctx, events)
    bad = vlib.validate_trace(ctx, "Bip39Trace", events, stateful=True, chunk=max(150, len(events) // vlib.NCPU))
    for e in vlib.reproduce_by_trace(ctx, binp, events, bad, extra_env=extra_env):
        ctx.bad.append(dict(event=slim(e), reason=what))


def renumber(events, base):
    """Trace numbers local to a driver run -> unique; keeps i==1 at trace starts."""
    for e in events:
        e["t"] = base + e["t"]
    return events


def is_leading_zero(e):
    """F-C03-padding: entropy whose first byte is 0x00 (not all-zero) fails to decode / seed."""
    if e["op"] not in ("bip39.MnemonicToEntropy", "bip39.MnemonicToSeed"):
        return False
    ent = e.get("facts", {}).get("ent", [])
    return len(ent) > 0 and ent[0] == 0 and any(ent) and (e["out"].get("ok") is False or e["out"].get("entropy") != ent)


MATCHERS = {"F-C03-padding": is_leading_zero}


def replay(ctx, path, level, rule, focus=None):
    data = json.load(open(path))
    binp = driver(ctx)
    d = ctx.rundir("replay")
    vlib.write_ndjson(d + "/in.ndjson", [dict(op=v["event"]["op"], **{"in": v["event"]["in"]}) for v in data["violations"]
                                         if v["event"]["op"] != "bip39.SetWordList"])
    vlib.run_driver(ctx, binp, "replay", d + "/o.ndjson", infile=d + "/in.ndjson")
    ev = vlib.read_ndjson(d + "/o.ndjson")
    check_pins(ctx, ev)
    for e in vlib.validate_trace(ctx, "Bip39Trace", ev, stateful=True, chunk=10 ** 9):
        ctx.bad.append(dict(event=slim(e), reason="replayed"))
    return vlib.finish(ctx, level, rule, ASSUME, matchers=MATCHERS)
