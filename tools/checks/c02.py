"""C02 - SLIP-0010 derivation matches the specification on all three curves."""
import json
import vlib

LEVEL = "model_checking"
RULE = ("M: the retry procedure as a state machine over ALL answer scripts (ok / invalid / permanent error) of up to 4 candidates: the first decided "
        "candidate wins, retries only after 'invalid key', nothing is tried for undefined derivations. G: every script up to K invalid answers "
        "followed by ok or a permanent error is driven through the REAL slip10 code by a scripted toy slip10.Curve plug-in that logs each candidate "
        "it is asked about (master key; hardened/normal children of private and public parents). T: real secp256k1, P-256 and ed25519: seeded "
        "seeds of length 0..100 and paths of depth <= 5 mixing hardened/normal indices incl. 0, 2^31-1, 2^31, 2^32-1, from private and public "
        "parents; TLC recomputes from logged HMAC facts which data each HMAC must be about, the private scalars (BigNat), validity, chain "
        "codes, fingerprints (hash160 fact of the PARENT public key), serialised public keys (independent point facts), and path composition. "
        "Distinct by (op,input).")
ASSUME = ["TLC/SANY/CommunityModules", "Go toolchain; crypto/hmac+sha512, sha256, x/crypto/ripemd160 as fact providers",
          "point(k) facts: crypto/elliptic (P-256), crypto/ed25519, and the driver's 30-line affine double-and-add for secp256k1 (cross-checked by C17)",
          "the real-curve retry branches (probability 2^-128) are exercised only through the scripted plug-in curve"]


def is_ed25519_normal(e):
    """F-C02-ed25519-normal: non-hardened child of an ed25519 private key returns a key instead of an error."""
    return (e["op"] == "slip10.child" and e["in"].get("curve") == "ed25519" and e["in"]["index"][0] == 0
            and e["in"].get("pub") is False and e["out"].get("ok") is True)


MATCHERS = {"F-C02-ed25519-normal": is_ed25519_normal}


def driver(ctx):
    return vlib.build_driver(ctx, "pkg/slip10", ["slip10/driver_test.go"])


def slim(e):
    e = json.loads(json.dumps(e))
    f = e.get("facts", {})
    if "hmac" in f:
        f["hmac"] = "(%d HMAC facts)" % len(f["hmac"])
    return e


def run(ctx):
    q = ctx.quick()
    vlib.model_check(ctx, "Slip10MC", constants={"K": 4 if q else 6}, timeout=900, workers=4)
    binp = driver(ctx)
    gen = vlib.generate(ctx, "Slip10Gen", constants={"K": 3 if q else 5})
    d = ctx.rundir("drv")
    vlib.run_driver(ctx, binp, "replay", d + "/g.ndjson", infile=gen)
    g = vlib.read_ndjson(d + "/g.ndjson")
    vlib.run_driver(ctx, binp, "record", d + "/t.ndjson", n=45 if q else 1500)
    t = vlib.read_ndjson(d + "/t.ndjson")
    for e in g:
        e["t"] = 1
    for e in t:
        e["t"] = 2
    vlib.note_events(ctx, g + t, keep=0)
    for e in g[:2] + t[:3]:
        ctx.samples.append(slim(e))
    vlib.call_history_model(ctx)
    vlib.call_histories(ctx, binp, [e for e in t if e["in"].get("curve") != "toy"], ["slip10.master", "slip10.path"], "Slip10Trace",
                        "real slip10 derivation differs from the Slip10 specification", settle=lambda evs: not any(is_ed25519_normal(x) for x in evs))
    bad = vlib.validate_trace(ctx, "Slip10Trace", g + t)
    for e in vlib.reproduce(ctx, binp, bad, history=g + t):
        ctx.bad.append(dict(event=slim(e), reason="real slip10 derivation differs from the Slip10 specification"))
    # the ECDSA curves' own key operations at the edges the HMAC never produces in a test (candidates 0, n, [n,p), sums that
    # pass the group order by a little): NewPrivateKey and Shift of pkg/slip10/elliptic, judged by ECTrace with BigNat
    from checks import ec_common as ec
    eb = ec.elliptic_driver(ctx)
    de = ctx.rundir("drv_elliptic")
    vlib.run_driver(ctx, eb, "record", de + "/t.ndjson", n=24 if q else 400, extra_env={"VERIF_PAR_MS": "0"})
    ee = [e for e in vlib.read_ndjson(de + "/t.ndjson") if e["op"] in ("shift.new", "shift.b", "shift.derive")]
    for e in ee:
        e["t"] = 3
        e["in"]["copy"] = "elliptic"
    vlib.note_events(ctx, ee, keep=1)
    for e in vlib.reproduce(ctx, eb, vlib.validate_trace(ctx, "ECTrace", ee, label="T_elliptic_keys"), history=ee):
        ctx.bad.append(dict(event=ec.slim(e), reason="key validity / shift of the ECDSA curves differs from what SLIP-0010 prescribes (0 < k < n, (k + I_L) mod n, invalid if zero)"))
    return vlib.finish(ctx, LEVEL, RULE, ASSUME, matchers=MATCHERS,
                       technique="TLA+ spec Slip10: TLC model of the retry procedure; all retry/permanent-error scripts driven through the real code by a scripted plug-in curve; real-curve traces validated with HMAC/point facts and BigNat")


def replay(ctx, path):
    data = json.load(open(path))
    binp = driver(ctx)
    d = ctx.rundir("replay")
    vlib.write_ndjson(d + "/in.ndjson", [dict(op=v["event"]["op"], **{"in": v["event"]["in"]}) for v in data["violations"]])
    vlib.run_driver(ctx, binp, "replay", d + "/o.ndjson", infile=d + "/in.ndjson")
    for e in vlib.validate_trace(ctx, "Slip10Trace", vlib.read_ndjson(d + "/o.ndjson")):
        ctx.bad.append(dict(event=slim(e), reason="replayed"))
    return vlib.finish(ctx, LEVEL, RULE, ASSUME, matchers=MATCHERS)
