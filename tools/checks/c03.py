"""C03 - BIP-39 entropy and mnemonic sentences are exact inverses."""
import vlib
from checks import bip39_common as bc

LEVEL = "model_checking"
RULE = ("M: scaled codec (5-bit indices, CS=ENT/4): every 1- and 2-byte entropy and every index sequence is a TLC state (round trip incl. leading/"
        "trailing zero bytes, accept <=> re-encodes to itself). G: TLC-chosen boundary entropies (13 lengths x all-zero/all-one/1..3 leading or "
        "trailing zero bytes/one-hot, invalid sizes) for both lists, encode then decode. T: stateful traces (SetWordList events carry the word "
        "dump = specification state): seeded entropies of every length with forced zero prefixes/suffixes, every word index of each list "
        "(stride in quick), mutated sentences (swap, last word replaced, unknown word, wrong counts); TLC recomputes sentence, acceptance, "
        "entropy and error kind from SHA-256 facts. Word lists pinned by digest. Distinct by (op,input,language).")


def run(ctx):
    q = ctx.quick()
    vlib.model_check(ctx, "Bip39MC", timeout=900)
    binp = bc.driver(ctx)
    gen = vlib.generate(ctx, "Bip39Gen")
    d = ctx.rundir("drv")
    vlib.run_driver(ctx, binp, "replay", d + "/g.ndjson", infile=gen)
    g = bc.renumber(vlib.read_ndjson(d + "/g.ndjson"), 0)
    vlib.run_driver(ctx, binp, "record", d + "/t.ndjson", n=40 if q else 600, extra_env={"VERIF_STRIDE": "16" if q else "1"})
    t = bc.renumber(vlib.read_ndjson(d + "/t.ndjson"), 1000)
    ev = g + t
    vlib.note_events(ctx, [e for e in ev if e["op"] != "bip39.SetWordList"])
    bc.caller_histories(ctx, binp, ev, ["bip39.EntropyToMnemonic", "bip39.MnemonicToEntropy"], "real bip39 result differs from the Bip39 specification")
    bc.judge(ctx, binp, ev, "real bip39 result differs from the Bip39 specification (sentence, acceptance, entropy or error kind)")
    return vlib.finish(ctx, LEVEL, RULE, bc.ASSUME, matchers=bc.MATCHERS,
                       technique="TLA+ spec Bip39 (parameterised bit codec); TLC exhaustive scaled model; TLC-chosen boundary entropies replayed; stateful trace validation with SHA-256 facts; pinned word lists")


def replay(ctx, path):
    return bc.replay(ctx, path, LEVEL, RULE)
