"""C04 - Bech32 Decode accepts exactly the valid strings and never panics."""
import vlib
from checks import bech32_common as bc

LEVEL = "model_checking"
RULE = ("M: all checksum-correct strings over 6 HRPs and short symbol sequences closed under one edit (substitute/insert/delete with a class "
        "alphabet, case flip): staged decoder = declarative BIP-173 validity, accepted => re-encodes to lower(s). G: TLC-built strings for every "
        "symbol count 0..84 x padding pattern, case variants, 89/90/91 boundary, separator positions, HRP boundary bytes, truncations. "
        "T: seeded valid encodings of arbitrary 5-bit symbols with substitutions, insertions, deletions, case flips, arbitrary bytes, "
        "multi-byte code points whose case mapping lands in ASCII, truncations, random bytes. T (regrouping package internal/base32, bound directly): "
        "Encode/Decode on lengths 0..26 with every value of the last two symbols (all padding patterns), dirty destination buffers: results = "
        "ToBase32/FromBase32 of the specification, counts, offset inside the input, nothing written past the result. Distinct by input string; all non-trivial "
        "(each reaches at least the separator stage or is a full-length mutation of a valid string).")


def run(ctx):
    q = ctx.quick()
    vlib.model_check(ctx, "Bech32MC", constants={"Scale": 1 if q else 2}, timeout=1500)
    binp = bc.driver(ctx)
    vec = [v for v in vlib.read_ndjson(vlib.generate(ctx, "Bech32Gen")) if v["op"] == "bech32.Decode"]
    g = bc.run_ops(ctx, binp, vec, "g")
    full = bc.record(ctx, binp, 400 if q else 8000, "t")
    t = [e for e in full if e["op"] == "bech32.Decode"]
    for e in g:
        e["t"] = 1
    for e in t:
        e["t"] = 2
    vlib.note_events(ctx, g + t)
    # the regrouping package under Decode, bound directly (same trace specification)
    # (an internal package: its API may change freely, and what it does alone is not the property - a deviation there
    # counts only together with a deviation of Decode, otherwise the leg is skipped)
    b32_bad = []
    try:
        b32 = vlib.build_driver(ctx, "pkg/bech32/internal/base32", ["base32/driver_test.go"], name="base32")
        d32 = ctx.rundir("rec_base32")
        vlib.run_driver(ctx, b32, "record", d32 + "/t.ndjson", n=6 if q else 60)
        e32 = vlib.read_ndjson(d32 + "/t.ndjson")
        for e in e32:
            e["t"] = 3
        vlib.note_events(ctx, e32, keep=1)
        b32_bad = vlib.reproduce(ctx, b32, vlib.validate_trace(ctx, "Bech32Trace", e32, label="T_base32"), history=e32)
    except vlib.Infra as ex:
        ctx.skipped.append("driver of the internal package base32 does not build or run against the working tree (skipped): %s" % str(ex)[:200])
    vlib.call_history_model(ctx)
    vlib.call_histories(ctx, binp, t, ["bech32.Decode"], "Bech32Trace", "real Decode disagrees with the Bech32 specification")
    nbad = len(ctx.bad)
    bc.judge(ctx, binp, g + t, "real Decode disagrees with the Bech32 specification (acceptance, outputs, re-encoding, offset range or panic)", history=g + full)
    if b32_bad and len(ctx.bad) > nbad:
        for e in b32_bad:
            ctx.bad.append(dict(event=e, reason="base32 regrouping differs from the specification's ToBase32 / FromBase32 (result, acceptance, count, offset range, buffers)"))
    elif b32_bad:
        ctx.skipped.append("internal/base32 deviates from ToBase32 / FromBase32 without a deviation of Decode (%d events, first: %s): skipped, not a verdict"
                           % (len(b32_bad), str({k: b32_bad[0][k] for k in ("op", "in")})[:200]))
    return vlib.finish(ctx, LEVEL, RULE, bc.ASSUME, matchers=bc.MATCHERS,
                       technique="TLA+ spec Bech32 (real polymod evaluated by TLC); exhaustive edit-closure model; TLC-generated strings replayed; recorded Decode calls validated by TLC")


def replay(ctx, path):
    return bc.replay(ctx, path, LEVEL, RULE)
