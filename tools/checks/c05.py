"""C05 - Bech32 Encode is BIP-173 conformant and Decode inverts it."""
import vlib
from checks import bech32_common as bc

LEVEL = "model_checking"
RULE = ("M: Bech32MC (Encode/Decode round trip and unique spelling on the exhaustive edit-closure model). G: TLC-chosen (hrp,data) for every data "
        "length 0..52 (every residue mod 5), both sides of the 90-character limit, upper-case / mixed-case / empty / non-printable HRPs. "
        "T: seeded (hrp,data) incl. long HRPs, upper case, corrupted HRP bytes; every produced string is decoded by the real Decode and TLC "
        "compares string and round trip with the specification. Distinct by (hrp,data).")


def run(ctx):
    q = ctx.quick()
    vlib.model_check(ctx, "Bech32MC", constants={"Scale": 1 if q else 2}, timeout=1500)
    binp = bc.driver(ctx)
    vec = [v for v in vlib.read_ndjson(vlib.generate(ctx, "Bech32Gen")) if v["op"] == "bech32.Encode"]
    g = bc.run_ops(ctx, binp, vec, "g")
    full = bc.record(ctx, binp, 1500 if q else 30000, "t")
    t = [e for e in full if e["op"] == "bech32.Encode"]
    for e in g:
        e["t"] = 1
    for e in t:
        e["t"] = 2
    vlib.note_events(ctx, g + t)
    vlib.call_history_model(ctx)
    vlib.call_histories(ctx, binp, t, ["bech32.Encode"], "Bech32Trace", "real Encode (or Decode of its output) disagrees with the Bech32 specification",
                        reject_from=(full, ["bech32.Decode"]))
    bc.judge(ctx, binp, g + t, "real Encode (or Decode of its output) disagrees with the Bech32 specification", history=g + full)
    return vlib.finish(ctx, LEVEL, RULE, bc.ASSUME, matchers=bc.MATCHERS,
                       technique="TLA+ spec Bech32; TLC-generated (hrp,data) replayed; recorded Encode calls and the real round trip validated by TLC")


def replay(ctx, path):
    return bc.replay(ctx, path, LEVEL, RULE)
