"""C06 - batched Curl equals independent Curl-P-81 sponges, lane by lane."""
import json
import vlib

LEVEL = "model_checking"
RULE = ("M: bit-sliced mini sponge shaped like curl.go (rate of all lanes reset, `in` only clears bits, transform placement in Squeeze, Reset, Clone, "
        "rejected calls) refines independent per-lane sponges of module CurlP81 for all histories up to Depth over two instances (hash length 1, "
        "W lanes, 2 rounds). T: stateful traces on real Curl objects: lane inputs drawn from a pool of 12 block keys so that equal histories occur "
        "at different lane positions, batch sizes 1..64, split absorbs, split squeezes, clones that continue independently, resets, rejected "
        "calls; TLC keeps term -> output fingerprint and rejects any term observed with two outputs, checks error answers and untouched state, "
        "and for audited lanes evaluates the Curl-P-81 sponge itself (729 trits, 81 rounds). Distinct by (trace, event); non-trivial = absorb/"
        "squeeze/clone/reset events.")
ASSUME = ["TLC/SANY/CommunityModules", "Go toolchain", "SHA-256 fingerprints of outputs are collision free",
          "only the functional direction (same history => same output) is a violation; audited lanes anchor the outputs to Curl-P-81"]


def driver(ctx):
    return vlib.build_driver(ctx, "pkg/curl", ["curl/driver_test.go"], name="curl_default")


def run(ctx):
    q = ctx.quick()
    vlib.model_check(ctx, "CurlMC", constants={"Depth": 4 if q else 5, "W": 2 if q else 2}, timeout=1500)
    if not q:
        vlib.model_check(ctx, "CurlMC", constants={"Depth": 3, "W": 3}, timeout=1500, name="M_CurlMC_W3")
    binp = driver(ctx)
    d = ctx.rundir("drv")
    vlib.run_driver(ctx, binp, "record", d + "/t.ndjson", n=16 if q else 300,
                    extra_env={"VERIF_FOCUS": "sponge", "VERIF_AUDIT": "8" if q else "150"})
    ev = vlib.read_ndjson(d + "/t.ndjson")
    vlib.note_events(ctx, [e for e in ev if e["op"] not in ("curl.pool",)], keep=0)
    for e in [x for x in ev if x["op"] in ("curl.absorb", "curl.squeeze")][:3]:
        ctx.samples.append(dict(op=e["op"], **{"in": e["in"]}, err=e["out"].get("err")))
    bad = vlib.validate_trace(ctx, "CurlTrace", ev, stateful=True, chunk=1)
    # a stateful rejection is confirmed by re-running the whole trace it belongs to
    for tr in sorted({b["t"] for b in bad}):
        tev = [e for e in ev if e["t"] == tr]
        dd = ctx.rundir("reproduce_t%d" % tr)
        vlib.write_ndjson(dd + "/in.ndjson", [dict(op=e["op"], **{"in": e["in"]}) for e in tev])
        vlib.run_driver(ctx, binp, "replay", dd + "/o.ndjson", infile=dd + "/in.ndjson")
        again = vlib.read_ndjson(dd + "/o.ndjson")
        for b in [x for x in bad if x["t"] == tr]:
            a = again[b["i"] - 1]
            if a["out"] == b["out"]:
                slim = dict(op=b["op"], t=b["t"], i=b["i"], **{"in": b["in"]})
                slim["out"] = {k: v for k, v in b["out"].items() if k not in ("fp", "audit")}
                slim["history"] = [dict(op=e["op"], **{"in": e["in"]}) for e in tev[:b["i"]]]
                ctx.bad.append(dict(event=slim, reason="a lane's output is not a function of its own history / differs from the Curl-P-81 sponge / wrong error answer"))
            else:
                ctx.notes.append("non-reproduced rejection dropped (trace %d event %d)" % (tr, b["i"]))
    return vlib.finish(ctx, LEVEL, RULE, ASSUME,
                       technique="TLA+ spec CurlSponge (CurlMC refinement model + CurlTrace stateful history validation with TLC-evaluated Curl-P-81 anchors)")


def replay(ctx, path):
    data = json.load(open(path))
    binp = driver(ctx)
    for k, v in enumerate(data["violations"]):
        hist = v["event"].get("history", [])
        d = ctx.rundir("replay%d" % k)
        vlib.write_ndjson(d + "/in.ndjson", hist)
        vlib.run_driver(ctx, binp, "replay", d + "/o.ndjson", infile=d + "/in.ndjson")
        ev = vlib.read_ndjson(d + "/o.ndjson")
        for i, e in enumerate(ev):
            e["t"], e["i"] = k + 1, i + 1
        for e in vlib.validate_trace(ctx, "CurlTrace", ev, stateful=True, chunk=10 ** 9):
            ctx.bad.append(dict(event=dict(op=e["op"], **{"in": e["in"]}), reason="replayed"))
    return vlib.finish(ctx, LEVEL, RULE, ASSUME)
