"""C06 - batched Curl equals independent Curl-P-81 sponges, lane by lane."""
import json
import vlib

LEVEL = "model_checking"
RULE = ("M: bit-sliced mini sponge shaped like curl.go (rate of all lanes reset, `in` only clears bits, transform placement in Squeeze, Reset, Clone, "
        "rejected calls) refines independent per-lane sponges of module CurlP81 for all histories up to Depth over two instances (hash length 1, "
        "W lanes, 2 rounds). T: stateful traces on real Curl objects: lane inputs drawn from a pool of 12 block keys so that equal histories occur "
        "at different lane positions, batch sizes 1..64, split absorbs, split squeezes, clones that continue independently, resets, rejected "
        "calls; TLC keeps term -> output fingerprint and rejects any term observed with two outputs, checks error answers and untouched state, "
        "and for audited lanes evaluates the Curl-P-81 sponge itself (729 trits, 81 rounds). Distinct by (trace, event); non-trivial = absorb/"
        "squeeze/clone/reset events.")
ASSUME = ["TLC/SANY/CommunityModules", "Go toolchain", "SHA-256 fingerprints of outputs are collision free",
          "only the functional direction (same history => same output) is a violation; audited lanes anchor the outputs to Curl-P-81"]


def driver(ctx):
    return vlib.build_driver(ctx, "pkg/curl", ["curl/driver_test.go"], name="curl_default")


import glob, os, re, shutil, subprocess
LAST_RE = re.compile(r'/\\ last = <<"(\w+)", (\d+), (<<.*>>)>>')


def tlc_histories(ctx, num, depth):
    """Leg G: behaviours of the CurlMC model (TLC -simulate) turned into histories for real Curl objects: a model block
    (one trit) becomes a pool key (-1 -> key 1, 0 -> the zero block, 1 -> key 2), instances keep their numbers."""
    d = ctx.rundir("sim_CurlMC")
    for f in glob.glob(os.path.join(vlib.SPEC, "*.tla")):
        shutil.copy(f, d)
    open(os.path.join(d, "sim.cfg"), "w").write("INIT Init\nNEXT Next\nCONSTANTS\n  HL = 1\n  W = 3\n  RND = 2\n  Depth = %d\nCHECK_DEADLOCK FALSE\n" % depth)
    os.makedirs(os.path.join(d, "b"), exist_ok=True)
    cmd = ["java", "-Xss64m", "-cp", vlib.TLA_CP, "tlc2.TLC", "-workers", "1", "-simulate", "file=b/t,num=%d" % num, "-depth", str(depth + 1),
           "-seed", str(ctx.seed * 11 + 3), "-metadir", os.path.join(d, "meta"), "-config", "sim.cfg", "CurlMC.tla"]
    r = subprocess.run(cmd, cwd=d, capture_output=True, text=True, timeout=300)
    shutil.rmtree(os.path.join(d, "meta"), ignore_errors=True)
    m = re.search(r"The number of states generated: (\d+)", r.stdout)
    if m:
        ctx.states += int(m.group(1))
        ctx.transitions += int(m.group(1))
    hist = []
    for k, f in enumerate(sorted(glob.glob(os.path.join(d, "b", "t_*")))):
        ops = [dict(op="curl.pool", **{"in": dict(seed=ctx.seed * 1000 + k, n=12)}), dict(op="curl.new", **{"in": dict(id=1)})]
        absorbed = {1: 0, 2: 0}
        for mm in LAST_RE.finditer(open(f).read()):
            name, inst, arg = mm.group(1), int(mm.group(2)), mm.group(3)
            if name == "absorb":
                lanes = [[{-1: 1, 0: 0, 1: 2}[int(t)]] for t in re.findall(r"-?\d+", arg)]
                ops.append(dict(op="curl.absorb", **{"in": dict(id=inst, lanes=lanes, nblocks=1, bad="")}))
                absorbed[inst] = absorbed.get(inst, 0) + 1
            elif name == "squeeze":
                ops.append(dict(op="curl.squeeze", **{"in": dict(id=inst, nlanes=[3, 64][k % 2], nblocks=1, bad="",
                                                                audit=([k % 3] if absorbed.get(inst, 0) <= 2 and k % 4 == 0 else []))}))
            elif name == "reset":
                ops.append(dict(op="curl.reset", **{"in": dict(id=inst)}))
                absorbed[inst] = 0
            elif name == "clone":
                ops.append(dict(op="curl.clone", **{"in": dict(id=1, newid=2)}))
                absorbed[2] = absorbed.get(1, 0)
            elif name == "rejected":
                bad = ["batch0", "batch65", "len"][len(ops) % 3]
                if len(ops) % 2:
                    ops.append(dict(op="curl.squeeze", **{"in": dict(id=inst, nlanes=5, nblocks=1, bad=bad, audit=[])}))
                else:
                    ops.append(dict(op="curl.absorb", **{"in": dict(id=inst, lanes=[[1]], nblocks=1, bad=bad)}))
        if len(ops) > 2:
            hist.append(ops)
    if not hist:
        raise vlib.Infra("TLC simulation of CurlMC produced no behaviours\n" + vlib.tail(r.stdout + r.stderr))
    return hist


def confirm(ctx, binp, ev, bad, reason, env=None, tag=""):
    """a stateful rejection is confirmed by re-running the whole trace it belongs to"""
    for tr in sorted({b["t"] for b in bad}):
        tev = [e for e in ev if e["t"] == tr]
        dd = ctx.rundir("reproduce%s_t%d" % (tag, tr))
        vlib.write_ndjson(dd + "/in.ndjson", [dict(op=e["op"], **{"in": e["in"]}) for e in tev])
        vlib.run_driver(ctx, binp, "replay", dd + "/o.ndjson", infile=dd + "/in.ndjson", extra_env=env)
        again = vlib.read_ndjson(dd + "/o.ndjson")
        conc = (".par", ".first")          # outcomes of concurrent phases depend on the schedule: up to three re-executions
        for extra in range(2):
            if not any(b["op"].endswith(conc) and not again[b["i"] - 1]["out"].get("panic") for b in bad if b["t"] == tr):
                break
            vlib.run_driver(ctx, binp, "replay", dd + "/o%d.ndjson" % extra, infile=dd + "/in.ndjson", extra_env=env)
            more = vlib.read_ndjson(dd + "/o%d.ndjson" % extra)
            for b in [x for x in bad if x["t"] == tr and x["op"].endswith(conc)]:
                if more[b["i"] - 1]["out"].get("panic"):
                    again[b["i"] - 1] = more[b["i"] - 1]
        for b in [x for x in bad if x["t"] == tr]:
            a = again[b["i"] - 1]
            if a["out"] == b["out"] or (b["op"].endswith(conc) and a["out"].get("panic")):
                slim = dict(op=b["op"], t=b["t"], i=b["i"], **{"in": b["in"]})
                slim["out"] = {k: v for k, v in b["out"].items() if k not in ("fp", "audit")}
                slim["history"] = [dict(op=e["op"], **{"in": e["in"]}) for e in tev[:b["i"]]]
                if tag:
                    slim["build"] = tag
                ctx.bad.append(dict(event=slim, reason=reason))
            else:
                ctx.notes.append("non-reproduced rejection dropped (trace %d event %d)" % (tr, b["i"]))


def sponge_histories(ctx, binp, n, audits, reason, env=None, tag=""):
    """Leg T on real Curl objects (public API only): record stateful histories, let CurlTrace judge them."""
    d = ctx.rundir("drv_sponge" + tag)
    e2 = {"VERIF_FOCUS": "sponge", "VERIF_AUDIT": str(audits)}
    e2.update(env or {})
    vlib.run_driver(ctx, binp, "record", d + "/t.ndjson", n=n, extra_env=e2)
    ev = vlib.read_ndjson(d + "/t.ndjson")
    vlib.note_events(ctx, [e for e in ev if e["op"] not in ("curl.pool",)], keep=0)
    bad = vlib.validate_trace(ctx, "CurlTrace", ev, stateful=True, chunk=1, label="T_sponge" + tag)
    confirm(ctx, binp, ev, bad, reason, env=env, tag=tag)
    return ev


REASON = "a lane's output is not a function of its own history / differs from the Curl-P-81 sponge / wrong error answer"


def run(ctx):
    q = ctx.quick()
    vlib.model_check(ctx, "CurlMC", constants={"Depth": 4 if q else 5, "W": 2 if q else 2}, timeout=1500)
    if not q:
        vlib.model_check(ctx, "CurlMC", constants={"Depth": 3, "W": 3}, timeout=1500, name="M_CurlMC_W3")
    binp = driver(ctx)
    ev = sponge_histories(ctx, binp, 16 if q else 300, 8 if q else 150, REASON)
    for e in [x for x in ev if x["op"] in ("curl.absorb", "curl.squeeze")][:3]:
        ctx.samples.append(dict(op=e["op"], **{"in": e["in"]}, err=e["out"].get("err")))
    # leg G: TLC behaviours of the model replayed on real objects (absorbing after a squeeze is outside the property's
    # domain and disabled in the model, so no history asks for it)
    d = ctx.rundir("drv_g")
    hist = tlc_histories(ctx, 12 if q else 200, 10)
    gin = [o for h in hist for o in h]
    vlib.write_ndjson(d + "/gin.ndjson", gin)
    vlib.run_driver(ctx, binp, "replay", d + "/g.ndjson", infile=d + "/gin.ndjson")
    g = vlib.read_ndjson(d + "/g.ndjson")
    tno = 0
    for e in g:                       # one trace per behaviour: a new trace starts at every curl.pool
        if e["op"] == "curl.pool":
            tno += 1
            idx = 0
        idx += 1
        e["t"], e["i"] = tno, idx
    ctx.legs.setdefault("G", []).append(dict(module="CurlMC (-simulate)", behaviours=len(hist), events=len(g)))
    vlib.note_events(ctx, [e for e in g if e["op"] not in ("curl.pool",)], keep=0)
    bad = vlib.validate_trace(ctx, "CurlTrace", g, stateful=True, chunk=1, label="T_tlc_behaviours")
    confirm(ctx, binp, g, bad, REASON + " (history generated by TLC from CurlMC)", tag="_g")
    return vlib.finish(ctx, LEVEL, RULE, ASSUME,
                       technique="TLA+ spec CurlSponge (CurlMC refinement model + CurlTrace stateful history validation with TLC-evaluated Curl-P-81 anchors)")


def replay(ctx, path):
    data = json.load(open(path))
    binp = driver(ctx)
    for k, v in enumerate(data["violations"]):
        hist = v["event"].get("history", [])
        d = ctx.rundir("replay%d" % k)
        vlib.write_ndjson(d + "/in.ndjson", hist)
        vlib.run_driver(ctx, binp, "replay", d + "/o.ndjson", infile=d + "/in.ndjson")
        ev = vlib.read_ndjson(d + "/o.ndjson")
        for i, e in enumerate(ev):
            e["t"], e["i"] = k + 1, i + 1
        for e in vlib.validate_trace(ctx, "CurlTrace", ev, stateful=True, chunk=10 ** 9):
            ctx.bad.append(dict(event=dict(op=e["op"], **{"in": e["in"]}), reason="replayed"))
    return vlib.finish(ctx, LEVEL, RULE, ASSUME)
