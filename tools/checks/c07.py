"""C07 - Ed25519 keys and signatures are byte-identical to RFC 8032 / crypto/ed25519."""
import vlib
from checks import ed_common as ec

LEVEL = "exploration"
RULE = ("Model-guided exploration: the RFC 8032 signing pipeline is written in TLA+ over SHA-512 facts (clamp, r = H(prefix||M) mod L, k = H(R||A||M) mod L, "
        "S = (r + k*s) mod L, all reductions certified) and TLC recomputes S for every recorded signature; byte equality with crypto/ed25519 for private "
        "key, public key and signature, determinism, Verify of the own signature, crypto.Signer with Hash(0) and refusal of pre-hashed input are "
        "checked per event. Inputs: seeded and extreme seeds x message lengths at every SHA-512 block/padding boundary of both hashes (32+len and "
        "64+len = 111,112,127,128,239,240,255,256 +-1, +128), 300..2049 bytes, random lengths; all keys pass through one reused key buffer. "
        "Distinct by (seed,msg); non-trivial = all.")


def run(ctx):
    q = ctx.quick()
    vlib.model_check(ctx, "Ed25519MC", constants={"Q": 5}, timeout=2400)
    binp = ec.driver(ctx)
    d = ctx.rundir("drv")
    vlib.run_driver(ctx, binp, "record", d + "/t.ndjson", n=130 if q else 3000, extra_env={"VERIF_FOCUS": "sign"})
    ev = vlib.read_ndjson(d + "/t.ndjson")
    vlib.note_events(ctx, ev, keep=0)
    for e in ev[:3]:
        ctx.samples.append(ec.slim(e))
    vlib.call_history_model(ctx)
    vlib.call_histories(ctx, binp, ev, ["ed.Sign"], "Ed25519Trace", "key/signature differs from RFC 8032 as recomputed by TLC or from crypto/ed25519",
                        extra_env={"VERIF_FOCUS": "sign"})
    bad = vlib.validate_trace(ctx, "Ed25519Trace", ev)
    if bad:
        # signing may depend on the history of the run (reused buffers, caches): reproduce by replaying the whole run
        dd = ctx.rundir("reproduce")
        vlib.write_ndjson(dd + "/in.ndjson", [dict(op=e["op"], **{"in": e["in"]}) for e in ev])
        vlib.run_driver(ctx, binp, "replay", dd + "/o.ndjson", infile=dd + "/in.ndjson", extra_env={"VERIF_FOCUS": "sign"})
        again = vlib.read_ndjson(dd + "/o.ndjson")
        for b in bad:
            a = again[b["i"] - 1]
            if a["out"] == b["out"]:
                s = ec.slim(b)
                s["history_index"] = b["i"]
                ctx.bad.append(dict(event=s, reason="key/signature differs from RFC 8032 as recomputed by TLC or from crypto/ed25519, or Signer/Verify clause violated"))
            else:
                ctx.notes.append("non-reproduced rejection dropped (event %d)" % b["i"])
    return vlib.finish(ctx, LEVEL, RULE, ec.ASSUME,
                       technique="TLA+ spec Ed25519Sign (RFC 8032 pipeline over SHA-512 facts with BigNat certificates) + differential trace validation against crypto/ed25519")


def replay(ctx, path):
    return ec.replay(ctx, path, LEVEL, RULE)
