"""C08 - public and private SLIP-10 child derivation commute."""
import vlib
from checks import ec_common as ec

LEVEL = "model_checking"
RULE = ("M: on toy curves, for every scalar k and every shift d: [k]G + [d]G = [(k+d) mod n]G and the sum is the identity iff (k+d) mod n = 0 "
        "(ECGroupMC). G (exhaustive on the real code): the real PrivateKey.Shift / PublicKey.Shift of pkg/slip10/elliptic run on the "
        "toy-instantiated secp256k1 implementation for every (k, d) with d in 0..n+2 in 1- and 2-byte encodings, d=256, d=255: both invalid or "
        "both succeed with the specification's scalar and point, no panic. T: real secp256k1 and P-256: seeded parents x special shifts (0, k, n-k, "
        "n, n+j, n-1, 2^256-1, random) judged by TLC with BigNat (k+d = q*n + s certificate) and both derivation orders of DeriveChild (key bytes, "
        "chain code, fingerprint equal). Verdicts come from the production curves: a toy-table deviation counts together with a real-size one, alone "
        "it triggers a larger real-size campaign and otherwise only skips the toy leg. Distinct by (op,input).")


def run(ctx):
    q = ctx.quick()
    vlib.model_check(ctx, "ECGroupMC", constants={"Primes": "{13, 43}" if q else "{13, 43, 61}"}, timeout=2400)
    ctx.exhaustive = True
    gen = vlib.generate(ctx, "ECGen", constants={"Primes": "{13, 43}" if q else "{13, 43, 61, 67, 79}"}, timeout=1200)
    vec = [v for v in vlib.read_ndjson(gen) if v["op"] == "shift.s"]
    binp = ec.elliptic_driver(ctx)
    d = ctx.rundir("drv")
    g = ec.replay_toy(ctx, binp, vec, d)
    vlib.run_driver(ctx, binp, "record", d + "/t.ndjson", n=64 if q else 1600)
    t = vlib.read_ndjson(d + "/t.ndjson")
    for e in g:
        e["t"] = 1
    for e in t:
        e["t"] = 2
    vlib.note_events(ctx, g + t, keep=0)
    for e in g[:2] + t[:3]:
        ctx.samples.append(ec.slim(e))
    def escalate(label, b):
        dd = ctx.rundir("escalate")
        vlib.run_driver(ctx, b, "record", dd + "/t.ndjson", n=800)
        return vlib.read_ndjson(dd + "/t.ndjson")
    vlib.call_history_model(ctx)
    vlib.call_histories(ctx, binp, t, ["shift.b", "shift.derive"], "ECTrace", "shifting the private key and shifting its public key disagree")
    ec.judge(ctx, [("elliptic", binp, g + t)], "shifting the private key and shifting its public key disagree (validity, result or panic)", escalate=escalate)
    return vlib.finish(ctx, LEVEL, RULE, ec.ASSUME, matchers=ec.MATCHERS,
                       technique="TLA+ spec ECGroup/ECTrace: toy-curve model; complete (k,d) tables replayed through the real Shift code on a toy-instantiated curve; real-size shifts judged by TLC with BigNat certificates")


def replay(ctx, path):
    return ec.replay(ctx, path, LEVEL, RULE)
