"""C09 - BIP-39 seed is PBKDF2 over the normalized sentence and passphrase; sentence parsing."""
import vlib
from checks import bip39_common as bc

LEVEL = "exploration"
RULE = ("Model-guided exploration: M checks the white-space splitting definition (Fields) on all strings up to 6 bytes over a toy alphabet "
        "(idempotence, insensitivity to surrounding space) and the codec validity used to gate MnemonicToSeed. T: seeded valid and invalid "
        "mnemonics of both lists x passphrases from a pool (empty, ASCII, composed/decomposed pairs, compatibility characters, full-width, long, "
        "invalid UTF-8, random bytes); sentences re-spaced with every Unicode white-space character and NFC/compatibility forms. TLC recomputes "
        "validity, the PBKDF2 password/salt the specification prescribes and looks up logged NFKD/PBKDF2 facts (NFKD audited on ASCII). "
        "Distinct by (op,input); non-trivial = all (each involves a full PBKDF2 or a parse of a 12..48 word sentence).")


def run(ctx):
    q = ctx.quick()
    vlib.model_check(ctx, "Bip39MC", timeout=900)
    binp = bc.driver(ctx)
    d = ctx.rundir("drv")
    vlib.run_driver(ctx, binp, "record", d + "/t.ndjson", n=100 if q else 800, extra_env={"VERIF_FOCUS": "c09"})
    ev = vlib.read_ndjson(d + "/t.ndjson")
    vlib.note_events(ctx, [e for e in ev if e["op"] != "bip39.SetWordList"])
    bc.caller_histories(ctx, binp, ev, ["bip39.MnemonicToSeed"], "real MnemonicToSeed differs from the Bip39 specification", extra_env={"VERIF_FOCUS": "c09"})
    bc.judge(ctx, binp, ev, "real MnemonicToSeed/ParseMnemonic differs from the Bip39 specification", extra_env={"VERIF_FOCUS": "c09"})
    return vlib.finish(ctx, LEVEL, RULE, bc.ASSUME, matchers=bc.MATCHERS,
                       technique="TLA+ spec Bip39 (seed = PBKDF2 fact over spec-prescribed password/salt; Fields over NFKD fact); stateful trace validation")


def replay(ctx, path):
    return bc.replay(ctx, path, LEVEL, RULE)
