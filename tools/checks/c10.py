"""C10 - BIP-32 path text form round-trips and is read as decimal."""
import json
import vlib

LEVEL = "model_checking"
RULE = ("M: every string up to MaxLen over {0,1,2,7,8,9,m,/,H,',x} is a TLC state; the character automaton (one step per character) equals "
        "the declarative grammar, accepted strings print back. G: all strings up to length 4 over the class alphabet (every automaton "
        "transition) plus numeric boundaries (leading zeros, 2^31-1, 2^31, 2^32, long digit strings, 0x/0b/0o/_/sign/space/non-ASCII digits), "
        "replayed through ParsePath/UnmarshalText. T: seeded random paths of length 0..12 (String/MarshalText/ParsePath round trip), printed "
        "forms with leading zeros and H markers, random strings, single-byte mutations. Distinct by (op,input).")
ASSUME = ["TLC/SANY/CommunityModules", "Go toolchain (regexp, strconv are part of the code under test's behaviour)"]


def is_base0(e):
    """F-C10-base0: a component with a leading zero followed by more digits is read in base 0 (octal) instead of decimal."""
    if e["op"] != "path.Parse":
        return False
    s = bytes(e["in"]["s"]).decode("latin1")
    t = s[2:] if s.startswith("m/") else s
    import re
    return any(re.fullmatch(r"0\d+[H']?", c) for c in t.split("/"))


MATCHERS = {"F-C10-base0": is_base0}


def run(ctx):
    q = ctx.quick()
    vlib.model_check(ctx, "Bip32PathMC", constants={"MaxLen": 5 if q else 6}, timeout=1500)
    binp = vlib.build_driver(ctx, "pkg/bip32path", ["bip32path/driver_test.go"])
    gen = vlib.generate(ctx, "Bip32PathGen", constants={"GenLen": 4 if q else 5}, timeout=900)
    d = ctx.rundir("drv")
    vlib.run_driver(ctx, binp, "replay", d + "/g.ndjson", infile=gen)
    g = vlib.read_ndjson(d + "/g.ndjson")
    vlib.run_driver(ctx, binp, "record", d + "/t.ndjson", n=500 if q else 20000)
    t = vlib.read_ndjson(d + "/t.ndjson")
    for e in g:
        e["t"] = 1
    for e in t:
        e["t"] = 2
    vlib.note_events(ctx, g + t)
    vlib.call_history_model(ctx)
    vlib.call_histories(ctx, binp, t, ["path.Parse", "path.String"], "Bip32PathTrace", "real ParsePath/String disagrees with the Bip32Path specification")
    vlib.call_concurrent(ctx, binp, t, ["path.Parse", "path.String"], "Bip32PathTrace", "real ParsePath/String disagrees with the Bip32Path specification")
    bad = vlib.validate_trace(ctx, "Bip32PathTrace", g + t)
    for e in vlib.reproduce(ctx, binp, bad, history=g + t):
        ctx.bad.append(dict(event=e, reason="real ParsePath/String disagrees with the Bip32Path specification"))
    return vlib.finish(ctx, LEVEL, RULE, ASSUME, matchers=MATCHERS,
                       technique="TLA+ spec Bip32Path (grammar + character automaton); exhaustive TLC model; TLC-generated strings replayed; trace validation")


def replay(ctx, path):
    data = json.load(open(path))
    binp = vlib.build_driver(ctx, "pkg/bip32path", ["bip32path/driver_test.go"])
    d = ctx.rundir("replay")
    vlib.write_ndjson(d + "/in.ndjson", [dict(op=v["event"]["op"], **{"in": v["event"]["in"]}) for v in data["violations"]])
    vlib.run_driver(ctx, binp, "replay", d + "/o.ndjson", infile=d + "/in.ndjson")
    for e in vlib.validate_trace(ctx, "Bip32PathTrace", vlib.read_ndjson(d + "/o.ndjson")):
        ctx.bad.append(dict(event=e, reason="replayed"))
    return vlib.finish(ctx, LEVEL, RULE, ASSUME, matchers=MATCHERS)
