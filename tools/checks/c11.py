"""C11 - PoW (v1) nonces returned by Mine meet the requested score; Score definition."""
import vlib
from checks import pow_common as pc

LEVEL = "model_checking"
RULE = ("M: scaled lane test (hash length 4-5 trits, 2 lanes, all lane states): checkStateTrits returns the first lane with >= n zeros. "
        "T: Mine (each call in a child process, so a crash is an observation) on small data x targets {exactly 3^k/len, one ulp above and below, "
        "below 1/len down to denormals, mid-range, integers} x workers {1,2,3,8,16}; TLC hashes the returned nonce itself (Curl-P-81 from the "
        "BLAKE2b fact), counts zeros, checks Score = 3^z/len within one ulp and Score >= target exactly (BigNat); Score on random messages; "
        "white-box lane test on chosen planes. Distinct by (op,input).")


def run(ctx):
    q = ctx.quick()
    vlib.model_check(ctx, "PowMC", constants={"HL": 4 if q else 5}, timeout=1500)
    vlib.model_check(ctx, "BigNatMC", timeout=300, workers=2)
    bins = pc.drivers(ctx, ("pow",))
    d = ctx.rundir("drv")
    vlib.run_driver(ctx, bins["pow"], "record", d + "/t.ndjson", n=24 if q else 300, extra_env={"VERIF_MAXK": "5" if q else "8", "VERIF_LENS": "56" if q else "200"}, timeout=3000)
    ev = vlib.read_ndjson(d + "/t.ndjson")
    vlib.note_events(ctx, ev)
    pc.judge(ctx, bins, ev, "Mine returned a nonce whose score is below the target / crashed the process / Score is not 3^z/len / lane test wrong")
    return vlib.finish(ctx, LEVEL, RULE, pc.ASSUME, matchers=pc.MATCHERS,
                       technique="TLA+ spec Pow (Curl-P-81 + b1t6 + exact BigNat float comparison evaluated by TLC); scaled TLC model of the lane test; trace validation of Mine/Score")


def replay(ctx, path):
    return pc.replay(ctx, path, LEVEL, RULE, ("pow",))
