"""C12 - PoW v2 Mine is sound and never passes over a clearly qualifying nonce."""
import vlib
from checks import pow_common as pc

LEVEL = "model_checking"
RULE = ("M: scaled three-stage lane test (hash length 4-5, 2 lanes, all lane states x lx incl. 3^k, 3^k+-1): returned lane qualifies; a lane is "
        "returned whenever a strictly qualifying lane exists; strictly qualifying => >= s-1 zeros; s zeros suffice. T: real checkStateTrits on "
        "64-lane planes built around the decision boundaries (lanes with s-2, s-1, s zeros, hashes at targetHash-1/0/+1 at lane 0 and 63, all "
        "candidates, none), sufficientTrailingZeros/targetHash (certificate-checked), Score (division certificates verified by TLC), and Mine "
        "(child process): TLC hashes the returned nonce and checks h*lx <= 3^243; for single-worker runs every earlier block's candidates "
        "(logged hashes, audited) must not strictly qualify. Distinct by (op,input).")


def run(ctx):
    q = ctx.quick()
    vlib.model_check(ctx, "PowMC", constants={"HL": 4 if q else 5}, timeout=1500)
    vlib.model_check(ctx, "BigNatMC", timeout=300, workers=2)
    bins = pc.drivers(ctx, ("pow2",))
    d = ctx.rundir("drv")
    vlib.run_driver(ctx, bins["pow2"], "record", d + "/t.ndjson", n=24 if q else 300, extra_env={"VERIF_MAXS": "6" if q else "8"}, timeout=3000)
    ev = vlib.read_ndjson(d + "/t.ndjson")
    vlib.note_events(ctx, ev, keep=0)
    for e in ev[:4]:
        ctx.samples.append(pc.slim(e))
    nlog = sum(len(e["facts"].get("blocks", [])) for e in ev if e["op"] == "pow2.Mine")
    ctx.notes.append("earlier blocks examined across single-worker Mine calls: %d" % nlog)
    pc.judge(ctx, bins, ev, "v2: returned nonce/lane does not qualify, a strictly qualifying nonce/lane was passed over, or Score/params differ from the definition")
    return vlib.finish(ctx, LEVEL, RULE, pc.ASSUME, matchers=pc.MATCHERS,
                       technique="TLA+ spec Pow v2 (BigNat multiplication/comparison, division certificates) + scaled TLC model of the three-stage lane test + trace validation")


def replay(ctx, path):
    return pc.replay(ctx, path, LEVEL, RULE, ("pow2",))
