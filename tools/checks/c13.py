"""C13 - PoW Mine terminates, honours cancellation and is race- and leak-free."""
import json, os, re, shutil, subprocess, glob, time
import vlib

LEVEL = "model_checking"
RULE = ("M: PowMine (one action per stretch of code between two hook points of worker.go) model-checked for NW<=3 (thorough 4) workers in modes "
        "always/never/either: a finder's send never blocks, nonce only if found, ErrCancelled only if cancelled, all workers finished at return, "
        "no stuck state; liveness under weak fairness: cancelled ~> returned, found ~> returned, returned ~> all goroutines gone. Vacuity control: "
        "Cap=1 violates SendNeverBlocks. PowMineMulti: 2 (thorough 3) calls in flight that share nothing keep every per-call clause, a shared stop flag / a blocking "
        "process-wide semaphore violate them (controls). A: module PowMineInd states an inductive invariant of PowMine; Apalache discharges Init => IndInv, "
        "IndInv /\\ Next => IndInv' and IndInv => safety clauses symbolically for NW=3 (thorough 1..6), all modes at once, with witness states as vacuity control. G: TLC simulation behaviours (modes always/never, 1..3 workers, cancel at arbitrary instants) are replayed "
        "as schedules on the real Mine of both PoW versions through blocking hooks. R: the repository's own tests of Mine (TestWorker_Mine, TestWorker_Cancel) run with recording hooks; "
        "their executions are validated like any other trace, the unlogged cancellation placed by TLC. T: free-running executions (1..64 workers; cancel before the "
        "call, after a random delay, simultaneously with a find; targets from 'every lane qualifies' to unattainable; New(), New(0), New(-1); two calls on one Worker; calls on "
        "separate Workers with more workers than processors, one cancelled / one finding while the other goes on; other configured digest functions between calls). Every recorded execution is "
        "validated against PowMine by TLC (interleavings inferred, one action of look-ahead per process), incl. returned value, goroutine count "
        "and the returned nonce's score. The free-running binary is built with the race detector. Distinct = distinct event sequences.")
ASSUME = ["TLC/SANY/CommunityModules", "Go toolchain, race detector (dynamic: only executed interleavings)", "Go memory model: sequentially consistent atomics, "
          "channel semantics as modelled", "hook events are ordered by a mutex-protected sequence number taken inside the hook"]

LAST_RE = re.compile(r'/\\ last = <<"(\w+)", (\d+), "(\w+)">>')


def behaviours(ctx, nw, mode, num, depth, seed):
    d = ctx.rundir("sim_%s_%d" % (mode, nw))
    for f in glob.glob(os.path.join(vlib.SPEC, "*.tla")):
        shutil.copy(f, d)
    open(os.path.join(d, "sim.cfg"), "w").write(
        'INIT Init\nNEXT Next\nCONSTANTS\n  NW = %d\n  Cap = %d\n  Mode = "%s"\nCHECK_DEADLOCK FALSE\n' % (nw, nw, mode))
    os.makedirs(os.path.join(d, "b"), exist_ok=True)
    cmd = ["java", "-Xss64m", "-cp", vlib.TLA_CP, "tlc2.TLC", "-workers", "1", "-simulate", "file=b/t,num=%d" % num, "-depth", str(depth),
           "-seed", str(seed), "-metadir", os.path.join(d, "meta"), "-config", "sim.cfg", "PowMine.tla"]
    r = subprocess.run(cmd, cwd=d, capture_output=True, text=True, timeout=300)
    shutil.rmtree(os.path.join(d, "meta"), ignore_errors=True)
    out = []
    for f in sorted(glob.glob(os.path.join(d, "b", "t_*"))):
        steps = [[m.group(1), m.group(2), m.group(3)] for m in LAST_RE.finditer(open(f).read())]
        steps = [s for s in steps if s[0] != "init"]
        if steps:
            out.append(steps)
    if not out:
        raise vlib.Infra("TLC simulation produced no behaviours:\n" + vlib.tail(r.stdout + r.stderr))
    m = re.search(r"The number of states generated: (\d+)", r.stdout)
    if m:
        ctx.transitions += int(m.group(1))
        ctx.states += int(m.group(1))
    return out


def split_traces(path):
    traces = {}
    for e in vlib.read_ndjson(path):
        traces.setdefault(e["t"], []).append(e)
    return [traces[k] for k in sorted(traces)]


def validate(ctx, traces, label):
    """One TLC run per trace (parallel).  Accepted <=> TLC reports the NotAccepted 'invariant' violated."""
    procs, rejected = [], []
    t0 = time.time()
    for k, tr in enumerate(traces):
        hdr = tr[0]["header"]
        d = ctx.rundir("%s_%d" % (label, k))
        for f in ("PowMine.tla", "PowMineTrace.tla"):
            shutil.copy(os.path.join(vlib.SPEC, f), d)
        vlib.write_ndjson(os.path.join(d, "trace.ndjson"), [hdr] + tr[1:])
        open(os.path.join(d, "t.cfg"), "w").write(
            'INIT TInit\nNEXT TNext\nCONSTANTS\n  NW = %d\n  Cap = %d\n  Mode = "either"\nINVARIANT NotAccepted\nCONSTRAINT Track\n'
            'POSTCONDITION Post\nCHECK_DEADLOCK FALSE\n' % (hdr["nw"], hdr["nw"]))
        cmd = ["java", "-Xss64m", "-Xmx2g", "-cp", vlib.TLA_CP, "tlc2.TLC", "-workers", "1", "-metadir", os.path.join(d, "meta"),
               "-config", "t.cfg", "PowMineTrace.tla"]
        procs.append((d, tr, cmd))
    running, queue = [], list(procs)
    def reap(item):
        d, tr, p, lf = item
        try:
            p.wait(timeout=600)
        except subprocess.TimeoutExpired:
            p.kill()
            raise vlib.Infra("trace validation timeout in %s" % d)
        lf.close()
        out = open(os.path.join(d, "tlc.log")).read()
        shutil.rmtree(os.path.join(d, "meta"), ignore_errors=True)
        for mm in vlib.STAT_RE.finditer(out):
            g_, d_ = int(mm.group(1)), int(mm.group(2))
        if vlib.STAT_RE.search(out):
            ctx.states += d_
            ctx.transitions += g_
        if "Invariant NotAccepted is violated" in out:
            return
        m = re.search(r'"VERIF-PREFIX", (-?\d+), (\d+)', out)
        if p.returncode == 0 and m:
            rejected.append((tr, int(m.group(1))))
            return
        raise vlib.Infra("PowMineTrace failed (rc=%s) in %s\n%s" % (p.returncode, d, vlib.tail(out, 30)))
    while queue or running:
        while queue and len(running) < vlib.NCPU:
            d, tr, cmd = queue.pop(0)
            lf = open(os.path.join(d, "tlc.log"), "w")
            running.append((d, tr, subprocess.Popen(cmd, cwd=d, stdout=lf, stderr=subprocess.STDOUT), lf))
        reap(running.pop(0))
    ctx.traces += len(traces)
    ctx.events += sum(len(t) - 1 for t in traces)
    ctx.legs.setdefault(label, []).append(dict(traces=len(traces), events=sum(len(t) - 1 for t in traces), rejected=len(rejected),
                                               wall_s=round(time.time() - t0, 1)))
    ctx.log("%s PowMineTrace: %d traces, %d events, %d rejected, %.1fs" % (label, len(traces), sum(len(t) - 1 for t in traces), len(rejected), time.time() - t0))
    return rejected


def build(ctx, ver, race=False):
    pkg = "pkg/pow" if ver == "v1" else "pkg/pow/v2"
    pkgname = "pow" if ver == "v1" else "v2"
    d = os.path.join(ctx.out, "gen_" + ver)
    os.makedirs(d, exist_ok=True)
    src = open(os.path.join(vlib.HARNESS, "powmine", "common.go.txt")).read().replace("package PKG", "package " + pkgname)
    os.makedirs(os.path.join(vlib.HARNESS, "powmine", "gen"), exist_ok=True)
    gp = os.path.join(vlib.HARNESS, "powmine", "gen", "common_%s_test.go" % ver)
    open(gp, "w").write(src)
    return vlib.build_driver(ctx, pkg, ["powmine/gen/common_%s_test.go" % ver, "powmine/%s/adapter_test.go" % ver], race=race,
                             optional=["powmine/%s/repotests_test.go" % ver], name="powmine_%s%s" % (ver, "_race" if race else ""))


RACE_RE = re.compile(r"WARNING: DATA RACE(.*?)={18}", re.S)


def races_in_pkg(stderr):
    """Race reports attributed to pkg/pow: for every access stack of a report the first frame inside the repository
    (callees in the standard library skipped) is the access site; the hook shim and the driver's own files do not count."""
    hits = []
    for m in RACE_RE.finditer(stderr):
        blk = m.group(1)
        sites = []
        for acc in re.split(r"\n(?=(?:Read|Write|Previous read|Previous write|Atomic \w+|Previous atomic \w+) at 0x)", blk):
            if not re.match(r"\s*(?:Read|Write|Previous|Atomic)", acc):
                continue
            stack = acc.split("\n\n")[0]
            fr = re.findall(r"\s(/\S+\.go):(\d+)", stack)
            inrepo = [f for f in fr if f[0].startswith(vlib.REPO + "/")]
            if inrepo:
                sites.append(inrepo[0])
        own = [f for f in sites if "/pkg/pow/" in f[0] and not f[0].endswith("_test.go") and "zz_verif" not in f[0]
               and not f[0].endswith("hook_verif.go")]
        if own:
            hits.append(dict(frames=["%s:%s" % f for f in own[:6]], report=blk.strip()[:1500]))
    return hits


def describe(tr, prefix):
    hdr = tr[0]["header"]
    evs = [[e["proc"], e["id"], e["ev"]] for e in tr[1:]]
    return dict(header=hdr, events=evs[:400], explained_prefix=prefix,
                next_event=(evs[prefix] if 0 <= prefix < len(evs) else None),
                returned=[e for e in tr[1:] if e["ev"] in ("returned", "hang")])


def run(ctx):
    q = ctx.quick()
    for mode in ("either", "always", "never"):
        vlib.model_check(ctx, "PowMine", cfg="PowMineSafety", constants={"NW": 3 if q else 4, "Cap": 3 if q else 4, "Mode": '"%s"' % mode},
                         name="M_safety_" + mode, timeout=1500)
    for mode in ("either", "always", "never"):
        vlib.model_check(ctx, "PowMine", cfg="PowMineLive", constants={"NW": 2 if q else 3, "Cap": 2 if q else 3, "Mode": '"%s"' % mode},
                         name="M_live_" + mode, timeout=1500)
    # vacuity control: an undersized channel must violate SendNeverBlocks in the model
    r = vlib.tlc(ctx, "PowMine", cfg="PowMineSafety", constants={"Cap": 1}, workers=4, name="M_vacuity_cap1", check_ok=False, count=False)
    if "Invariant SendNeverBlocks is violated" not in r["out"]:
        raise vlib.Infra("vacuity control failed: Cap=1 does not violate SendNeverBlocks")
    ctx.notes.append("vacuity control: Cap=1 violates SendNeverBlocks in the model")
    # several calls in flight (PowMineMulti): calls that share nothing keep every per-call clause; the two named deviations
    # (stop flag in the Worker value, process-wide semaphore with a blocking acquire) are exposed by exactly the clauses the
    # outcome-only traces are judged by
    for m2 in (("either",) if q else ("either", "always", "never")):
        vlib.model_check(ctx, "PowMineMulti", constants={"Mode2": '"%s"' % m2}, name="M_multi_" + m2, timeout=1500)
    if not q:
        vlib.model_check(ctx, "PowMineMulti", constants={"NC": 3, "NW": 1, "Slots": 1, "Mode3": '"always"', "CancelOf": "{1, 2, 3}"}, name="M_multi_3calls", timeout=1500)
    for share, expect in (("done", "Invariant CancelledOnlyIfOwnCancelled is violated"), ("slots", "CancelLeadsToReturn")):
        r = vlib.tlc(ctx, "PowMineMulti", constants={"Share": '"%s"' % share}, workers=4, name="M_multi_vacuity_" + share, check_ok=False, count=False)
        if expect not in r["out"] or "violated" not in r["out"]:
            raise vlib.Infra("vacuity control failed: Share=%s does not violate %s in PowMineMulti" % (share, expect))
    ctx.notes.append("vacuity control: a stop flag shared between calls violates CancelledOnlyIfOwnCancelled, a blocking process-wide semaphore violates CancelLeadsToReturn (PowMineMulti)")
    # A: the safety clauses by induction (Apalache), every mode at once, per worker count; control: Cap < NW breaks the base case
    for nw in ((3,) if q else (1, 2, 3, 4, 5, 6)):
        vlib.apalache_inductive(ctx, "PowMineInd", "CInit%d" % nw, witnesses=(("W2",) if q else ("W1", "W2", "W3", "W4")) if nw == 3 else ())
    # G: schedules from TLC behaviours
    scheds = []
    for nw in (1, 2, 3):
        for mode in ("always", "never"):
            for b in behaviours(ctx, nw, mode, 3 if q else 40, 60, ctx.seed * 7 + nw):
                scheds.append(dict(op="powmine.run", **{"in": dict(nw=nw, mode=mode, cancel="none", schedule=b, data_seed=len(scheds))}))
    rejected_all = []
    for ver in ("v1", "v2"):
        binp = build(ctx, ver)
        d = ctx.rundir("drv_" + ver)
        vlib.write_ndjson(d + "/sched.ndjson", scheds)
        vlib.run_driver(ctx, binp, "replay", d + "/g.ndjson", infile=d + "/sched.ndjson", timeout=1200)
        g = split_traces(d + "/g.ndjson")
        ndiv = sum(1 for t in g if t[0]["header"].get("diverged"))
        ctx.notes.append("%s: %d schedules replayed, %d left the TLC behaviour early (random select/spontaneous arrivals)" % (ver, len(g), ndiv))
        rej = validate(ctx, g, "G_" + ver)
        # R: the repository's own tests of Mine, recorded through the same hooks (their exit status does not matter here)
        vlib.run_driver(ctx, binp, "repotests", d + "/r.ndjson", timeout=600, allow_fail=True)
        rt = split_traces(d + "/r.ndjson") if os.path.exists(d + "/r.ndjson") else []
        rrej = validate(ctx, rt, "R_" + ver) if rt else []
        ctx.notes.append("%s: %d executions of the repository's own Mine tests validated (%s)" % (ver, len(rt), ", ".join(sorted(set(t_[0]["header"]["repo_test"] for t_ in rt)))))
        for tr, prefix in rrej:        # confirmed by recording the tests once more
            vlib.run_driver(ctx, binp, "repotests", d + "/r2.ndjson", timeout=600, allow_fail=True)
            if validate(ctx, split_traces(d + "/r2.ndjson"), "R2_" + ver):
                info = describe(tr, prefix)
                info["version"], info["op"] = ver, "powmine.repotest"
                ctx.bad.append(dict(event=info, reason="execution of Mine (%s) inside the repository's test %s is not a behaviour of PowMine: event %s cannot be explained"
                                    % (ver, tr[0]["header"]["repo_test"], info["next_event"])))
            break
        # T: free running under the race detector
        rbin = build(ctx, ver, race=True)
        rr = vlib.run_driver(ctx, rbin, "record", d + "/t.ndjson", n=24 if q else 400, timeout=2400, allow_fail=True)
        races = races_in_pkg(rr.stderr)
        if rr.returncode != 0 and not races and "DATA RACE" not in rr.stderr:
            raise vlib.Infra("free-running driver failed rc=%d\n%s" % (rr.returncode, rr.stderr[-2000:]))
        for rc_ in races[:3]:
            ctx.bad.append(dict(event=dict(op="race", version=ver, **rc_), reason="data race reported by the Go race detector with frames in pkg/pow"))
        t = split_traces(d + "/t.ndjson")
        rej += validate(ctx, t, "T_" + ver)
        for tr in (g + t)[:2]:
            ctx.samples.append(dict(version=ver, header=tr[0]["header"], events=[[e["proc"], e["id"], e["ev"]] for e in tr[1:40]]))
        for tr in g + t:
            ctx.distinct.add(vlib.digest([[e["proc"], e["id"], e["ev"]] for e in tr[1:]]))
        # confirm rejections by re-running the same run specification twice (schedules are steered, free runs are statistical)
        for tr, prefix in rej:
            spec = tr[0]["header"]["spec"]
            dd = ctx.rundir("reproduce")
            vlib.write_ndjson(dd + "/in.ndjson", [dict(op="powmine.run", **{"in": spec})] * 3)
            vlib.run_driver(ctx, binp, "replay", dd + "/o.ndjson", infile=dd + "/in.ndjson", timeout=600)
            again = split_traces(dd + "/o.ndjson")
            rej2 = validate(ctx, again, "R_" + ver)
            hang = any(e["ev"] == "hang" for e in tr[1:])
            if rej2 or hang and any(any(e["ev"] == "hang" for e in t2[1:]) for t2 in again):
                info = describe(tr, prefix)
                info["version"] = ver
                info["op"] = "powmine.run"
                ctx.bad.append(dict(event=info, reason="execution of Mine (%s) is not a behaviour of PowMine: event %s cannot be explained"
                                    % (ver, info["next_event"])))
            else:
                ctx.notes.append("rejected trace not reproduced in 3 re-runs (dropped): %s" % json.dumps(describe(tr, prefix))[:400])
    return vlib.finish(ctx, LEVEL, RULE, ASSUME,
                       technique="TLA+ specs PowMine / PowMineMulti: TLC safety+liveness model checking (flawed variants as controls), Apalache inductive invariant (PowMineInd); TLC behaviours replayed as schedules through blocking hooks; trace validation with inferred interleavings (driver runs and the repository's own tests); race detector")


def replay(ctx, path):
    data = json.load(open(path))
    for v in data["violations"]:
        ev = v["event"]
        if ev.get("op") != "powmine.run":
            continue
        ver = ev.get("version", "v1")
        binp = build(ctx, ver)
        d = ctx.rundir("replay")
        vlib.write_ndjson(d + "/in.ndjson", [dict(op="powmine.run", **{"in": ev["header"]["spec"]})] * 3)
        vlib.run_driver(ctx, binp, "replay", d + "/o.ndjson", infile=d + "/in.ndjson", timeout=600)
        for tr, prefix in validate(ctx, split_traces(d + "/o.ndjson"), "R_" + ver):
            info = describe(tr, prefix)
            info["version"], info["op"] = ver, "powmine.run"
            ctx.bad.append(dict(event=info, reason="replayed"))
    return vlib.finish(ctx, LEVEL, RULE, ASSUME)
