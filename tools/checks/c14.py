"""C14 - b1t6 / b1t8 are exact, strict byte/trit codecs."""
import vlib

LEVEL = "model_checking"
RULE = ("M: every byte, every b1t6 group (729), every b1t8 group (6561) and every trit string up to MaxLen is a TLC state; "
        "G: the same complete tables written by TLC and replayed through the real packages; T: seeded multi-group sequences "
        "(all lengths 0..40, every remainder, invalid group at random position, both faults). A case is distinct by (op, input); "
        "all are non-trivial (each exercises encode or decode of at least one group or a length fault).")
ASSUME = ["TLC/SANY and the CommunityModules Json module", "Go toolchain; iota.go trinary helpers used by the package under test",
          "trits outside {-1,0,1} are not generated (documented undefined behaviour)"]


def run(ctx):
    q = ctx.quick()
    vlib.model_check(ctx, "B1TMC", constants={"MaxLen6": 9 if q else 13, "MaxLen8": 9 if q else 12})
    ctx.exhaustive = True
    gen = vlib.generate(ctx, "B1TGen")
    vec = vlib.read_ndjson(gen)
    b6 = vlib.build_driver(ctx, "pkg/encoding/b1t6", ["b1t6/driver_test.go"])
    b8 = vlib.build_driver(ctx, "pkg/encoding/b1t8", ["b1t8/driver_test.go"])
    bins = {"b1t6": b6, "b1t8": b8}
    events = []
    for pk, binp in bins.items():
        d = ctx.rundir("drv_" + pk)
        inp = d + "/in.ndjson"
        vlib.write_ndjson(inp, [v for v in vec if v["op"].startswith(pk + ".")])
        vlib.run_driver(ctx, binp, "replay", d + "/g.ndjson", infile=inp)
        g = vlib.read_ndjson(d + "/g.ndjson")
        vlib.run_driver(ctx, binp, "record", d + "/t.ndjson", n=400 if q else 6000)
        t = vlib.read_ndjson(d + "/t.ndjson")
        for e in g:
            e["t"] = 1 if pk == "b1t6" else 2
        for e in t:
            e["t"] = 3 if pk == "b1t6" else 4
        events += g + t
    vlib.note_events(ctx, events)
    vlib.call_history_model(ctx)
    vlib.call_histories(ctx, bins["b1t6"], [e for e in events if e.get("t") == 3], ["b1t6.Encode", "b1t6.DecodeTrytes"], "B1TTrace",
                        "real b1t6 result is not the one the B1T specification defines")
    vlib.call_concurrent(ctx, bins["b1t6"], [e for e in events if e.get("t") == 3], ["b1t6.Encode", "b1t6.Decode", "b1t6.DecodeTrytes"],
                         "B1TTrace", "real b1t6 result is not the one the B1T specification defines")
    vlib.call_concurrent(ctx, bins["b1t8"], [e for e in events if e.get("t") == 4], ["b1t8.Encode", "b1t8.Decode"],
                         "B1TTrace", "real b1t8 result is not the one the B1T specification defines")
    bad = vlib.validate_trace(ctx, "B1TTrace", events)
    for pk, binp in bins.items():
        for e in vlib.reproduce(ctx, binp, [b for b in bad if b["op"].startswith(pk + ".")], history=events):
            ctx.bad.append(dict(event=e, reason="real %s result is not the one the B1T specification defines" % e["op"]))
    return vlib.finish(ctx, LEVEL, RULE, ASSUME, technique="TLA+ spec B1T; TLC exhaustive at real size; TLC-generated tables replayed into the code; recorded calls validated by TLC")


def replay(ctx, path):
    import json
    data = json.load(open(path))
    evs = [v["event"] for v in data["violations"]]
    bins = {"b1t6": vlib.build_driver(ctx, "pkg/encoding/b1t6", ["b1t6/driver_test.go"]),
            "b1t8": vlib.build_driver(ctx, "pkg/encoding/b1t8", ["b1t8/driver_test.go"])}
    out = []
    for pk, binp in bins.items():
        sel = [e for e in evs if e["op"].startswith(pk + ".")]
        if not sel:
            continue
        d = ctx.rundir("replay_" + pk)
        vlib.write_ndjson(d + "/in.ndjson", [dict(op=e["op"], **{"in": e["in"]}) for e in sel])
        vlib.run_driver(ctx, binp, "replay", d + "/o.ndjson", infile=d + "/in.ndjson")
        out += vlib.read_ndjson(d + "/o.ndjson")
    bad = vlib.validate_trace(ctx, "B1TTrace", out)
    for e in bad:
        ctx.bad.append(dict(event=e, reason="replayed"))
    return vlib.finish(ctx, LEVEL, RULE, ASSUME)
