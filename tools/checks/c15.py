"""C15 - Merkle Hash is the RFC 6962-style tree hash for every leaf count."""
import json
import vlib

LEVEL = "model_checking"
RULE = ("M: for every n <= 64 (thorough 160) the recursive definition, the bottom-up construction and the root recomputed from every leaf's RFC 6962 "
        "audit path agree over a free term algebra. G: for every n <= GenN the real Hasher runs over a recording crypto.Hash and TLC rebuilds "
        "the term it computed and compares with MTH; tree shapes from the specification are folded with SHA-256 / BLAKE2b-256 and compared "
        "with Hasher.Hash; marshal failure at every position and every pair; largestPowerOfTwo on 2^k-1,2^k,2^k+1 up to 2^30. T: seeded leaf "
        "counts 0..299 with random contents (empty/equal leaves), failures, counts up to several thousand (thorough: around 2^13..2^17) "
        "against the bottom-up construction. Distinct by (op,input).")
ASSUME = ["TLC/SANY/CommunityModules", "Go toolchain, crypto/sha256, x/crypto/blake2b (real-hash legs)",
          "the driver's recording hash and its 30-line bottom-up / shape fold (used only for counts beyond what TLC rebuilds as terms)"]


def run(ctx):
    q = ctx.quick()
    vlib.model_check(ctx, "MerkleMC", constants={"MaxN": 64 if q else 160}, timeout=1500, workers=2)
    binp = vlib.build_driver(ctx, "pkg/merkle", ["merkle/driver_test.go"])
    gen = vlib.generate(ctx, "MerkleGen", constants={"GenN": 130 if q else 700}, timeout=900)
    d = ctx.rundir("drv")
    vlib.run_driver(ctx, binp, "replay", d + "/g.ndjson", infile=gen)
    g = vlib.read_ndjson(d + "/g.ndjson")
    vlib.run_driver(ctx, binp, "record", d + "/t.ndjson", n=40 if q else 400, extra_env={"VERIF_BIG": "0" if q else "1"})
    t = vlib.read_ndjson(d + "/t.ndjson")
    for e in g:
        e["t"] = 1
    for e in t:
        e["t"] = 2
    vlib.note_events(ctx, g + t)
    vlib.call_history_model(ctx)
    vlib.call_histories(ctx, binp, [e for e in t if len(e["in"].get("leaves", [])) in (3, 5) or e["op"] != "merkle.Hash"], ["merkle.Hash"],
                        "MerkleTrace", "real merkle.Hasher disagrees with the Merkle specification", chunk=40)
    bad = vlib.validate_trace(ctx, "MerkleTrace", g + t, chunk=40)
    conf = vlib.reproduce(ctx, binp, bad, history=g + t)

    def escalate(wb):
        # the unexported split function deviated: hash trees of those sizes (where feasible) and a larger set of sizes
        dd = ctx.rundir("escalate")
        ns = sorted({e["in"]["n"] for e in wb if e["in"].get("n", 10 ** 9) <= 70000})[:6]
        ins = [dict(op="merkle.Big", **{"in": dict(n=n, hash="sha256")}) for n in ns]
        ins += [dict(op="merkle.Big", **{"in": dict(n=n, hash="blake2b")}) for n in (2, 3, 5, 9, 17, 33, 65, 129, 257, 1025, 4097, 8191, 8193)]
        vlib.write_ndjson(dd + "/in.ndjson", ins)
        vlib.run_driver(ctx, binp, "replay", dd + "/o.ndjson", infile=dd + "/in.ndjson")
        ev = vlib.read_ndjson(dd + "/o.ndjson")
        vlib.run_driver(ctx, binp, "record", dd + "/t.ndjson", n=120, extra_env={"VERIF_BIG": "1"})
        ev += [x for x in vlib.read_ndjson(dd + "/t.ndjson") if x["op"] != "merkle.lp2"]
        n0, t0 = ctx.events, ctx.traces
        rej = vlib.validate_trace(ctx, "MerkleTrace", ev, chunk=40, label="T_escalate")
        ctx.events, ctx.traces = n0, t0
        return vlib.reproduce(ctx, binp, rej, history=ev)
    for e in vlib.settle_whitebox(ctx, conf, {"merkle.lp2"}, escalate, label="merkle", wb_all=[x for x in g + t if x["op"] == "merkle.lp2"],
                                  reachable=lambda e: e["in"].get("n", 10 ** 9) <= 70000):
        ctx.bad.append(dict(event=e, reason="real merkle.Hasher disagrees with the Merkle specification"))
    return vlib.finish(ctx, LEVEL, RULE, ASSUME,
                       technique="TLA+ spec Merkle over a free term algebra; TLC model n<=64; recording crypto.Hash traces rebuilt as terms by TLC; spec-chosen shapes folded with real hashes")


def replay(ctx, path):
    data = json.load(open(path))
    binp = vlib.build_driver(ctx, "pkg/merkle", ["merkle/driver_test.go"])
    d = ctx.rundir("replay")
    vlib.write_ndjson(d + "/in.ndjson", [dict(op=v["event"]["op"], **{"in": v["event"]["in"]}) for v in data["violations"]])
    vlib.run_driver(ctx, binp, "replay", d + "/o.ndjson", infile=d + "/in.ndjson")
    for e in vlib.validate_trace(ctx, "MerkleTrace", vlib.read_ndjson(d + "/o.ndjson")):
        ctx.bad.append(dict(event=e, reason="replayed"))
    return vlib.finish(ctx, LEVEL, RULE, ASSUME)
