"""C16 - the Bech32 checksum detects every error of up to four characters."""
import re
import vlib
from checks import bech32_common as bc

LEVEL = "model_checking"
RULE = ("M: complete for the specification's generator constants: all 1+31W+31^2 W(W-1)/2 error patterns of weight <=2 in the 89-symbol "
        "window are TLC states with VIEW = syndrome; distinct states must equal the number of patterns (=> no error of weight <=4 has "
        "syndrome 0). G: TLC-built strings whose checksum residue differs from 1 (all residues at Hamming distance 1 and 2, 0, all ones, the Bech32m constant, a spread) must be rejected. Binding: the real polymod on all unit vectors (100 positions x 5 bits) and random vectors equals the specification's; "
        "T: real Decode on valid strings with all weight-1 substitutions, weight-2 pairs, sampled weight 1..4 incl. same-kind HRP "
        "substitutions must be rejected, as the specification (TLC evaluates the polymod) says. Distinct by input string.")


def run(ctx):
    q = ctx.quick()
    r = vlib.model_check(ctx, "BchDistance", timeout=900, heap="8g")
    m = re.search(r'"VERIF-EXPECTED", (\d+)', r["out"])
    if not m:
        raise vlib.Infra("BchDistance printed no expected count")
    exp = int(m.group(1))
    ctx.exhaustive = True
    ctx.notes.append("BchDistance: %d patterns, %d distinct syndromes" % (exp, r["distinct"]))
    if r["distinct"] != exp:
        # a design-level failure of the specification's constants; the code binding below decides
        raise vlib.Infra("BchDistance: %d distinct syndromes for %d patterns - the specification's generator does not have distance 5"
                         % (r["distinct"], exp))
    binp = bc.driver(ctx)
    vec = [v for v in vlib.read_ndjson(vlib.generate(ctx, "Bech32Gen")) if v["op"] == "bech32.Decode"]
    g = bc.run_ops(ctx, binp, vec, "g")
    for e in g:
        e["t"] = 100
    t = bc.record(ctx, binp, 25 if q else 400, "c16", focus="c16") + g
    vlib.note_events(ctx, t)
    vlib.call_history_model(ctx)
    vlib.call_histories(ctx, binp, t, ["bech32.Decode"], "Bech32Trace", "Decode accepted a string with 1..4 substituted characters")
    bc.judge(ctx, binp, t, "real polymod differs from the specification's, or Decode accepted a string with 1..4 substituted characters")
    return vlib.finish(ctx, LEVEL, RULE, bc.ASSUME, matchers=bc.MATCHERS,
                       technique="TLA+ spec BchDistance: syndrome distinctness decided by TLC state counting (complete); real polymod and Decode bound by trace validation")


def replay(ctx, path):
    return bc.replay(ctx, path, LEVEL, RULE)
