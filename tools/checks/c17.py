"""C17 - the secp256k1 curve implements the group law for all points and scalars."""
import vlib
from checks import ec_common as ec

LEVEL = "model_checking"
RULE = ("M: group axioms of the affine law on toy curves y^2=x^3+7 of prime order (p=13,43; thorough also 61,67): every triple of points is a TLC state; "
        "order, generator, scalars modulo n. G (exhaustive on the real code): both copies of koblitzCurve are instantiated with each toy "
        "CurveParams and TLC's complete tables are replayed: all pairs for Add (incl. P=Q, P=-Q, identity), all points for Double, all scalars "
        "0..2n+2 in 1..3 byte encodings plus empty for ScalarMult/ScalarBaseMult, all (x,y) in [0,p)^2 for IsOnCurve. T: real secp256k1: seeded and "
        "special operands; every result is verified by TLC through certificates (on-curve and chord/tangent congruences with logged quotients), "
        "ScalarBaseMult checked as a homomorphism with [0]G=[n]G=identity, [1]G=G, leading zeros, scalars >= n, 2^256-1, ladder-derived scalars; "
        "crafted curve points with edge coordinates (tiny x / y, just below p, in [n,p)) for IsOnCurve and Add. Verdicts come from the real curve: a "
        "toy-table deviation counts together with a real-size one, alone it triggers a larger real-size campaign and otherwise only skips the toy "
        "leg (an implementation need not be generic in CurveParams). Distinct by (copy,op,input).")


def run(ctx):
    q = ctx.quick()
    primes = "{13, 43}" if q else "{13, 43, 61, 67}"
    vlib.model_check(ctx, "ECGroupMC", constants={"Primes": primes}, timeout=2400)
    vlib.model_check(ctx, "BigNatMC", timeout=300, workers=2)
    ctx.exhaustive = True
    gen = vlib.generate(ctx, "ECGen", constants={"Primes": "{13, 43}" if q else "{13, 43, 61, 67, 79, 97, 127}"}, timeout=1200)
    vec = [v for v in vlib.read_ndjson(gen) if v["op"].startswith("ecs.")]
    work = []
    for label, binp in ec.btc_drivers(ctx).items():
        d = ctx.rundir("drv_" + label)
        g = ec.replay_toy(ctx, binp, vec, d)
        vlib.run_driver(ctx, binp, "record", d + "/t.ndjson", n=24 if q else 400)
        t = vlib.read_ndjson(d + "/t.ndjson")
        for k, e in enumerate(g):
            e["t"] = 1
        for e in t:
            e["t"] = 2
        work.append((label, binp, g + t))
    vlib.note_events(ctx, [e for _, _, ev in work for e in ev], keep=0)
    for _, _, ev in work[:1]:
        for e in ev[:2] + ev[-2:]:
            ctx.samples.append(ec.slim(e))
    def escalate(label, binp):
        dd = ctx.rundir("escalate_" + label)
        vlib.run_driver(ctx, binp, "record", dd + "/t.ndjson", n=400, extra_env={"VERIF_ESCALATE": "1"})
        return vlib.read_ndjson(dd + "/t.ndjson")
    vlib.call_history_model(ctx)
    for label, binp, evs in work:
        vlib.call_histories(ctx, binp, [e for e in evs if e.get("t") == 2], ["ecb.hom"], "ECTrace", "koblitzCurve result is not the group law (%s copy)" % label)
    ec.judge(ctx, work, "koblitzCurve result is not the group law (wrong point, nil result or panic)", escalate=escalate)
    return vlib.finish(ctx, LEVEL, RULE, ec.ASSUME, matchers=ec.MATCHERS,
                       technique="TLA+ spec ECGroup: TLC model of the group axioms on toy curves; complete toy tables replayed through the real generic code (both copies); real-size results verified by TLC via certificates")


def replay(ctx, path):
    return ec.replay(ctx, path, LEVEL, RULE)
