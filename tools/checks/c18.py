"""C18 - ECVRF proofs are RFC 9381 conformant, complete, canonical and unique."""
import json
import vlib

LEVEL = "model_checking"
RULE = ("M: ECVRF over the abstract group Z_{8q}: completeness (honest proofs verify and yield the proof's hash), strictness (non-canonical or small-order "
        "keys, non-80-byte or non-canonical proofs rejected), output independent of torsion in Gamma - every (secret, alpha, key string, proof "
        "material, length) is a TLC state. T: real Prove on seeded seeds x alphas of length 0..200 incl. alphas needing 2..4 try-and-increment "
        "rounds: TLC checks the dictated input of every hash, the first successful counter, and recomputes x, k, c, s with certified reductions; the "
        "proof must equal an independent RFC 9381 transcription; Verify/ProofToHash/Proof.Hash agree, Hash() leaves the proof intact. Scenario "
        "classes with class-determined verdicts: wrong alpha/key, s+L, every non-canonical encoding and undecodable strings for Gamma, Gamma+torsion, "
        "lengths 0/79/81, bit flips over all 640 bits (strided in quick), the 14 small-order / non-canonical key encodings with CRAFTED proofs that "
        "satisfy the verification equation; decoding of arbitrary strings re-encodes to itself. Distinct by (op,input).")
ASSUME = ["TLC/SANY/CommunityModules", "Go toolchain; crypto/sha512 as fact provider (reductions certified)",
          "the driver's RFC 9381 transcription on filippo.io/edwards25519 primitives supplies point facts (H, Gamma, k*B, k*H, 8*Gamma)",
          "cryptographic expectation: bit-flipped proofs and Gamma+torsion are rejected"]


def driver(ctx):
    return vlib.build_driver(ctx, "pkg/vrf", ["vrf/driver_test.go"])


def slim(e):
    e = json.loads(json.dumps(e))
    f = e.get("facts", {})
    for k in list(f.keys()):
        if k not in ("beta",):
            f.pop(k)
    return e


def run(ctx):
    q = ctx.quick()
    vlib.model_check(ctx, "EcvrfMC", constants={"Q": 5 if q else 7}, timeout=2400)
    binp = driver(ctx)
    d = ctx.rundir("drv")
    vlib.run_driver(ctx, binp, "record", d + "/t.ndjson", n=10 if q else 150, extra_env={"VERIF_BITSTRIDE": "40" if q else "4"})
    ev = vlib.read_ndjson(d + "/t.ndjson")
    vlib.note_events(ctx, ev, keep=0)
    for e in [x for x in ev if x["op"] == "vrf.Prove"][:1] + [x for x in ev if x["op"] == "vrf.Verify"][:3]:
        ctx.samples.append(slim(e))
    vlib.call_history_model(ctx)
    vlib.call_histories(ctx, binp, ev, ["vrf.Prove", "vrf.Verify"], "EcvrfTrace", "ECVRF Prove / Verify differs from RFC 9381 as specified")
    bad = vlib.validate_trace(ctx, "EcvrfTrace", ev)
    for e in vlib.reproduce(ctx, binp, bad, history=ev):
        ctx.bad.append(dict(event=slim(e), reason="ECVRF Prove/Verify/decoding differs from RFC 9381 as specified (hash inputs, scalars, verdict or canonical decoding)"))
    return vlib.finish(ctx, LEVEL, RULE, ASSUME,
                       technique="TLA+ spec Ecvrf over an abstract group (TLC model) + real-size trace validation: dictated hash inputs, scalars recomputed with BigNat certificates, class-determined verdicts incl. crafted equation-satisfying proofs")


def replay(ctx, path):
    data = json.load(open(path))
    binp = driver(ctx)
    d = ctx.rundir("replay")
    vlib.write_ndjson(d + "/in.ndjson", [dict(op=v["event"]["op"], **{"in": v["event"]["in"]}) for v in data["violations"]])
    vlib.run_driver(ctx, binp, "replay", d + "/o.ndjson", infile=d + "/in.ndjson")
    for e in vlib.validate_trace(ctx, "EcvrfTrace", vlib.read_ndjson(d + "/o.ndjson")):
        ctx.bad.append(dict(event=slim(e), reason="replayed"))
    return vlib.finish(ctx, LEVEL, RULE, ASSUME)
