"""C19 - network and migration addresses round-trip and parse strictly."""
import json
import vlib
from checks import bech32_common as bc

LEVEL = "model_checking"
RULE = ("M: scaled address table (payload lengths 2/1): every (prefix, version byte in {0,1,8,16,24,255}, payload) is a TLC state: parse o print = id, "
        "strictness, case, unknown prefix. G: TLC-built Bech32 strings for 4 prefixes x 3 versions x payload lengths 0..50, all 256 version bytes at "
        "lengths 20/32, unknown/upper-case prefixes, upper-case spellings. T: seeded addresses (Bech32 -> ParseBech32), arbitrary version bytes "
        "and lengths under a valid checksum, substitutions; migration: Encode/Decode of random and extreme addresses, ALL 81x26 single-tryte "
        "substitutions, lengths 80/82, lower case, double substitutions, judged with BLAKE2b facts. Distinct by (op,input).")
ASSUME = bc.ASSUME + ["x/crypto/blake2b as fact provider for the migration checksum (the specification checks the fact is about the address it derives itself)"]


def drivers(ctx):
    return {"address": vlib.build_driver(ctx, "pkg/bech32/address", ["address/driver_test.go"]),
            "migration": vlib.build_driver(ctx, "pkg/migration", ["migration/driver_test.go"])}


def composition(ctx):
    """Growth beyond the listed properties (DESIGN.md 8): the kdf pipeline sentence -> seed -> SLIP-10 -> Ed25519 -> address ->
    Bech32 and internal/hexutil, judged by module IotaCrypto.  A rejection here is reported under C19 (the address is the
    pipeline's end) only when the address / Bech32 stage is at fault; earlier stages are reported as notes and belong to
    C09 / C02 / C07, whose own checks decide them."""
    try:
        cb = vlib.build_driver(ctx, "pkg/bech32/address", ["compose/driver_test.go"], name="compose")
        hb = vlib.build_driver(ctx, "internal/hexutil", ["hexutil/driver_test.go"], name="hexutil")
    except vlib.Infra as e:
        ctx.skipped.append("composition leg: driver does not build: %s" % str(e)[:200])
        return
    d = ctx.rundir("compose")
    vlib.run_driver(ctx, cb, "record", d + "/c.ndjson", n=8 if ctx.quick() else 150)
    vlib.run_driver(ctx, hb, "record", d + "/h.ndjson", n=100 if ctx.quick() else 3000)
    ev = vlib.read_ndjson(d + "/c.ndjson") + vlib.read_ndjson(d + "/h.ndjson")
    for k, e in enumerate(ev):
        e["t"] = 9
    bad = vlib.validate_trace(ctx, "IotaCrypto", ev, label="T_compose")
    for b in bad:
        if b["op"] == "compose.kdf" and b["out"].get("ok") and b["out"].get("addr") == b.get("facts", {}).get("blake"):
            for e in vlib.reproduce(ctx, cb, [b], history=ev):
                e = dict(e)
                e.pop("facts", None)
                ctx.bad.append(dict(event=e, reason="composition: address / Bech32 stage of the kdf pipeline differs from IotaCrypto"))
        else:
            ctx.notes.append("composition leg rejected an event outside C19's scope (%s): decided by that stage's own check" % b["op"])


def run(ctx):
    q = ctx.quick()
    vlib.model_check(ctx, "AddressMC", timeout=600, workers=4)
    bins = drivers(ctx)
    gen = vlib.generate(ctx, "AddressGen", timeout=600)
    d = ctx.rundir("drv")
    vlib.run_driver(ctx, bins["address"], "replay", d + "/g.ndjson", infile=gen)
    g = vlib.read_ndjson(d + "/g.ndjson")
    vlib.run_driver(ctx, bins["address"], "record", d + "/ta.ndjson", n=300 if q else 6000)
    ta = vlib.read_ndjson(d + "/ta.ndjson")
    vlib.run_driver(ctx, bins["migration"], "record", d + "/tm.ndjson", n=2 if q else 24)
    tm = vlib.read_ndjson(d + "/tm.ndjson")
    for k, lst in enumerate((g, ta, tm)):
        for e in lst:
            e["t"] = k + 1
    ev = g + ta + tm
    vlib.note_events(ctx, ev)
    vlib.call_history_model(ctx)
    vlib.call_histories(ctx, bins["address"], ta, ["address.Bech32", "address.Parse"], "AddressTrace", "real address.Bech32 / ParseBech32 disagrees with the Address specification")
    vlib.call_histories(ctx, bins["migration"], tm, ["migration.Decode", "migration.Encode"], "AddressTrace", "real migration.Encode / Decode disagrees with the Migration specification")
    vlib.call_concurrent(ctx, bins["address"], ta, ["address.Bech32", "address.Parse"], "AddressTrace", "real address.Bech32 / ParseBech32 disagrees with the Address specification")
    bad = vlib.validate_trace(ctx, "AddressTrace", ev)
    for pk, binp in bins.items():
        for e in vlib.reproduce(ctx, binp, [b for b in bad if b["op"].startswith(pk + ".")], history=ev):
            ctx.bad.append(dict(event=e, reason="real %s disagrees with the Address specification" % e["op"]))
    composition(ctx)
    return vlib.finish(ctx, LEVEL, RULE, ASSUME, matchers=bc.MATCHERS,
                       technique="TLA+ spec Address (Bech32 + version table; migration = b1t6 + checksum fact); TLC model; TLC-generated strings replayed; trace validation")


def replay(ctx, path):
    data = json.load(open(path))
    bins = drivers(ctx)
    out = []
    for pk, binp in bins.items():
        sel = [v["event"] for v in data["violations"] if v["event"]["op"].startswith(pk + ".")]
        if sel:
            d = ctx.rundir("replay_" + pk)
            vlib.write_ndjson(d + "/in.ndjson", [dict(op=e["op"], **{"in": e["in"]}) for e in sel])
            vlib.run_driver(ctx, binp, "replay", d + "/o.ndjson", infile=d + "/in.ndjson")
            out += vlib.read_ndjson(d + "/o.ndjson")
    for e in vlib.validate_trace(ctx, "AddressTrace", out):
        ctx.bad.append(dict(event=e, reason="replayed"))
    return vlib.finish(ctx, LEVEL, RULE, ASSUME, matchers=bc.MATCHERS)
