"""C20 - assembly and portable Curl permutations both equal Curl-P-81."""
import json, os
import vlib

LEVEL = "model_checking"
RULE = ("M (definition level): the bit formula of sBox equals the Curl truth table on the 9 valid cell pairs and is total on all 16; the index walk is a "
        "permutation. M (program level): the checked-in transform_amd64.s is translated into a TLA+ instruction list and executed by AsmMachine: address "
        "run of the whole routine (650k instructions: every memory operand aligned and inside its buffer, no data in addresses/flags, pointer roles "
        "per round, store counts at RET) and symbolic run of one round body (every store is the round function of its index by truth table). T: transform/transformGeneric run on seeded bit-sliced states (arbitrary words incl. the "
        "non-trit cell <<0,0>>, valid trits, the reset state, all-zero words, sparse, constant low plane) with all four buffers placed against "
        "PROT_NONE guard pages (start and end), under the default and the purego build; whole-state equality asm==portable; for audited lanes "
        "(lane 0, 63, random) TLC evaluates 81 rounds of the definition on the 729 cells. T2 (public API only): Absorb/Squeeze histories on Curl objects "
        "under both builds with squeezed lanes anchored to the Curl-P-81 sponge evaluated by TLC. Distinct by (build, seed, pattern, guard) / (build, trace, event).")
ASSUME = ["TLC/SANY/CommunityModules", "Go toolchain/assembler; lane-locality of the bitwise instructions (AND/XOR/OR/NOT/MOV) for lanes that are not audited",
          "guard pages detect out-of-buffer accesses that cross a page boundary next to the buffer (AsmMachine address run covers all accesses)"]


def builds(ctx):
    b = {"default": vlib.build_driver(ctx, "pkg/curl", ["curl/driver_test.go"], name="curl_default")}
    b["purego"] = vlib.build_driver(ctx, "pkg/curl", ["curl/driver_test.go"], tags=("verif", "purego"), name="curl_purego")
    return b


def run(ctx):
    q = ctx.quick()
    vlib.model_check(ctx, "CurlMC", constants={"Depth": 3}, timeout=600)
    try:
        from checks import asm_machine
        asm_machine.run(ctx)
    except ImportError:
        ctx.skipped.append("AsmMachine module missing")
    ev = []
    bins = builds(ctx)
    for k, (name, binp) in enumerate(bins.items()):
        d = ctx.rundir("drv_" + name)
        vlib.run_driver(ctx, binp, "record", d + "/t.ndjson", n=(40 if q else 4000),
                        extra_env={"VERIF_BUILD": name, "VERIF_AUDIT": str((10 if q else 160) if name == "default" else (4 if q else 40))})
        t = vlib.read_ndjson(d + "/t.ndjson")
        for e in t:
            e["t"] = k + 1
            e["in"]["build"] = name
        ev += t
    vlib.note_events(ctx, ev, keep=0)
    for e in ev[:2]:
        ctx.samples.append(dict(op=e["op"], **{"in": e["in"]}, out={k: v for k, v in e["out"].items() if k not in ("incells", "outcells")}))
    # public-API leg (survives renaming of the unexported permutations): sponge histories under both builds, squeezed
    # lanes anchored to the Curl-P-81 sponge evaluated by TLC
    from checks import c06
    for name, binp in bins.items():
        c06.sponge_histories(ctx, binp, 3 if q else 40, 3 if q else 30,
                             "Curl object (%s build): squeezed output differs from the Curl-P-81 sponge of module CurlP81" % name,
                             env={"VERIF_BUILD": name}, tag="_" + name)
    audited = [e for e in ev if e["out"].get("incells")]
    plain = [e for e in ev if not e["out"].get("incells")]
    bad = vlib.validate_trace(ctx, "CurlTrace", audited, chunk=1, label="T_audit") + vlib.validate_trace(ctx, "CurlTrace", plain, label="T_diff")
    for name, binp in bins.items():
        sel = [b for b in bad if b["in"].get("build") == name]
        for e in vlib.reproduce(ctx, binp, sel, extra_env={"VERIF_BUILD": name}, history=ev):
            e = dict(e)
            e["out"] = {k: (v if k not in ("incells", "outcells") else "(%d audited lanes)" % len(v)) for k, v in e["out"].items()}
            ctx.bad.append(dict(event=e, reason="transform (%s build) differs from 81 rounds of the Curl-P definition, from transformGeneric, or touched memory outside its buffers" % name))
    return vlib.finish(ctx, LEVEL, RULE, ASSUME,
                       technique="TLA+ spec CurlP81 evaluated by TLC at real size on audited lanes; AsmMachine model of the checked-in assembly; guard-page differential traces under both builds")


def replay(ctx, path):
    data = json.load(open(path))
    bins = builds(ctx)
    out = []
    for name, binp in bins.items():
        for k, v in enumerate(data["violations"]):          # sponge-history violations: replay the whole history
            if v["event"].get("history") and v["event"].get("build", "_default") == "_" + name:
                d = ctx.rundir("replay_h%d_%s" % (k, name))
                vlib.write_ndjson(d + "/in.ndjson", v["event"]["history"])
                vlib.run_driver(ctx, binp, "replay", d + "/o.ndjson", infile=d + "/in.ndjson", extra_env={"VERIF_BUILD": name})
                hev = vlib.read_ndjson(d + "/o.ndjson")
                for i, e in enumerate(hev):
                    e["t"], e["i"] = k + 1, i + 1
                for e in vlib.validate_trace(ctx, "CurlTrace", hev, stateful=True, chunk=10 ** 9, label="T_replay_h"):
                    ctx.bad.append(dict(event=dict(op=e["op"], **{"in": e["in"]}), reason="replayed"))
        sel = [v["event"] for v in data["violations"] if not v["event"].get("history") and v["event"]["in"].get("build") == name]
        if sel:
            d = ctx.rundir("replay_" + name)
            vlib.write_ndjson(d + "/in.ndjson", [dict(op=e["op"], **{"in": e["in"]}) for e in sel])
            vlib.run_driver(ctx, binp, "replay", d + "/o.ndjson", infile=d + "/in.ndjson", extra_env={"VERIF_BUILD": name})
            out += vlib.read_ndjson(d + "/o.ndjson")
    for e in vlib.validate_trace(ctx, "CurlTrace", out, chunk=1):
        ctx.bad.append(dict(event=dict(op=e["op"], **{"in": e["in"]}), reason="replayed"))
    return vlib.finish(ctx, LEVEL, RULE, ASSUME)
