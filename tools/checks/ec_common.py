import json
import vlib

ASSUME = ["TLC/SANY/CommunityModules", "Go toolchain, math/big (driver-side reference arithmetic only produces certificates, which TLC verifies by "
          "multiplication and comparison)", "toy curves y^2=x^3+7 of prime order (orders re-checked by TLC); the code is generic in CurveParams"]
COPIES = {"internal": "pkg/slip10/elliptic/internal/btccurve", "public": "pkg/slip10/btccurve"}


def btc_drivers(ctx):
    return {k: vlib.build_driver(ctx, p, ["btccurve/driver_test.go"], name="btccurve_" + k) for k, p in COPIES.items()}


def elliptic_driver(ctx):
    return vlib.build_driver(ctx, "pkg/slip10/elliptic", ["ellipticpkg/driver_test.go"], name="ellipticpkg",
                             optional_extra={"pkg/slip10/elliptic/internal/btccurve/zz_verif_export.go": "ellipticpkg/export_shim.go"})


def slim(e):
    e = json.loads(json.dumps(e))
    e.pop("cert", None)
    return e


def cls_group_special(e):
    """F-C17-special: Add/Double/ScalarMult on special operands (P=Q, P=-Q, identity operand, zero or multiple-of-n scalar)."""
    return e["op"].startswith("ec") and (e["out"].get("panic", "") != "" or e["out"].get("nil") is True)


MATCHERS = {}


def judge(ctx, bins_events, what, chunk=None):
    """bins_events: list of (label, binary, events)."""
    allev = []
    for label, binp, ev in bins_events:
        for e in ev:
            e["in"]["copy"] = label
        allev += ev
    bad = vlib.validate_trace(ctx, "ECTrace", allev, chunk=chunk)
    for label, binp, ev in bins_events:
        sel = [b for b in bad if b["in"].get("copy") == label]
        for e in vlib.reproduce(ctx, binp, sel, history=allev):
            ctx.bad.append(dict(event=slim(e), reason=what))


def replay(ctx, path, level, rule):
    data = json.load(open(path))
    bins = dict(btc_drivers(ctx))
    bins["elliptic"] = elliptic_driver(ctx)
    out = []
    for label, binp in bins.items():
        sel = [v["event"] for v in data["violations"] if v["event"]["in"].get("copy") == label]
        if sel:
            d = ctx.rundir("replay_" + label)
            vlib.write_ndjson(d + "/in.ndjson", [dict(op=e["op"], **{"in": e["in"]}) for e in sel])
            vlib.run_driver(ctx, binp, "replay", d + "/o.ndjson", infile=d + "/in.ndjson")
            out += vlib.read_ndjson(d + "/o.ndjson")
    for e in vlib.validate_trace(ctx, "ECTrace", out):
        ctx.bad.append(dict(event=slim(e), reason="replayed"))
    return vlib.finish(ctx, level, rule, ASSUME, matchers=MATCHERS)
