import json
import vlib

ASSUME = ["TLC/SANY/CommunityModules", "Go toolchain, math/big (driver-side reference arithmetic only produces certificates, which TLC verifies by "
          "multiplication and comparison)", "toy curves y^2=x^3+7 of prime order (orders re-checked by TLC); the code is generic in CurveParams"]
COPIES = {"internal": "pkg/slip10/elliptic/internal/btccurve", "public": "pkg/slip10/btccurve"}


def btc_drivers(ctx):
    return {k: vlib.build_driver(ctx, p, ["btccurve/driver_test.go"], name="btccurve_" + k) for k, p in COPIES.items()}


def elliptic_driver(ctx):
    return vlib.build_driver(ctx, "pkg/slip10/elliptic", ["ellipticpkg/driver_test.go"], name="ellipticpkg",
                             optional_extra={"pkg/slip10/elliptic/internal/btccurve/zz_verif_export.go": "ellipticpkg/export_shim.go"})


def slim(e):
    e = json.loads(json.dumps(e))
    e.pop("cert", None)
    return e


def cls_group_special(e):
    """F-C17-special: Add/Double/ScalarMult on special operands (P=Q, P=-Q, identity operand, zero or multiple-of-n scalar)."""
    return e["op"].startswith("ec") and (e["out"].get("panic", "") != "" or e["out"].get("nil") is True)


MATCHERS = {}


def is_toy(e):
    return e["op"].startswith("ecs.") or e["op"] == "shift.s"


def replay_toy(ctx, binp, vec, d, name="g"):
    """Toy-curve vectors are replayed one process per toy prime: an implementation may legitimately keep per-process
    tables derived from the curve it is first used with (there is only one curve in production)."""
    out = []
    for p in sorted({v["in"].get("p", 0) for v in vec}):
        part = [v for v in vec if v["in"].get("p", 0) == p]
        vlib.write_ndjson("%s/in_%s_p%s.ndjson" % (d, name, p), part)
        try:
            vlib.run_driver(ctx, binp, "replay", "%s/%s_p%s.ndjson" % (d, name, p), infile="%s/in_%s_p%s.ndjson" % (d, name, p), timeout=75)
        except vlib.Infra as e:
            # the toy instantiation is not decisive (the code may be specialised to the production curve: it may even loop
            # on other parameters); the real-size legs decide
            ctx.skipped.append("toy-curve replay (p=%s) did not complete: leg skipped, the real-size legs decide (%s)" % (p, str(e).splitlines()[0][:160]))
            ctx.log("toy replay p=%s skipped (and the remaining toy primes with it)" % p)
            break
        out += vlib.read_ndjson("%s/%s_p%s.ndjson" % (d, name, p))
    return out


def judge(ctx, bins_events, what, chunk=None, escalate=None):
    """bins_events: list of (label, binary, events).

    The property is about the production curves.  The toy-curve tables (events ecs.*, shift.s) rest on the assumption
    that the implementation is generic in its CurveParams; a deviation seen only there is not a verdict (specialised
    field arithmetic or precomputed tables for the one production curve are legitimate).  So: a real-size rejection is a
    violation; a toy rejection is reported together with a real-size one; a toy rejection alone triggers `escalate`
    (a much larger real-size campaign over the same operand classes) and, if that stays clean, is recorded as a
    skipped leg, not a violation."""
    allev = []
    for label, binp, ev in bins_events:
        for e in ev:
            e["in"]["copy"] = label
        allev += ev
    bad = vlib.validate_trace(ctx, "ECTrace", allev, chunk=chunk)
    for label, binp, ev in bins_events:
        sel = [b for b in bad if b["in"].get("copy") == label]
        conf = vlib.reproduce(ctx, binp, sel, history=allev)
        real = [e for e in conf if not is_toy(e)]
        toy = [e for e in conf if is_toy(e)]
        if toy and not real and escalate:
            more = escalate(label, binp)
            for e in more:
                e["in"]["copy"] = label
            ev_n, tr_n = ctx.events, ctx.traces
            mbad = vlib.validate_trace(ctx, "ECTrace", more, chunk=chunk, label="T_escalate")
            ctx.events, ctx.traces = ev_n, tr_n
            real = vlib.reproduce(ctx, binp, mbad, history=more)
        if real:
            for e in real + toy:
                ctx.bad.append(dict(event=slim(e), reason=what))
        elif toy:
            msg = ("toy-curve deviation without a real-size counterpart (%s, %d events, first: %s): the implementation is not generic in its "
                   "curve parameters, or the deviation is confined to toy sizes; the toy leg is skipped, not a verdict on the production curve"
                   % (label, len(toy), json.dumps(slim(toy[0]))[:300]))
            ctx.skipped.append(msg)
            ctx.log("SKIPPED: " + msg)


def replay(ctx, path, level, rule):
    data = json.load(open(path))
    bins = dict(btc_drivers(ctx))
    bins["elliptic"] = elliptic_driver(ctx)
    out = []
    for label, binp in bins.items():
        sel = [v["event"] for v in data["violations"] if v["event"]["in"].get("copy") == label]
        if sel:
            d = ctx.rundir("replay_" + label)
            vlib.write_ndjson(d + "/in.ndjson", [dict(op=e["op"], **{"in": e["in"]}) for e in sel])
            vlib.run_driver(ctx, binp, "replay", d + "/o.ndjson", infile=d + "/in.ndjson")
            out += vlib.read_ndjson(d + "/o.ndjson")
    for e in vlib.validate_trace(ctx, "ECTrace", out):
        ctx.bad.append(dict(event=slim(e), reason="replayed"))
    return vlib.finish(ctx, level, rule, ASSUME, matchers=MATCHERS)
