import json
import vlib

ASSUME = ["TLC/SANY/CommunityModules", "Go toolchain; crypto/sha512 as fact provider (TLC verifies every modular reduction by certificate)",
          "filippo.io/edwards25519 builds the test points [a]B + T_t and classifies undecodable strings (a dependency of the code under test); "
          "TLC's verdict uses only the scalars a, r, k, S (exponent arithmetic), not the curve arithmetic",
          "cryptographic expectation: bit-flipped R/A and random bytes are rejected"]


def driver(ctx):
    return vlib.build_driver(ctx, "pkg/ed25519", ["ed25519/driver_test.go"])


def slim(e):
    e = json.loads(json.dumps(e))
    e.pop("facts", None)
    return e


def replay(ctx, path, level, rule, focus=None):
    data = json.load(open(path))
    binp = driver(ctx)
    d = ctx.rundir("replay")
    ins = []
    for v in data["violations"]:
        i = dict(v["event"]["in"])
        for k in ("pk", "sig"):
            i.pop(k, None)
        if v["event"]["op"] == "ed.Verify":
            i.pop("msg", None)
        ins.append(dict(op=v["event"]["op"], **{"in": i}))
    vlib.write_ndjson(d + "/in.ndjson", ins)
    vlib.run_driver(ctx, binp, "replay", d + "/o.ndjson", infile=d + "/in.ndjson")
    for e in vlib.validate_trace(ctx, "Ed25519Trace", vlib.read_ndjson(d + "/o.ndjson")):
        ctx.bad.append(dict(event=slim(e), reason="replayed"))
    return vlib.finish(ctx, level, rule, ASSUME)
