import json
import vlib

ASSUME = ["TLC/SANY/CommunityModules", "Go toolchain", "x/crypto/blake2b as fact provider for the PoW digest",
          "iota.go single-lane Curl as fact provider for hashes of nonces other than the returned one (audited by TLC per event)"]


def drivers(ctx, which=("pow", "pow2")):
    b = {}
    if "pow" in which:
        b["pow"] = vlib.build_driver(ctx, "pkg/pow", ["pow/driver_test.go"])
    if "pow2" in which:
        b["pow2"] = vlib.build_driver(ctx, "pkg/pow/v2", ["pow2/driver_test.go"])
    return b


def slim(e):
    e = json.loads(json.dumps(e))
    f = e.get("facts", {})
    if isinstance(f.get("blocks"), list) and f["blocks"]:
        f["blocks"] = "(%d earlier blocks logged)" % len(f["blocks"])
    o = e.get("out", {})
    if isinstance(o.get("full"), list):
        o["full"] = [dict(lane=c["lane"], tz=o["tz"][c["lane"]]) for c in o["full"]]
    return e


def is_lowtarget_crash(e):
    """F-C11-lowtarget: Mine crashes the process when len*target < 1/3 (negative float -> uint)."""
    if e["op"] != "pow.Mine" or not e["out"].get("crashed"):
        return False
    t = e["in"]["target"]
    m = sum(v << (12 * i) for i, v in enumerate(t["m"]))
    ln = len(e["in"]["data"]) + 8
    from fractions import Fraction
    val = Fraction(m) * (Fraction(2) ** t["e"])
    return val * ln < Fraction(1, 3) or (val * ln < 1 and "invalid trailing zeros" in e["out"].get("err", ""))


def is_ulp_above(e):
    """F-C11-ulp: target within a few ulps above 3^k/len: Mine looks for k zeros only and returns a nonce scoring 3^k/len < target."""
    if e["op"] != "pow.Mine" or e["out"].get("crashed") or not e["out"].get("ok"):
        return False
    from fractions import Fraction
    t = e["in"]["target"]
    tv = Fraction(sum(v << (12 * i) for i, v in enumerate(t["m"]))) * (Fraction(2) ** t["e"])
    s = e["out"]["score"]
    sv = Fraction(sum(v << (12 * i) for i, v in enumerate(s["m"]))) * (Fraction(2) ** s["e"])
    return sv < tv and (tv - sv) / tv < Fraction(1, 10 ** 12)


MATCHERS = {"F-C11-lowtarget": is_lowtarget_crash, "F-C11-ulp": is_ulp_above}


WB_OPS = {"pow.required", "pow.check", "pow2.params", "pow2.check"}


def _directed(wb):
    """API-level calls for the parameters a white-box event deviated on: Mine with one worker on data of that length
    and that target (only where the search is short: at most 3^11 hashes expected)."""
    from fractions import Fraction
    import random
    rnd = random.Random(7)
    ins = []
    for e in wb[:4]:
        i = e["in"]
        if e["op"] == "pow.required":
            t = i["target"]
            tv = Fraction(sum(v << (12 * k) for k, v in enumerate(t["m"]))) * (Fraction(2) ** t["e"])
            if t.get("neg"):
                tv = -tv
            if tv * i["len"] <= 3 ** 11 and i["len"] >= 8:
                for _ in range(40):       # a boundary slip may show for a fraction of the messages only
                    ins.append(dict(op="pow.Mine", **{"in": dict(data=[rnd.randrange(256) for _ in range(i["len"] - 8)], target=t, workers=3)}))
        elif e["op"] == "pow2.params":
            lx = sum(v << (12 * k) for k, v in enumerate(i["lx"]))
            if lx <= 3 ** 11 and i["len"] >= 8:
                for _ in range(3):
                    ins.append(dict(op="pow2.Mine", **{"in": dict(data=[rnd.randrange(256) for _ in range(i["len"] - 8)], target=i["target"], workers=1)}))
                for _ in range(400):      # soundness only (several workers): a boundary slip may show for a fraction of the messages only
                    ins.append(dict(op="pow2.Mine", **{"in": dict(data=[rnd.randrange(256) for _ in range(i["len"] - 8)], target=i["target"], workers=4)}))
    return ins


def reachable(e):
    """parameters for which the exported API can confirm or refute a white-box deviation in a test (searches of at most 3^11 hashes)"""
    from fractions import Fraction
    i = e["in"]
    if e["op"] == "pow.required":
        t = i["target"]
        tv = Fraction(sum(v << (12 * k) for k, v in enumerate(t["m"]))) * (Fraction(2) ** t["e"])
        return bool(t.get("neg")) or tv * i["len"] <= 3 ** 11
    if e["op"] == "pow.check":
        return i["n"] <= 11
    if e["op"] in ("pow2.params", "pow2.check"):
        return sum(v << (12 * k) for k, v in enumerate(i["lx"])) <= 3 ** 11
    return True


def judge(ctx, bins, events, what):
    bad = vlib.validate_trace(ctx, "PowTrace", events, chunk=max(4, len(events) // (2 * vlib.NCPU)))
    for pk, binp in bins.items():
        sel = [b for b in bad if b["op"].startswith(pk + ".")]
        conf = vlib.reproduce_revalidate(ctx, binp, sel, "PowTrace")

        def escalate(wb, pk=pk, binp=binp):
            # directed Mine calls for the deviating parameters plus a larger general campaign, judged by the same trace spec
            d = ctx.rundir("escalate_" + pk)
            ev = []
            if pk == "pow2":     # move each deviating (length, target) to where the deviation shows most (white-box probe)
                pr = [dict(op="pow2.probe", **{"in": dict(len=e["in"]["len"], target=e["in"]["target"])}) for e in wb if e["op"] == "pow2.params"][:4]
                if pr:
                    vlib.write_ndjson(d + "/probe.ndjson", pr)
                    vlib.run_driver(ctx, binp, "replay", d + "/probe_out.ndjson", infile=d + "/probe.ndjson", timeout=600)
                    moved = []
                    for o in vlib.read_ndjson(d + "/probe_out.ndjson"):
                        t2 = o["out"].get("target_hi")
                        if t2:
                            ln = o["in"]["len"]
                            lx2 = sum(v << (12 * k) for k, v in enumerate(t2)) * ln
                            moved.append(dict(op="pow2.params", **{"in": dict(len=ln, target=t2, lx=[(lx2 >> (12 * k)) & 4095 for k in range((lx2.bit_length() + 11) // 12)])}))
                    wb = moved + list(wb)
            ins = [x for x in _directed(wb) if x["op"].startswith(pk + ".")]
            if ins:
                vlib.write_ndjson(d + "/in.ndjson", ins)
                vlib.run_driver(ctx, binp, "replay", d + "/o.ndjson", infile=d + "/in.ndjson", timeout=1500)
                ev += vlib.read_ndjson(d + "/o.ndjson")
            vlib.run_driver(ctx, binp, "record", d + "/t.ndjson", n=60, timeout=1500)
            ev += [x for x in vlib.read_ndjson(d + "/t.ndjson") if x["op"] not in WB_OPS]
            n0, t0 = ctx.events, ctx.traces
            rej = vlib.validate_trace(ctx, "PowTrace", ev, chunk=max(4, len(ev) // (2 * vlib.NCPU)), label="T_escalate")
            ctx.events, ctx.traces = n0, t0
            return vlib.reproduce_revalidate(ctx, binp, rej, "PowTrace")
        wb_all = [x for x in events if x["op"] in WB_OPS and x["op"].startswith(pk + ".")]
        for e in vlib.settle_whitebox(ctx, conf, WB_OPS, escalate, label=pk, wb_all=wb_all, reachable=reachable):
            ctx.bad.append(dict(event=slim(e), reason=what))


def replay(ctx, path, level, rule, which):
    data = json.load(open(path))
    bins = drivers(ctx, which)
    out = []
    for pk, binp in bins.items():
        sel = [v["event"] for v in data["violations"] if v["event"]["op"].startswith(pk + ".")]
        if sel:
            d = ctx.rundir("replay_" + pk)
            vlib.write_ndjson(d + "/in.ndjson", [dict(op=e["op"], **{"in": e["in"]}) for e in sel])
            vlib.run_driver(ctx, binp, "replay", d + "/o.ndjson", infile=d + "/in.ndjson")
            out += vlib.read_ndjson(d + "/o.ndjson")
    for e in vlib.validate_trace(ctx, "PowTrace", out, chunk=4):
        ctx.bad.append(dict(event=slim(e), reason="replayed"))
    return vlib.finish(ctx, level, rule, ASSUME, matchers=MATCHERS)
