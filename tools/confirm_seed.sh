#!/bin/bash
# usage: tools/confirm_seed.sh <worktree> <mutdir> <name>
# Confirms a seeded change independently: applies it in the scratch worktree, builds, runs the repository's suite
# (only the two network tests may fail), runs the demonstration with and without the change, then stores it under seeded/<name>.
export GOFLAGS=-mod=mod GOPROXY=off GOSUMDB=off GOTOOLCHAIN=local
WT="$1"; MD="$2"; NAME="$3"
cd "$WT" || exit 2
git checkout -q -- . ; 
PKG=$(python3 -c "import json;print(json.load(open('$MD/meta.json'))['demo_pkg'])")
FLAGS=$(python3 -c "import json;f=json.load(open('$MD/meta.json')).get('demo_flags','');print(' '.join(f) if isinstance(f,list) else f)")
RUNONLY=""
case "$FLAGS" in *-race*) RUNONLY="-run Demo|demo|C[0-9][0-9]" ;; esac   # the repository's own tests are not race-clean
git apply "$MD/patch.diff" || { echo "FAIL apply"; exit 1; }
go build ./... || { echo "FAIL build"; git checkout -q -- .; exit 1; }
SUITE=$(go test -vet=off -count=1 ./... 2>&1 | grep -E "^(FAIL[[:space:]]+[a-z]|--- FAIL|panic:|ok .*\(cached\))" | grep -v "TestEnglish\|TestJapanese\|internal/wordlists" )
if [ -n "$SUITE" ]; then echo "FAIL suite: $SUITE"; git checkout -q -- .; exit 1; fi
cp "$MD/demo_test.go" "$PKG/zz_demo_test.go"
go test -vet=off -count=1 -timeout 300s $FLAGS ${RUNONLY:+-run} ${RUNONLY:+"${RUNONLY#-run }"} "./$PKG" > /tmp/confirm_with.log 2>&1; WITH=$?
git checkout -q -- .
go test -vet=off -count=1 -timeout 300s $FLAGS ${RUNONLY:+-run} ${RUNONLY:+"${RUNONLY#-run }"} "./$PKG" > /tmp/confirm_without.log 2>&1; WITHOUT=$?
rm -f "$PKG/zz_demo_test.go"
if [ $WITH -eq 0 ] || [ $WITHOUT -ne 0 ]; then echo "FAIL demo: with=$WITH without=$WITHOUT"; tail -5 /tmp/confirm_without.log; exit 1; fi
D=/verif/seeded/$NAME; mkdir -p $D
cp "$MD/patch.diff" "$MD/demo_test.go" $D/
python3 - <<PY
import json
m=json.load(open("$MD/meta.json"))
m["confirmed"]={"suite_passes_with_change_except_network_tests":True,"demo_fails_with_change":True,"demo_passes_without_change":True,
 "ran":["git apply patch.diff","go build ./...","go test -vet=off -count=1 ./...","go test ./%s (with demo, with change) -> FAIL"%"$PKG","git checkout -- .","go test ./%s (with demo, without change) -> ok"%"$PKG"]}
json.dump(m,open("$D/meta.json","w"),indent=1)
PY
echo "CONFIRMED $NAME"
