#!/bin/bash
# usage: tools/lane.sh <n> <command...>   -- runs a command in lane n: a copy of /verif's working files under /tmp/lane<n>/verif and
# a detached worktree of /repo under /tmp/lane<n>/repo (VERIF_REPO points there), so that several seeded / benign campaigns can
# run side by side without touching /repo or /verif/out.  Results (seeded/*/meta.json, benign/*/result*.json) are copied back.
n=$1; shift
L=/tmp/lane$n
mkdir -p $L
if [ ! -d $L/repo ]; then git -C /repo worktree add --detach $L/repo HEAD >/dev/null 2>&1 || exit 2; fi
git -C $L/repo checkout -q --detach $(git -C /repo rev-parse HEAD) && git -C $L/repo checkout -q -- . && git -C $L/repo clean -fdq
rsync -a --delete --exclude out --exclude .git /verif/ $L/verif/
mkdir -p $L/verif/out
(cd $L/verif && VERIF_REPO=$L/repo "$@")
rc=$?
rsync -a --update $L/verif/benign/ /verif/benign/ 2>/dev/null
for m in $L/verif/seeded/*/meta.json; do d=$(basename $(dirname $m)); cp -u $m /verif/seeded/$d/meta.json; done
exit $rc
