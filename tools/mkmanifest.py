#!/usr/bin/env python3
"""Regenerates MANIFEST.json from the table below (single source of truth)."""
import json, os
V = os.path.dirname(os.path.dirname(os.path.abspath(__file__)))

CHECKS = {
 "C14": dict(cat="model_checking", ref="DESIGN.md section 5 C14",
   text="TLA+ module B1T defines both codecs; TLC checks them exhaustively at real size (all 256 bytes, all 729 b1t6 and 6561 b1t8 groups, all trit strings up to a bound: staged decoder = declarative definition, bijection onto 256 code words); TLC writes the complete tables, the real packages replay them, and TLC validates every recorded call (generated tables + seeded multi-group sequences). Complete for single groups, bounded/sampled for sequences.",
   note="Trusted: TLC/SANY/CommunityModules Json, Go toolchain, iota.go trinary helpers. Trits outside {-1,0,1} (documented undefined) are not generated.",
   tech="explicit TLA+ spec + TLC exhaustive model + TLC-generated vectors replayed + trace validation of recorded calls"),
}

NA_REASON = "check not built yet in this session (build order in DESIGN.md Appendix A); no claim made"

def main():
    props = [json.loads(l)["id"] for l in open(os.path.join(V, "properties.jsonl"))]
    checks = []
    for pid in props:
        if pid not in CHECKS:
            continue
        c = CHECKS[pid]
        checks.append(dict(
            property_id=pid,
            quick_cmd="bin/check %s --tier quick" % pid,
            thorough_cmd="bin/check %s --tier thorough" % pid,
            evidence_file="evidence/%s.json" % pid,
            replay_cmd_template="bin/check %s --replay {path}" % pid,
            engine="tlc",
            level_claimed=dict(category=c["cat"], text=c["text"], design_ref=c["ref"]),
            level_note=c["note"], technique=c["tech"]))
    hooks_commits = []
    hp = os.path.join(V, "hooks_commits.txt")
    if os.path.exists(hp):
        hooks_commits = [l.strip() for l in open(hp) if l.strip()]
    m = dict(
        version=1,
        setup_cmd="python3 tools/setup.py",
        hooks=dict(guard="verif", enable="go test -c -tags verif -overlay <drivers> (tools/vlib.py build_driver)",
                   baseline_off_cmd="cd /repo && GOFLAGS=-mod=mod GOPROXY=off GOSUMDB=off GOTOOLCHAIN=local go test -vet=off -count=1 -timeout 25m ./...",
                   source_commits=hooks_commits, add_only=True),
        engines=[dict(name="tlc", path="/opt/veriftools/tla/tla2tools.jar", serves_properties=[c["property_id"] for c in checks],
                      kind_free_text="TLC 1.8.0 explicit-state model checker on the TLA+ modules in spec/; trace validation and vector generation also run in TLC; Go in-package drivers (harness/) are compiled into /repo's working tree by build overlay")],
        checks=checks,
        notes="All checks: bin/check <id> [--tier quick|thorough] [--replay file]; VERIF_SEED honoured; exit 0 held, 1 VIOLATION, 2 infrastructure.",
        not_applicable=[dict(property_id=p, reason=NA_REASON) for p in props if p not in CHECKS],
    )
    json.dump(m, open(os.path.join(V, "MANIFEST.json"), "w"), indent=1)
    print("MANIFEST.json: %d checks, %d not_applicable" % (len(checks), len(m["not_applicable"])))

if __name__ == "__main__":
    main()
