#!/usr/bin/env python3
"""Regenerates MANIFEST.json from the table below (single source of truth)."""
import json, os
V = os.path.dirname(os.path.dirname(os.path.abspath(__file__)))

CHECKS = {
 "C18": dict(cat="model_checking", ref="DESIGN.md section 5 C18",
   text="TLA+ module Ecvrf models Prove/Verify/proof_to_hash over the abstract group Z_{8q}; TLC checks completeness, strictness (non-canonical or small-order keys, non-canonical or non-80-byte proofs) and torsion-free output on every state. At real size every Prove call is validated by TLC: the input of each hash is dictated by the specification, the try-and-increment counter must be the first successful one, and x, k, c, s are recomputed with certified reductions; the proof must equal an independent RFC 9381 transcription; Verify, ProofToHash and Proof.Hash agree and Hash() leaves the proof intact. Class-determined scenarios cover wrong key/alpha, s+L, all non-canonical/undecodable Gamma strings, Gamma+torsion, wrong lengths, bit flips over all 640 bits, and all small-order / non-canonical key encodings with CRAFTED proofs that satisfy the verification equation (so a rejection really tests key validation).",
   note="Trusted: TLC/SANY/CommunityModules, Go toolchain, SHA-512 facts, the driver's RFC 9381 transcription on edwards25519 primitives for point facts. Uniqueness of the output for adversarial proofs is a cryptographic property; it is covered only through the model's algebra (output = 8*Gamma) and the crafted/torsion scenarios.",
   tech="explicit TLA+ spec over an abstract group + TLC model + real-size trace validation with dictated hash inputs, BigNat certificates and class-determined verdicts"),
 "C01": dict(cat="model_checking", ref="DESIGN.md section 5 C01",
   text="TLA+ module Ed25519 models verification over the abstract cyclic group Z_{8q}; TLC checks on every (A string, R string, S, k, length) that the staged verifier of the code equals the ZIP-215 definition, is invariant under all torsion shifts and encoding classes, rejects S >= q and accepts everything the cofactorless verifier accepts. TLC generates the scenario table (checked to have class-determined verdicts); the driver concretises it on the real curve with known discrete logarithms, and TLC recomputes every verdict in the exponent (S < L, S = r + k*a mod L with certified reductions) - independently of the curve arithmetic under test - incl. every S+jL fitting 256 bits, S at the 2^252/L/2^253 boundaries (via small-order keys), single-bit flips and random bytes, and checks crypto/ed25519-accepted => accepted. Sequential calls go through buffers overwritten in place and a concurrent phase (8 goroutines, long messages) is judged by the same specification.",
   note="Trusted: TLC/SANY/CommunityModules, Go toolchain, SHA-512 as fact provider, filippo.io/edwards25519 for constructing test points and classifying undecodable strings. Bit-flipped R/A and random inputs are expected to be rejected on cryptographic grounds. Real-size inputs are class-complete but sampled.",
   tech="explicit TLA+ spec over an abstract group + exhaustive TLC model + TLC-generated scenario table concretised + exponent-level trace validation with BigNat certificates"),
 "C07": dict(cat="exploration", ref="DESIGN.md section 5 C07",
   text="Model-guided exploration: the RFC 8032 signing pipeline is specified in TLA+ over SHA-512 facts and TLC recomputes S = (r + k*s) mod L (certified reductions, clamping at byte level) for every recorded signature; private key, public key and signature are compared byte for byte with crypto/ed25519, plus determinism, Verify of the own signature and the crypto.Signer clauses. Message lengths sit on every SHA-512 block/padding boundary of both hashes; all keys pass through one reused key buffer so that history dependence shows.",
   note="Differential by nature (crypto/ed25519 is the named reference; R and A encodings are its outputs); SHA-512 values are facts. Sampling of seeds/messages, not exhaustive.",
   tech="explicit TLA+ spec of the signing pipeline + trace validation with hash facts and BigNat certificates + differential comparison"),
 "C02": dict(cat="model_checking", ref="DESIGN.md section 5 C02",
   text="TLA+ module Slip10 prescribes, for master and child derivation, which key and data every HMAC-SHA512 candidate must be computed over, the retry data, the curve's answer (ECDSA: parse256(I_L) >= n or zero key => invalid; ed25519: always valid) and which derivations are undefined. TLC model-checks the retry procedure over all answer scripts (first decided candidate wins, retry only after invalid-key, permanent error returned). All scripts are driven through the real slip10 code by a scripted toy Curve plug-in that logs every candidate it is asked about; real-curve derivations (seeds of any length, mixed hardened/normal paths, private and public parents) are validated by TLC from HMAC/point/hash160 facts with BigNat arithmetic, incl. fingerprints, serialised public keys and path composition.",
   note="Trusted: TLC/SANY/CommunityModules, Go toolchain; crypto/hmac, sha256, ripemd160 and the point(k) providers (crypto/elliptic, crypto/ed25519, driver's affine secp256k1 reference) supply facts whose arguments TLC dictates. Retry branches on real curves are unreachable (2^-128) and covered by the plug-in curve only. One known finding (ed25519 non-hardened derivation) is reported as KNOWN-FINDING.",
   tech="explicit TLA+ spec + TLC model of the retry procedure + scripted plug-in curve replay + trace validation with logged facts and BigNat"),
 "C17": dict(cat="model_checking", ref="DESIGN.md section 5 C17",
   text="TLA+ module ECGroup (affine group law, identity (0,0)); TLC checks the group axioms on every triple of points of toy curves y^2=x^3+7 of prime order. The production code is generic in CurveParams, so both copies of koblitzCurve are instantiated with the toy parameters and TLC's COMPLETE tables are replayed through them (all point pairs, all points, all scalars 0..2n+2 in several encodings, all coordinates for IsOnCurve). At real size every Add/Double result and ScalarBaseMult relation is verified by TLC through certificates (congruences with logged quotients checked by BigNat multiplication), incl. identity, P=Q, P=-Q, scalars 0, n, n+-1, 2^256-1 and leading zeros.",
   note="Trusted: TLC/SANY/CommunityModules, Go toolchain; the driver's math/big reference only produces certificates that TLC re-verifies. Real-size operands are sampled; exhaustiveness comes from the toy instantiation of the same code.",
   tech="explicit TLA+ spec + TLC exhaustive toy-curve model + complete tables replayed through the real generic code + certificate-checked real-size traces"),
 "C08": dict(cat="model_checking", ref="DESIGN.md section 5 C08",
   text="Same ECGroup specification: shifting the scalar and shifting the point commute (model-checked for every (k,d) on toy curves). The real PrivateKey.Shift and PublicKey.Shift run on a toy-instantiated secp256k1 implementation for the complete (k,d) table; at real size (secp256k1 and P-256) special shifts 0, k, n-k, n, n+j, 2^256-1 and random ones are judged by TLC with BigNat certificates, and both orders of DeriveChild are compared (key bytes, chain code, fingerprint).",
   note="Trusted: as C17. The toy instantiation goes through an overlay-only export shim in the internal btccurve package (not part of /repo).",
   tech="explicit TLA+ spec + TLC toy model + complete (k,d) tables replayed through the real Shift code + certificate-checked real-size traces"),
 "C13": dict(cat="model_checking", ref="DESIGN.md section 5 C13",
   text="TLA+ module PowMine models Mine of both PoW versions with one action per stretch of code between two hook points (main, watcher, NW workers, environment cancelling at any instant). TLC checks safety for NW<=3 (thorough 4) in modes always/never/either (a finder's send never blocks, nonce only if found, ErrCancelled only if cancelled, all workers joined at return, no stuck state) and liveness under weak fairness (cancelled ~> returned, found ~> returned, returned ~> no goroutine left); an undersized channel is shown to violate the model (vacuity control). TLC simulation behaviours are replayed as schedules on the real Mine through blocking hooks (build tag verif), free-running executions with 1..64 workers and cancellation before / during / at a find are recorded, and every execution is validated against PowMine by TLC, which infers the interleaving (one action of look-ahead per process) and checks the returned value, the goroutine count and the score of the returned nonce. An inductive invariant of PowMine (module PowMineInd) is discharged by Apalache per worker count. Module PowMineMulti puts several calls in flight: calls that share nothing keep every per-call clause, a stop flag shared between calls or a blocking process-wide semaphore violate them (controls); accordingly two concurrent Mine calls on one Worker, and calls on separate Workers with together more workers than processors (one cancelled, or one finding, while the other goes on), are checked at the outcome level. New(), New(0), New(-1) and other configured digest functions between calls are part of the recorded configurations. The repository's own tests of Mine are run with recording hooks and their executions validated by the same trace specification (the tests' own cancellation is an unlogged step placed by TLC). The free-running binary runs under the race detector.",
   note="Trusted: TLC/SANY/CommunityModules, Go toolchain and race detector (dynamic), sequentially consistent atomics and channel semantics as modelled, mutex-ordered hook events. The model is bounded (NW<=4); real executions are sampled schedules. A hang is observed positively (Mine not returned 10 s after it must) and confirmed by re-running.",
   tech="explicit TLA+ spec + TLC safety/liveness model checking (+ Apalache inductive invariant, multi-call model with flawed variants as controls) + TLC behaviours replayed as schedules through gate hooks + trace validation with inferred interleavings (driver runs and the repository's own tests) + race detector"),
 "C11": dict(cat="model_checking", ref="DESIGN.md section 5 C11",
   text="TLA+ module Pow: PowHash = Curl-P-81(b1t6(digest) ++ b1t6(nonce)) evaluated by TLC itself, Score = 3^z/len compared exactly with BigNat arithmetic. TLC model-checks the lane test on all lane states at a scaled hash length. Every Mine call (run in a child process so that a crash is an observation) on targets at, one ulp above/below 3^k/len, far below 1/len, mid-range, with 1..16 workers, is validated: TLC hashes the returned nonce, counts zeros, checks the logged Score is 3^z/len within one ulp and >= target exactly.",
   note="Trusted: TLC/SANY/CommunityModules, Go toolchain, BLAKE2b digest as a fact. Targets need at most 5 (thorough 8) zeros so that mining stays fast; data and targets are sampled.",
   tech="explicit TLA+ spec (Curl-P-81, b1t6, BigNat evaluated by TLC) + scaled TLC model + trace validation of Mine/Score/lane test"),
 "C12": dict(cat="model_checking", ref="DESIGN.md section 5 C12",
   text="TLA+ PowMC checks the three-stage lane test exhaustively at a scaled hash length (sound; complete for strictly qualifying lanes; s-1 zeros necessary). At real size TLC judges the real checkStateTrits on 64-lane planes built around every decision boundary (s-2/s-1/s zeros, hashes at targetHash-1/0/+1 at lane 0 and 63, products around 3^39, 3^40 and 2^64-1), the real sufficientTrailingZeros/targetHash and Score (division certificates verified by multiplication), and Mine: the returned nonce's hash is computed by TLC and must satisfy h*lx <= 3^243, and for single-worker runs no logged candidate of an earlier block may satisfy h*(lx+1) <= 3^243.",
   note="Trusted: TLC/SANY/CommunityModules, Go toolchain, BLAKE2b digest fact, iota.go single-lane Curl for the hashes of earlier nonces (one audited by TLC per event). Mine targets need at most 6 (thorough 8) zeros.",
   tech="explicit TLA+ spec with BigNat + scaled exhaustive TLC model of the lane test + trace validation with certificates"),
 "C06": dict(cat="model_checking", ref="DESIGN.md section 5 C06",
   text="TLA+ CurlMC: a bit-sliced mini sponge shaped like curl.go (rate reset for all lanes, `in` only clears bits, transform placement in Squeeze, Reset, Clone, rejected calls) is model-checked to refine independent per-lane sponges of module CurlP81 for all histories up to a depth over two instances. TLC -simulate behaviours of that model are replayed as histories on real Curl objects, and real Curl objects are driven through seeded histories (pooled block keys so equal histories meet at different lane positions, batch sizes 1..64, one-call vs split absorbs of the same histories, split squeezes, diverging clones, resets, rejected calls); the stateful trace specification keeps term -> output and rejects any term observed with two outputs, wrong error answers or touched state, and evaluates the Curl-P-81 sponge itself (729 trits, 81 rounds, in TLC) for audited lanes.",
   note="Trusted: TLC/SANY/CommunityModules, Go toolchain, collision freedom of the SHA-256 output fingerprints. The scaled model (hash length 1, 2-3 lanes, 2 rounds) carries the structural argument; real-size behaviour is bound by sampled histories and audited lanes.",
   tech="explicit TLA+ spec + TLC refinement model (bit-sliced vs per-lane) + stateful trace validation with TLC-evaluated Curl-P-81 anchors"),
 "C20": dict(cat="model_checking", ref="DESIGN.md section 5 C20",
   text="TLA+ CurlP81 defines the round function at trit and at bit-pair level; TLC checks their agreement on all cell pairs and the index walk. The real transform (assembly build and purego build) and transformGeneric are run on seeded bit-sliced states incl. non-trit cells, the reset state and degenerate planes, with every buffer placed against PROT_NONE guard pages; whole-state equality asm==portable is required and for audited lanes TLC evaluates 81 rounds of the definition on the 729 cells and compares. Program level: the checked-in transform_amd64.s is translated (tools/asm2tla.py) into a TLA+ instruction list and executed by the AsmMachine specification: an address run of the whole routine (650 113 instructions: every memory operand aligned and inside one of the four buffers, no data in addresses or flags, pointer roles and store counts per round, state at RET) and a symbolic run of one round body (every store equals the round function of its index by truth table over the two source cells; every index written once).",
   note="Trusted: TLC/SANY/CommunityModules, Go toolchain and assembler, the 100-line translator and the AsmMachine instruction semantics (an unknown instruction form skips that leg, recorded in the evidence), lane-locality of bitwise instructions for non-audited lanes. Bit-sliced states are sampled (2^(2*729*64) cannot be enumerated); the reduction to 4 values per cell pair is checked in the model and by the symbolic round.",
   tech="explicit TLA+ spec: AsmMachine executes the checked-in assembly (address run + symbolic round) in TLC; CurlP81 evaluated by TLC at real size on audited lanes; guard-page differential traces under both builds"),
 "C03": dict(cat="model_checking", ref="DESIGN.md section 5 C03",
   text="TLA+ module Bip39: a parameterised bit-level codec; TLC checks it exhaustively at a scaled size (all 1- and 2-byte entropies, all index sequences: round trip incl. leading/trailing zero bytes, accept <=> re-encodes to itself). At real size TLC-chosen boundary entropies are replayed and stateful traces (the SetWordList event logs the word dump = specification state; language switches interleaved) are validated by TLC, which recomputes sentence, acceptance, entropy and error kind from SHA-256 facts. Embedded word lists are pinned by digest and checked structurally by TLC.",
   note="Trusted: TLC/SANY/CommunityModules, Go toolchain, crypto/sha256 as fact provider (TLC rejects a fact that is not about the entropy the spec derives), pinned digests of the word lists (official files unavailable offline). Real-size entropies are sampled/boundary-generated, not exhaustive.",
   tech="explicit TLA+ spec + TLC exhaustive scaled model + generated boundary vectors + stateful trace validation with hash facts"),
 "C09": dict(cat="exploration", ref="DESIGN.md section 5 C09",
   text="Model-guided exploration: the specification prescribes password = words joined by one space and salt = 'mnemonic' + NFKD(passphrase), gated by mnemonic validity (same codec as C03), and Parse = Fields(NFKD(s)) with the white-space set spelled out; TLC model-checks the splitting definition on a toy alphabet and validates every recorded MnemonicToSeed / ParseMnemonic call using logged NFKD and PBKDF2 facts (PBKDF2 recomputed by the driver from crypto/hmac). Inputs cover composed/decomposed/compatibility passphrases, all Unicode white space, and the code points whose NFKD form contains white space.",
   note="Differential by nature: NFKD (x/text) and PBKDF2 (crypto/hmac loop in the driver) are fact providers TLC cannot evaluate; TLC audits NFKD on ASCII inputs only. Sampling, not exhaustive.",
   tech="explicit TLA+ spec + TLC toy model of the parser + stateful trace validation with NFKD/PBKDF2 facts"),
 "C19": dict(cat="model_checking", ref="DESIGN.md section 5 C19",
   text="TLA+ module Address = Bech32 specification + version/length table, migration form = b1t6 specification + BLAKE2b checksum fact. TLC model-checks parse/print/strictness on a scaled table; TLC-built Bech32 strings for the whole version x length matrix are replayed through ParseBech32; seeded traces incl. ALL 81x26 single-tryte substitutions of migration addresses are validated by TLC.",
   note="Trusted: TLC/SANY/CommunityModules, Go toolchain, x/crypto/blake2b as fact provider (the spec verifies each fact is about the address it derives itself). Real-size inputs sampled/generated, not exhaustive.",
   tech="explicit TLA+ spec (Bech32+B1T composition) + TLC model + generated strings replayed + trace validation with logged hash facts"),
 "C15": dict(cat="model_checking", ref="DESIGN.md section 5 C15",
   text="TLA+ module Merkle over a free term algebra: TLC checks for every n<=64 (thorough 160) that the recursive definition, the bottom-up construction and the root recomputed from every leaf's RFC 6962 audit path agree. The real Hasher is run over a recording crypto.Hash for every n<=130 (thorough 700) and random counts, and TLC rebuilds the term it computed and compares it with the definition; specification-chosen tree shapes are folded with SHA-256/BLAKE2b; marshal failures at every position/pair; split function at 2^k boundaries up to 2^30; counts up to 2^17 against the bottom-up construction.",
   note="Trusted: TLC/SANY/CommunityModules, Go toolchain and hash packages, the driver's recording hash and small fold helpers. Ideal (injective) hash assumed for term equality.",
   tech="explicit TLA+ spec + TLC model (three constructions agree) + recording-hash traces rebuilt as terms and validated by TLC"),
 "C10": dict(cat="model_checking", ref="DESIGN.md section 5 C10",
   text="TLA+ module Bip32Path gives the grammar declaratively and as a character automaton; TLC explores every string up to length 5 (thorough 6) over the class alphabet (automaton = grammar, accepted strings print back) and boundary paths; all strings up to length 4-5 plus numeric boundary strings generated by TLC are replayed through ParsePath/UnmarshalText, and seeded random paths/strings are validated by TLC call by call.",
   note="Trusted: TLC/SANY/CommunityModules, Go toolchain. Exhaustive for short strings over the class alphabet, sampled beyond.",
   tech="explicit TLA+ spec + TLC exhaustive string model + TLC-generated strings replayed + trace validation"),
 "C04": dict(cat="model_checking", ref="DESIGN.md section 5 C04",
   text="TLA+ module Bech32 defines BIP-173 validity declaratively and as the staged decoder; TLC checks their equality, unique spelling and re-encoding on the exhaustive one-edit closure of all checksum-correct short strings; TLC generates strings for every symbol count/padding pattern/boundary, the real Decode replays them, and TLC (evaluating the real polymod and regrouping) validates every recorded Decode call incl. Unicode case-mapping inputs, offsets and panics. Exhaustive on the bounded model, sampled at real size.",
   note="Trusted: TLC/SANY/CommunityModules, Go toolchain. The edit-closure model is bounded (HRP <= 2 chars, <= 2-3 symbols); real-size behaviour is bound by generated and seeded traces.",
   tech="explicit TLA+ spec + TLC exhaustive edit-closure model + TLC-generated strings replayed + trace validation"),
 "C05": dict(cat="model_checking", ref="DESIGN.md section 5 C05",
   text="Same Bech32 specification: Encode defined in TLA+, round trip and unique spelling model-checked on the bounded model; TLC-chosen (hrp,data) for every data length and both sides of the 90-character limit are replayed and every recorded Encode call plus the real Decode of its output is validated by TLC.",
   note="Trusted: TLC/SANY/CommunityModules, Go toolchain. Real-size inputs are generated/sampled, not exhaustive.",
   tech="explicit TLA+ spec + TLC model + generated vectors + trace validation of Encode and the real round trip"),
 "C16": dict(cat="model_checking", ref="DESIGN.md section 5 C16",
   text="Complete design-level proof by TLC state counting: every error pattern of weight <=2 in the 89-symbol window is a state whose VIEW is its syndrome, and the distinct-state count equals the pattern count (3 766 036), hence no substitution error of weight 1..4 is undetected for the specification's generator constants. Bound to the code by trace validation: real polymod on all unit vectors and random vectors equals the specification's; real Decode rejects all weight-1, many weight-2 and sampled weight-3/4 substitutions (incl. same-kind HRP substitutions).",
   note="Trusted: TLC fingerprinting (collision probability ~1e-7 reported by TLC), the meet-in-the-middle argument in BchDistance.tla, Go toolchain. The equality of the real polymod with the specification's is established on unit vectors (linear basis) and samples.",
   tech="TLA+ BchDistance: syndrome distinctness by TLC distinct-state count (complete) + trace validation of polymod and Decode"),
 "C14": dict(cat="model_checking", ref="DESIGN.md section 5 C14",
   text="TLA+ module B1T defines both codecs; TLC checks them exhaustively at real size (all 256 bytes, all 729 b1t6 and 6561 b1t8 groups, all trit strings up to a bound: staged decoder = declarative definition, bijection onto 256 code words); TLC writes the complete tables, the real packages replay them, and TLC validates every recorded call (generated tables + seeded multi-group sequences). Complete for single groups, bounded/sampled for sequences.",
   note="Trusted: TLC/SANY/CommunityModules Json, Go toolchain, iota.go trinary helpers. Trits outside {-1,0,1} (documented undefined) are not generated.",
   tech="explicit TLA+ spec + TLC exhaustive model + TLC-generated vectors replayed + trace validation of recorded calls"),
}

NA_REASON = "not claimed"

# sentences appended to the descriptions (machinery shared by several checks)
HIST = (" Caller histories: module CallHistory models a caller that reuses its input buffer and overwrites or keeps results, with an honest and three "
        "flawed implementations (TLC: honest correct, each flaw exposed within three calls); all histories of three calls over three inputs x {own, keep} "
        "written by TLC (CallHistoryGen) are replayed on the real functions and every call is judged by the same trace specification. The drivers keep "
        "the caller's buffer discipline for all other events too (reused input buffers with canaries, results overwritten or kept over their whole capacity, repeated calls). "
        "Failure histories: module CallFailure models working memory taken from a pool by a staged call and by its nested helper, with an honest implementation and two "
        "flawed ones (scratch given back dirty, or twice, on an error return; TLC: exposed only by the rejection of the right stage followed by a valid call); the histories "
        "written by TLC (CallFailureGen) are instantiated with one recorded rejected input per kind of rejection seen and replayed on the real functions.")
CONC = " Concurrent phases (several goroutines, child processes for first use) are compared with the sequential answers and judged by the trace specification."
WB = (" Events that call unexported functions or instantiate unexported types only search: a rejection there counts together with a rejection at the "
      "exported API, after a directed API-level campaign on the deviating parameters, or - beyond the reach of the API - when the same function conforms on "
      "all reachable white-box events (vlib.settle_whitebox); otherwise the leg is listed under skipped_legs.")
EXTRA = {"C03": HIST + CONC, "C04": HIST + CONC + WB, "C05": HIST + CONC + WB, "C09": HIST + CONC, "C10": HIST + CONC, "C14": HIST + CONC, "C15": HIST + WB, "C19": HIST + CONC,
         "C16": HIST + CONC + WB, "C11": CONC + WB, "C12": CONC + WB, "C17": HIST + CONC + WB, "C08": HIST + CONC + WB, "C06": CONC, "C18": HIST + CONC, "C01": HIST + CONC, "C07": HIST + CONC, "C02": HIST, "C20": WB}


def main():
    props = [json.loads(l)["id"] for l in open(os.path.join(V, "properties.jsonl"))]
    checks = []
    for pid in props:
        if pid not in CHECKS:
            continue
        c = CHECKS[pid]
        checks.append(dict(
            property_id=pid,
            quick_cmd="bin/check %s --tier quick" % pid,
            thorough_cmd="bin/check %s --tier thorough" % pid,
            evidence_file="evidence/%s.json" % pid,
            replay_cmd_template="bin/check %s --replay {path}" % pid,
            engine="tlc",
            level_claimed=dict(category=c["cat"], text=c["text"] + EXTRA.get(pid, ""), design_ref=c["ref"]),
            level_note=c["note"], technique=c["tech"]))
    hooks_commits = []
    hp = os.path.join(V, "hooks_commits.txt")
    if os.path.exists(hp):
        hooks_commits = [l.strip() for l in open(hp) if l.strip()]
    m = dict(
        version=1,
        setup_cmd="python3 tools/setup.py",
        hooks=dict(guard="verif", enable="go test -c -tags verif -overlay <drivers> (tools/vlib.py build_driver)",
                   baseline_off_cmd="cd /repo && GOFLAGS=-mod=mod GOPROXY=off GOSUMDB=off GOTOOLCHAIN=local go test -vet=off -count=1 -timeout 25m ./...",
                   source_commits=hooks_commits, add_only=True),
        engines=[dict(name="tlc", path="/opt/veriftools/tla/tla2tools.jar", serves_properties=[c["property_id"] for c in checks],
                      kind_free_text="TLC 1.8.0 explicit-state model checker on the TLA+ modules in spec/; trace validation and vector generation also run in TLC; Go in-package drivers (harness/) are compiled into /repo's working tree by build overlay")],
        checks=checks,
        notes="All checks: bin/check <id> [--tier quick|thorough] [--replay file]; VERIF_SEED honoured; exit 0 held, 1 VIOLATION, 2 infrastructure.",
        not_applicable=[dict(property_id=p, reason=NA_REASON) for p in props if p not in CHECKS],
    )
    json.dump(m, open(os.path.join(V, "MANIFEST.json"), "w"), indent=1)
    print("MANIFEST.json: %d checks, %d not_applicable" % (len(checks), len(m["not_applicable"])))

if __name__ == "__main__":
    main()
