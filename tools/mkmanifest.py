#!/usr/bin/env python3
"""Regenerates MANIFEST.json from the table below (single source of truth)."""
import json, os
V = os.path.dirname(os.path.dirname(os.path.abspath(__file__)))

CHECKS = {
 "C04": dict(cat="model_checking", ref="DESIGN.md section 5 C04",
   text="TLA+ module Bech32 defines BIP-173 validity declaratively and as the staged decoder; TLC checks their equality, unique spelling and re-encoding on the exhaustive one-edit closure of all checksum-correct short strings; TLC generates strings for every symbol count/padding pattern/boundary, the real Decode replays them, and TLC (evaluating the real polymod and regrouping) validates every recorded Decode call incl. Unicode case-mapping inputs, offsets and panics. Exhaustive on the bounded model, sampled at real size.",
   note="Trusted: TLC/SANY/CommunityModules, Go toolchain. The edit-closure model is bounded (HRP <= 2 chars, <= 2-3 symbols); real-size behaviour is bound by generated and seeded traces.",
   tech="explicit TLA+ spec + TLC exhaustive edit-closure model + TLC-generated strings replayed + trace validation"),
 "C05": dict(cat="model_checking", ref="DESIGN.md section 5 C05",
   text="Same Bech32 specification: Encode defined in TLA+, round trip and unique spelling model-checked on the bounded model; TLC-chosen (hrp,data) for every data length and both sides of the 90-character limit are replayed and every recorded Encode call plus the real Decode of its output is validated by TLC.",
   note="Trusted: TLC/SANY/CommunityModules, Go toolchain. Real-size inputs are generated/sampled, not exhaustive.",
   tech="explicit TLA+ spec + TLC model + generated vectors + trace validation of Encode and the real round trip"),
 "C16": dict(cat="model_checking", ref="DESIGN.md section 5 C16",
   text="Complete design-level proof by TLC state counting: every error pattern of weight <=2 in the 89-symbol window is a state whose VIEW is its syndrome, and the distinct-state count equals the pattern count (3 766 036), hence no substitution error of weight 1..4 is undetected for the specification's generator constants. Bound to the code by trace validation: real polymod on all unit vectors and random vectors equals the specification's; real Decode rejects all weight-1, many weight-2 and sampled weight-3/4 substitutions (incl. same-kind HRP substitutions).",
   note="Trusted: TLC fingerprinting (collision probability ~1e-7 reported by TLC), the meet-in-the-middle argument in BchDistance.tla, Go toolchain. The equality of the real polymod with the specification's is established on unit vectors (linear basis) and samples.",
   tech="TLA+ BchDistance: syndrome distinctness by TLC distinct-state count (complete) + trace validation of polymod and Decode"),
 "C14": dict(cat="model_checking", ref="DESIGN.md section 5 C14",
   text="TLA+ module B1T defines both codecs; TLC checks them exhaustively at real size (all 256 bytes, all 729 b1t6 and 6561 b1t8 groups, all trit strings up to a bound: staged decoder = declarative definition, bijection onto 256 code words); TLC writes the complete tables, the real packages replay them, and TLC validates every recorded call (generated tables + seeded multi-group sequences). Complete for single groups, bounded/sampled for sequences.",
   note="Trusted: TLC/SANY/CommunityModules Json, Go toolchain, iota.go trinary helpers. Trits outside {-1,0,1} (documented undefined) are not generated.",
   tech="explicit TLA+ spec + TLC exhaustive model + TLC-generated vectors replayed + trace validation of recorded calls"),
}

NA_REASON = "check not built yet in this session (build order in DESIGN.md Appendix A); no claim made"

def main():
    props = [json.loads(l)["id"] for l in open(os.path.join(V, "properties.jsonl"))]
    checks = []
    for pid in props:
        if pid not in CHECKS:
            continue
        c = CHECKS[pid]
        checks.append(dict(
            property_id=pid,
            quick_cmd="bin/check %s --tier quick" % pid,
            thorough_cmd="bin/check %s --tier thorough" % pid,
            evidence_file="evidence/%s.json" % pid,
            replay_cmd_template="bin/check %s --replay {path}" % pid,
            engine="tlc",
            level_claimed=dict(category=c["cat"], text=c["text"], design_ref=c["ref"]),
            level_note=c["note"], technique=c["tech"]))
    hooks_commits = []
    hp = os.path.join(V, "hooks_commits.txt")
    if os.path.exists(hp):
        hooks_commits = [l.strip() for l in open(hp) if l.strip()]
    m = dict(
        version=1,
        setup_cmd="python3 tools/setup.py",
        hooks=dict(guard="verif", enable="go test -c -tags verif -overlay <drivers> (tools/vlib.py build_driver)",
                   baseline_off_cmd="cd /repo && GOFLAGS=-mod=mod GOPROXY=off GOSUMDB=off GOTOOLCHAIN=local go test -vet=off -count=1 -timeout 25m ./...",
                   source_commits=hooks_commits, add_only=True),
        engines=[dict(name="tlc", path="/opt/veriftools/tla/tla2tools.jar", serves_properties=[c["property_id"] for c in checks],
                      kind_free_text="TLC 1.8.0 explicit-state model checker on the TLA+ modules in spec/; trace validation and vector generation also run in TLC; Go in-package drivers (harness/) are compiled into /repo's working tree by build overlay")],
        checks=checks,
        notes="All checks: bin/check <id> [--tier quick|thorough] [--replay file]; VERIF_SEED honoured; exit 0 held, 1 VIOLATION, 2 infrastructure.",
        not_applicable=[dict(property_id=p, reason=NA_REASON) for p in props if p not in CHECKS],
    )
    json.dump(m, open(os.path.join(V, "MANIFEST.json"), "w"), indent=1)
    print("MANIFEST.json: %d checks, %d not_applicable" % (len(checks), len(m["not_applicable"])))

if __name__ == "__main__":
    main()
