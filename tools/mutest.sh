#!/bin/sh
# usage: tools/mutest.sh <patch.diff> <property id>...   -- applies a seeded change to /repo, runs the quick checks, reverts
P="$1"; shift
cd /repo || exit 2
if ! git apply --check "$P" 2>/dev/null; then echo "PATCH DOES NOT APPLY: $P"; exit 3; fi
git apply "$P"
for id in "$@"; do
  (cd /verif && bin/check "$id" --tier ${TIER:-quick} > /verif/out/mutest_$id.log 2>&1; echo "$id rc=$? $(grep -c '^VIOLATION' /verif/out/mutest_$id.log) violation-lines; $(grep -m1 'rejected:' /verif/out/mutest_$id.log | cut -c1-300)")
done
git -C /repo checkout -- . 
git -C /repo status --short | grep -v asm/asm
