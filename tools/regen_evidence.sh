#!/bin/bash
# Re-runs every registered quick check on the clean tree so that evidence/*.json describes the unchanged tree.
cd "$(dirname "$0")/.."
if [ -n "$(git -C /repo status --porcelain --untracked-files=no)" ]; then echo "/repo has local changes"; exit 1; fi
fail=0
for id in C01 C02 C03 C04 C05 C06 C07 C08 C09 C10 C11 C12 C13 C14 C15 C16 C17 C18 C19 C20; do
  out=$(VERIF_SEED=${VERIF_SEED:-1} bin/check $id --tier quick 2>&1); rc=$?
  echo "$id rc=$rc $(echo "$out" | grep -E 'done rc' | sed 's/.*done //')"; echo "$out" | grep -E "^VIOLATION|^KNOWN-FINDING|INFRA" | cut -c1-200
  [ $rc -ne 0 ] && fail=1
done
exit $fail
