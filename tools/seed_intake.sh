#!/bin/bash
# usage: tools/seed_intake.sh <Cxx> [extra check ids...]  -- takes the round-2 changes of /tmp/mut2/<Cxx>/.mutout/m*,
# confirms each independently, stores it as seeded/<Cxx>-r2m<i> and runs the property's quick check against it.
PID=$1; shift
for md in /tmp/mut2/$PID/.mutout/m*; do
  [ -f "$md/patch.diff" ] || continue
  i=$(basename $md)
  name=$PID-r2$i
  out=$(tools/confirm_seed.sh /tmp/mut2/$PID $md $name 2>&1 | tail -1)
  echo "$name: $out"
  case "$out" in CONFIRMED*) tools/mutest.sh /verif/seeded/$name/patch.diff $PID "$@" ;; esac
done
