#!/bin/bash
# usage: tools/seed_intake3.sh <Cxx>...  -- takes the round-3 changes of /tmp/mut3/out/<Cxx>/m*, confirms each independently in
# the scratch worktree /tmp/mut3/<Cxx> and stores it as seeded/<Cxx>-r3m<i> (the checks are run separately: tools/seedrun.py).
for PID in "$@"; do
for md in /tmp/mut3/out/$PID/m*; do
  [ -f "$md/patch.diff" ] || continue
  i=$(basename $md)
  name=$PID-r3$i
  [ -d /verif/seeded/$name ] && { echo "$name: already stored"; continue; }
  out=$(tools/confirm_seed.sh /tmp/mut3/$PID $md $name 2>&1 | tail -1)
  echo "$name: $out"
done
done
