#!/bin/bash
# usage: tools/seed_intake4.sh <Cxx>...  -- round-4 changes of /tmp/mut4/out/<Cxx>/m* confirmed in /tmp/mut4/<Cxx>, stored as seeded/<Cxx>-r4m<i>
for PID in "$@"; do
for md in /tmp/mut4/out/$PID/m*; do
  [ -f "$md/patch.diff" ] || continue
  i=$(basename $md)
  name=$PID-r4$i
  [ -d /verif/seeded/$name ] && { echo "$name: already stored"; continue; }
  out=$(tools/confirm_seed.sh /tmp/mut4/$PID $md $name 2>&1 | tail -1)
  echo "$name: $out"
done
done
