#!/bin/bash
# usage: tools/seed_intake5.sh <Cxx>...  -- round-5 changes of /tmp/mut5/out/<Cxx>/m* confirmed in /tmp/mut5/<Cxx>, stored as seeded/<Cxx>-r4m<i>
for PID in "$@"; do
for md in /tmp/mut5/out/$PID/m*; do
  [ -f "$md/patch.diff" ] || continue
  i=$(basename $md)
  name=$PID-r5$i
  [ -d /verif/seeded/$name ] && { echo "$name: already stored"; continue; }
  out=$(tools/confirm_seed.sh /tmp/mut5/$PID $md $name 2>&1 | tail -1)
  echo "$name: $out"
done
done
