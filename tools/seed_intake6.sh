#!/bin/bash
# usage: tools/seed_intake6.sh <Cxx>...  -- round-6 changes of /tmp/mut6/out/<Cxx>/m* confirmed in /tmp/mut6/<Cxx>, stored as seeded/<Cxx>-r6m<i>
for PID in "$@"; do
for md in /tmp/mut6/out/$PID/m*; do
  [ -f "$md/patch.diff" ] || continue
  i=$(basename $md)
  name=$PID-r6$i
  [ -d /verif/seeded/$name ] && { echo "$name: already stored"; continue; }
  out=$(tools/confirm_seed.sh /tmp/mut6/$PID $md $name 2>&1 | tail -1)
  echo "$name: $out"
done
done
