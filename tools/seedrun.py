#!/usr/bin/env python3
"""Runs every seeded change in seeded/ against the quick check of the property it breaks (and optional extra checks),
records the outcome in seeded/<name>/meta.json and writes seeded/RESULTS.md.
usage: tools/seedrun.py [name ...]      (applies each patch to /repo, runs, reverts; nothing is committed to /repo)"""
import json, os, subprocess, sys, glob, re, time
V = os.path.dirname(os.path.dirname(os.path.abspath(__file__)))
REPO = os.environ.get("VERIF_REPO", "/repo")   # a lane: its own copy of /verif and its own worktree of /repo


def sh(cmd, **kw):
    return subprocess.run(cmd, shell=True, capture_output=True, text=True, **kw)


def main():
    names = sys.argv[1:] or sorted(os.path.basename(d) for d in glob.glob(os.path.join(V, "seeded", "C*")))
    assert sh("git -C %s status --porcelain --untracked-files=no" % REPO).stdout.strip() == "", "/repo has local changes"
    rows = []
    for name in names:
        d = os.path.join(V, "seeded", name)
        meta = json.load(open(os.path.join(d, "meta.json")))
        pid = meta["property"]
        patch = os.path.join(d, "patch.diff")
        if sh("git -C %s apply --check %s" % (REPO, patch)).returncode != 0:
            meta["detection"] = dict(status="patch does not apply to the current tree")
            rows.append((name, pid, "n/a (patch does not apply)", ""))
            json.dump(meta, open(os.path.join(d, "meta.json"), "w"), indent=1)
            continue
        sh("git -C %s apply %s" % (REPO, patch))
        try:
            t0 = time.time()
            try:
                r = sh("cd %s && VERIF_SEED=%s bin/check %s --tier quick" % (V, os.environ.get("VERIF_SEED", "1"), pid), timeout=1500)
            except subprocess.TimeoutExpired:
                sh("pkill -f 'out/%s/quick/bin'" % pid)
                meta["detection"] = dict(check="bin/check %s --tier quick" % pid, detected=False, status="check timed out")
                rows.append((name, pid, "missed (timeout)", ""))
                continue
            open(os.path.join(V, "out", "seed_%s.log" % name), "w").write(r.stdout + r.stderr)
            viol = [l for l in r.stdout.splitlines() if l.startswith("VIOLATION")]
            first = next((l for l in r.stdout.splitlines() if "rejected:" in l), "")
            m = re.search(r'"op": "([\w.]+)"', first)
            meta["detection"] = dict(check="bin/check %s --tier quick" % pid, exit_code=r.returncode, violation_line=bool(viol),
                                     detected=(r.returncode == 1 and bool(viol)), first_rejected_op=(m.group(1) if m else None),
                                     first_rejected=first[:600], wall_s=round(time.time() - t0, 1))
            rows.append((name, pid, "DETECTED" if meta["detection"]["detected"] else "missed (rc=%d)" % r.returncode, m.group(1) if m else ""))
        finally:
            sh("git -C %s checkout -- ." % REPO)
        json.dump(meta, open(os.path.join(d, "meta.json"), "w"), indent=1)
        print(rows[-1], flush=True)
    with open(os.path.join(V, "seeded", "RESULTS.md"), "w") as f:     # aggregate over ALL seeded changes (from their meta.json)
        f.write("# Seeded changes vs. checks (quick tier)\n\n| seeded change | property | outcome | first rejected op | what was changed |\n|---|---|---|---|---|\n")
        for d in sorted(glob.glob(os.path.join(V, "seeded", "C*"))):
            meta = json.load(open(os.path.join(d, "meta.json")))
            det = meta.get("detection", {})
            res = "DETECTED" if det.get("detected") else ("not run" if not det else "missed (%s)" % (det.get("status") or "rc=%s" % det.get("exit_code")))
            f.write("| %s | %s | %s | %s | %s |\n" % (os.path.basename(d), meta.get("property"), res, det.get("first_rejected_op") or "",
                                                 meta.get("summary", "").replace("|", "/")[:300]))
    print("written seeded/RESULTS.md")


if __name__ == "__main__":
    main()
