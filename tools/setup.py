#!/usr/bin/env python3
"""setup_cmd: nothing is prebuilt (every check rebuilds its drivers from /repo's
working tree); this only verifies that the tools the checks need are present."""
import shutil, subprocess, sys, os
ok = True
for t in ("java", "go", "python3"):
    if not shutil.which(t):
        print("missing tool:", t); ok = False
for p in ("/opt/veriftools/tla/tla2tools.jar", "/opt/veriftools/tla/CommunityModules-deps.jar"):
    if not os.path.exists(p):
        print("missing:", p); ok = False
os.makedirs(os.path.join(os.path.dirname(os.path.dirname(os.path.abspath(__file__))), "out"), exist_ok=True)
sys.exit(0 if ok else 1)
