#!/bin/bash
# usage: tools/try_seed.sh <seeded-name> [property]  -- applies seeded/<name>/patch.diff to /repo, runs the quick check, reverts
n=$1; p=${2:-$(python3 -c "import json;print(json.load(open('/verif/seeded/$n/meta.json'))['property'])")}
git -C /repo apply /verif/seeded/$n/patch.diff || exit 2
VERIF_SEED=${VERIF_SEED:-1} /verif/bin/check $p --tier quick > /verif/out/try_$n.log 2>&1; rc=$?
git -C /repo checkout -- . ; git -C /repo clean -fdq -e pkg/curl/asm/asm
echo "$n $p rc=$rc $(grep -c '^VIOLATION' /verif/out/try_$n.log) $(grep -m1 'rejected:' /verif/out/try_$n.log | cut -c1-300)"
