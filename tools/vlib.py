"""Shared machinery of the /verif checks: building in-package drivers from
/repo's working tree, running TLC, validating traces, findings, evidence.

Exit codes used by the checks: 0 held / 1 reproduced violation / 2 infrastructure.
"""
import json, os, re, shutil, subprocess, sys, time, glob, hashlib

VERIF = os.path.dirname(os.path.dirname(os.path.abspath(__file__)))
REPO = os.environ.get("VERIF_REPO", "/repo")
SPEC = os.path.join(VERIF, "spec")
HARNESS = os.path.join(VERIF, "harness")
TLA_CP = "/opt/veriftools/tla/tla2tools.jar:/opt/veriftools/tla/CommunityModules-deps.jar"
MODULE = "github.com/wollac/iota-crypto-demo"
NCPU = os.cpu_count() or 4


class Infra(Exception):
    """Infrastructure problem: never a violation (exit 2)."""


def goenv():
    e = dict(os.environ)
    e.update(GOFLAGS="-mod=mod", GOPROXY="off", GOSUMDB="off", GOTOOLCHAIN="local")
    e.pop("VERIF_OUT", None)
    return e


class Ctx:
    def __init__(self, pid, tier, seed):
        self.pid, self.tier, self.seed = pid, tier, seed
        self.t0 = time.time()
        self.out = os.path.join(VERIF, "out", pid, tier)
        shutil.rmtree(self.out, ignore_errors=True)
        os.makedirs(self.out, exist_ok=True)
        self.states = 0          # distinct states over all TLC runs (model + trace specs)
        self.transitions = 0     # states generated over all TLC runs
        self.model_states = 0
        self.traces = 0          # traces (driver runs / concatenated histories) validated
        self.events = 0          # events judged by TLC
        self.samples = []
        self.notes = []
        self.legs = {}
        self.bad = []            # list of dict(event=..., reason=...)
        self.distinct = set()
        self.runno = 0
        self.skipped = []
        self.exhaustive = False

    def quick(self):
        return self.tier == "quick"

    def log(self, *a):
        print("[%s %6.1fs]" % (self.pid, time.time() - self.t0), *a, flush=True)

    def rundir(self, name):
        self.runno += 1
        d = os.path.join(self.out, "%02d_%s" % (self.runno, name))
        os.makedirs(d, exist_ok=True)
        return d


# ----------------------------------------------------------------------------
# Go drivers

_KEEP = re.compile(r"^(Test\w*|init|main|M|v[A-Z]\w*)$")


def _driver_names(txt):
    names = set()
    for m in re.finditer(r"^func\s+(\w+)\s*\(", txt, re.M):
        names.add(m.group(1))
    for m in re.finditer(r"^(?:var|type|const)\s+(\w+)", txt, re.M):
        names.add(m.group(1))
    for blk in re.finditer(r"^(?:var|const)\s*\(\n(.*?)^\)", txt, re.M | re.S):
        for m in re.finditer(r"^\t(\w+)(?:,\s*(\w+))*\s", blk.group(1), re.M):
            for n in re.findall(r"\w+", m.group(0).split("=")[0].split(" ")[0] if False else m.group(0)):
                pass
        for line in blk.group(1).splitlines():
            mm = re.match(r"^\t([\w, ]+?)\s*(?:=|\s[\w\[\]\*\.]+\s*(?:=|$))", line)
            if mm:
                for n in re.split(r"\s*,\s*", mm.group(1).strip()):
                    if re.fullmatch(r"\w+", n):
                        names.add(n)
    return {n for n in names if not _KEEP.match(n) and n != "_"}


def _prefix_driver_names(txt, names):
    if not names:
        return txt
    pat = re.compile(r"(?<![\w.\"])(%s)\b" % "|".join(sorted(names, key=len, reverse=True)))

    def fix_line(line):
        # leave string literals alone (split on double quotes; the drivers do not use these names inside raw strings)
        parts = line.split('"')
        for i in range(0, len(parts), 2):
            parts[i] = pat.sub(lambda m: "vd_" + m.group(1), parts[i])
        return '"'.join(parts)
    return "\n".join(fix_line(l) for l in txt.split("\n"))


def build_driver(ctx, pkg, sources, tags=("verif",), race=False, name=None, helper=True, extra=None, optional=None, optional_extra=None):
    """`optional`: white-box driver sources (need unexported identifiers).  If the build with them fails, the driver is
    built from `sources` alone and the white-box legs are reported as skipped."""
    if optional is None:
        # convention: harness/<d>/wb_test.go next to harness/<d>/driver_test.go is the white-box part
        optional = []
        for src in sources:
            wb = os.path.join(os.path.dirname(src), "wb_test.go")
            if os.path.basename(src) == "driver_test.go" and os.path.exists(os.path.join(VERIF, "harness", wb)):
                optional.append(wb)
    if optional:
        try:
            ex = dict(extra or {})
            ex.update(optional_extra or {})
            return _build_driver(ctx, pkg, list(sources) + list(optional), tags, race, name, helper, ex)
        except Infra as e:
            ctx.skipped.append("white-box driver part of %s does not build against the working tree (skipped): %s"
                               % (pkg, str(e).splitlines()[2][:200] if len(str(e).splitlines()) > 2 else str(e)[:200]))
            ctx.log("white-box part of %s skipped (does not build)" % pkg)
    return _build_driver(ctx, pkg, sources, tags, race, name, helper, extra)


def _build_driver(ctx, pkg, sources, tags=("verif",), race=False, name=None, helper=True, extra=None):
    """Compile the in-package driver(s) `sources` (paths under harness/) into a
    test binary of /repo/<pkg> using a build overlay: /repo is not touched."""
    name = name or pkg.replace("/", "_")
    d = os.path.join(ctx.out, "bin")
    os.makedirs(d, exist_ok=True)
    replace = {}
    pkgname = None
    allnames = set()
    for src in sources:
        allnames |= _driver_names(open(os.path.join(HARNESS, src)).read())
    for src in sources:
        sp = os.path.join(HARNESS, src)
        txt = open(sp).read()
        m = re.search(r"^package\s+(\w+)", txt, re.M)
        pkgname = m.group(1)
        # in-package drivers share the package's name space: give every top-level identifier the driver declares a
        # prefix that no repository code uses, so that a new identifier in the package cannot collide with the driver
        gp = os.path.join(d, name + "_" + os.path.basename(src))
        open(gp, "w").write(_prefix_driver_names(txt, allnames))
        replace[os.path.join(REPO, pkg, "zz_verif_" + os.path.basename(src))] = gp
    if helper:
        h = open(os.path.join(HARNESS, "common", "vhelp.go.txt")).read().replace("package PKG", "package " + pkgname)
        hp = os.path.join(d, name + "_vhelp_test.go")
        open(hp, "w").write(h)
        replace[os.path.join(REPO, pkg, "zz_verif_vhelp_test.go")] = hp
    for dest, src in (extra or {}).items():      # additional overlay files (e.g. an export shim inside an internal package)
        replace[os.path.join(REPO, dest)] = os.path.join(HARNESS, src)
    ov = os.path.join(d, name + "_overlay.json")
    json.dump({"Replace": replace}, open(ov, "w"))
    binp = os.path.join(d, name + ".test")
    cmd = ["go", "test", "-c", "-mod=readonly", "-vet=off", "-tags", ",".join(tags), "-overlay", ov, "-o", binp]
    if race:
        cmd.append("-race")
    cmd.append("./" + pkg)
    r = subprocess.run(cmd, cwd=REPO, env=goenv(), capture_output=True, text=True)
    if r.returncode != 0 or not os.path.exists(binp):
        raise Infra("driver build failed for %s:\n%s%s" % (pkg, r.stdout, r.stderr))
    return binp


def run_driver(ctx, binp, mode, outfile, infile=None, n=None, extra_env=None, timeout=900, allow_fail=False):
    env = goenv()
    env.update(VERIF_MODE=mode, VERIF_SEED=str(ctx.seed), VERIF_OUT=outfile, VERIF_TIER=ctx.tier)
    if infile:
        env["VERIF_IN"] = infile
    if n is not None:
        env["VERIF_N"] = str(n)
    if extra_env:
        env.update(extra_env)
    try:
        r = subprocess.run([binp, "-test.run", "^TestVerifDriver$", "-test.timeout", "%ds" % timeout, "-test.count=1"],
                           env=env, capture_output=True, text=True, timeout=timeout + 30, cwd=os.path.dirname(outfile))
    except subprocess.TimeoutExpired:
        raise Infra("driver timeout: %s mode=%s" % (binp, mode))
    if r.returncode != 0 and not allow_fail:
        # The generator part of a driver also calls the code under test (to build inputs).  If that call panics the process
        # dies after flushing what it recorded (deferred close).  The recorded events are still judged - the deviation
        # normally is among them - and the premature end is noted; only a driver that recorded nothing is an infra error.
        died_in_code = "panic:" in (r.stdout + r.stderr) and "verif:" not in (r.stdout + r.stderr).split("panic:", 1)[1][:200]
        recorded = os.path.exists(outfile) and os.path.getsize(outfile) > 0
        if mode == "record" and died_in_code and recorded:
            try:
                read_ndjson(outfile)
            except Exception:
                lines = open(outfile).read().split("\n")       # drop a torn last line
                open(outfile, "w").write("\n".join(lines[:-1]) + "\n")
            m = re.search(r"panic: (.{0,200})", r.stdout + r.stderr)
            ctx.notes.append("driver %s ended early: the code under test panicked inside the input generator (%s); events recorded so far are judged"
                             % (os.path.basename(binp), m.group(1) if m else "?"))
            ctx.log("driver ended early (panic of the code under test inside the generator); judging the recorded events")
            return r
        raise Infra("driver failed (%s mode=%s) rc=%d:\n%s\n%s" % (binp, mode, r.returncode, r.stdout[-3000:], r.stderr[-3000:]))
    return r


def read_ndjson(path):
    out = []
    with open(path) as f:
        for line in f:
            line = line.strip()
            if line:
                e = json.loads(line)
                if isinstance(e, dict) and "op" in e and "_src" not in e:
                    e["_src"] = path          # the driver process this event came from (for history replays)
                out.append(e)
    return out


def write_ndjson(path, events):
    with open(path, "w") as f:
        for e in events:
            f.write(json.dumps(e, separators=(",", ":")) + "\n")


# ----------------------------------------------------------------------------
# TLC

STAT_RE = re.compile(r"(\d+) states generated, (\d+) distinct states found")


def tlc(ctx, module, cfg=None, workers=None, timeout=600, files=None, name=None, simulate=None,
        constants=None, extra=None, heap=None, check_ok=True, count=True):
    """Run TLC on spec/<module>.tla in a scratch copy.  `files`: {name: path}
    copied into the run dir (trace files).  Returns dict(rc, out, generated,
    distinct, dir)."""
    d = ctx.rundir(name or module)
    for f in glob.glob(os.path.join(SPEC, "*.tla")) + glob.glob(os.path.join(SPEC, "*.cfg")):
        shutil.copy(f, d)
    for k, v in (files or {}).items():
        dst = os.path.join(d, k)
        if os.path.abspath(v) != os.path.abspath(dst):
            shutil.copy(v, dst)
    cfgname = (cfg or module) + ".cfg"
    if constants:
        # append constant overrides to a private copy of the cfg
        txt = open(os.path.join(d, cfgname)).read()
        for k, v in constants.items():
            txt, nrep = re.subn(r"(?m)^(\s*)%s\s*=.*$" % re.escape(k), r"\g<1>%s = %s" % (k, v), txt)
            if nrep == 0:
                raise Infra("constant %s not in %s" % (k, cfgname))
        cfgname = "run_" + cfgname
        open(os.path.join(d, cfgname), "w").write(txt)
    cmd = ["java", "-Xss512m", "-XX:+UseParallelGC"]
    if heap:
        cmd.append("-Xmx" + heap)
    cmd += ["-cp", TLA_CP, "tlc2.TLC", "-workers", str(workers or 1), "-metadir", os.path.join(d, "meta"),
            "-config", cfgname]
    if simulate:
        cmd += ["-simulate", simulate]
    if extra:
        cmd += extra
    cmd.append(module + ".tla")
    t0 = time.time()
    try:
        r = subprocess.run(cmd, cwd=d, capture_output=True, text=True, timeout=timeout)
    except subprocess.TimeoutExpired:
        raise Infra("TLC timeout (%ds) on %s" % (timeout, module))
    out = r.stdout + r.stderr
    open(os.path.join(d, "tlc.log"), "w").write(out)
    shutil.rmtree(os.path.join(d, "meta"), ignore_errors=True)
    gen = dist = 0
    for m in STAT_RE.finditer(out):
        gen, dist = int(m.group(1)), int(m.group(2))
    res = dict(rc=r.returncode, out=out, generated=gen, distinct=dist, dir=d, wall=time.time() - t0)
    if count:
        ctx.states += dist
        ctx.transitions += gen
    if check_ok and r.returncode != 0:
        raise Infra("TLC failed on %s rc=%d (log %s):\n%s" % (module, r.returncode, os.path.join(d, "tlc.log"), tail(out)))
    return res


def tail(s, n=40):
    return "\n".join(s.splitlines()[-n:])


def model_check(ctx, module, cfg=None, workers=None, timeout=900, constants=None, name=None, heap=None):
    """Leg M.  A TLC counterexample here is a specification problem (exit 2),
    never by itself a violation of the code (DESIGN.md section 3 rule 1)."""
    r = tlc(ctx, module, cfg=cfg, workers=workers or min(NCPU, 8), timeout=timeout, constants=constants,
            name=name or ("M_" + (cfg or module)), heap=heap, check_ok=False)
    if r["rc"] != 0:
        raise Infra("model check of %s/%s did not pass (rc=%d); specification problem, see %s\n%s"
                    % (module, cfg or module, r["rc"], r["dir"], tail(r["out"], 60)))
    if r["distinct"] < 1:
        raise Infra("model check of %s produced no states" % module)
    ctx.model_states += r["distinct"]
    ctx.legs.setdefault("M", []).append(dict(module=module, cfg=cfg or module, constants=constants or {},
                                             distinct=r["distinct"], generated=r["generated"], wall_s=round(r["wall"], 1)))
    ctx.log("M %s/%s: %d distinct, %d generated, %.1fs" % (module, cfg or module, r["distinct"], r["generated"], r["wall"]))
    return r


def apalache_inductive(ctx, module, cinit, init="Init", indinit="IndInit", indinv="IndInv", safety="Safety", witnesses=(), timeout=420, name=None):
    """Extra leg (TLA+ 'trifecta'): Apalache discharges an inductive invariant of <module> symbolically -
    Init => IndInv, IndInv /\\ Next => IndInv', IndInv => Safety - for the constants fixed by the operator `cinit`.
    `witnesses`: operators that must be reported VIOLATED from IndInit (vacuity control: IndInv is satisfiable where it
    matters).  A failed obligation is a specification problem (exit 2); a missing tool or a timeout only skips the leg."""
    exe = shutil.which("apalache-mc")
    if not exe:
        ctx.skipped.append("Apalache not installed: inductive-invariant leg of %s skipped" % module)
        return None
    d = ctx.rundir(name or ("A_%s_%s" % (module, cinit)))
    for f in glob.glob(os.path.join(SPEC, "*.tla")):
        shutil.copy(f, d)
    t0 = time.time()
    env = dict(os.environ)
    env["TMPDIR"] = d
    obligations = [("base", init, indinv, 0, True), ("step", indinit, indinv, 1, True), ("implies", indinit, safety, 0, True)]
    obligations += [("witness:" + w, indinit, w, 0, False) for w in witnesses]
    res = []
    for label, i_, inv, length, want_ok in obligations:
        cmd = [exe, "check", "--cinit=" + cinit, "--init=" + i_, "--inv=" + inv, "--length=%d" % length,
               "--out-dir=" + os.path.join(d, "o"), "--run-dir=" + os.path.join(d, "r_" + label.replace(":", "_")), module + ".tla"]
        try:
            r = subprocess.run(cmd, cwd=d, capture_output=True, text=True, timeout=timeout, env=env)
        except subprocess.TimeoutExpired:
            ctx.skipped.append("Apalache timeout (%ds) on %s %s/%s: inductive-invariant leg skipped" % (timeout, module, cinit, label))
            return None
        out = r.stdout + r.stderr
        open(os.path.join(d, "apalache_%s.log" % label.replace(":", "_")), "w").write(out)
        ok = "EXITCODE: OK" in out
        violated = "EXITCODE: ERROR (12)" in out
        if not ok and not violated:
            ctx.skipped.append("Apalache could not run %s %s/%s (skipped): %s" % (module, cinit, label, tail(out, 3)[:300]))
            return None
        if want_ok and not ok:
            raise Infra("Apalache: obligation %s of %s (%s) fails; specification problem, see %s\n%s" % (label, module, cinit, d, tail(out, 25)))
        if not want_ok and not violated:
            raise Infra("Apalache: vacuity control %s of %s (%s) is not violated: IndInv excludes states it must admit (%s)" % (label, module, cinit, d))
        res.append(label)
    shutil.rmtree(os.path.join(d, "o"), ignore_errors=True)
    for x in glob.glob(os.path.join(d, "r_*")):
        shutil.rmtree(x, ignore_errors=True)
    ctx.legs.setdefault("A", []).append(dict(module=module, cinit=cinit, obligations=res, engine="apalache-mc 0.58 (symbolic, z3)",
                                             wall_s=round(time.time() - t0, 1)))
    ctx.log("A %s/%s: inductive invariant discharged by Apalache (%d obligations, %.1fs)" % (module, cinit, len(res), time.time() - t0))
    return res


def generate(ctx, module, outname="gen.ndjson", cfg=None, timeout=600, constants=None, name=None, workers=1):
    """Leg G.  TLC evaluates the scenario set defined in <module> and writes
    it as ndjson (ndJsonSerialize) into its run dir; returns the path."""
    r = tlc(ctx, module, cfg=cfg, workers=workers, timeout=timeout, constants=constants, name=name or ("G_" + module))
    p = os.path.join(r["dir"], outname)
    if not os.path.exists(p):
        raise Infra("generator %s wrote no %s\n%s" % (module, outname, tail(r["out"])))
    n = sum(1 for _ in open(p))
    ctx.legs.setdefault("G", []).append(dict(module=module, vectors=n, wall_s=round(r["wall"], 1)))
    ctx.log("G %s: %d vectors, %.1fs" % (module, n, r["wall"]))
    return p


RESULT_RE = re.compile(r'<<"VERIF-RESULT", (\d+), <<(.*?)>>>>', re.S)
RESULT_RE2 = re.compile(r'<<"VERIF-RESULT", (\d+), <<\s*>>\s*>>', re.S)


def parse_result(out):
    m = re.search(r'<<\s*"VERIF-RESULT",\s*(\d+),\s*(<<.*?>>|\{.*?\})\s*>>\s*$', out, re.S | re.M)
    if not m:
        return None
    n = int(m.group(1))
    idx = [int(x) for x in re.findall(r"-?\d+", m.group(2))]
    return n, idx


def validate_trace(ctx, module, events, cfg=None, chunk=None, timeout=900, label="T", stateful=False, parallel=None):
    """Leg T.  Validate `events` (list of dicts) against the trace spec
    <module>: TLC consumes every event and returns the indices it rejects.
    Pure-call traces are split into chunks validated by parallel TLC runs.
    Stateful traces (stateful=True) must not be split inside a trace: split
    points are at events with i == 1."""
    if not events:
        return []
    chunk = chunk or max(200, (len(events) + NCPU - 1) // NCPU)
    chunks, cur = [], []
    for e in events:
        if len(cur) >= chunk and (not stateful or e.get("i", 1) == 1):
            chunks.append(cur)
            cur = []
        cur.append(e)
    if cur:
        chunks.append(cur)
    procs = []
    base = 0
    for ci, ch in enumerate(chunks):
        d = ctx.rundir("%s_%s_%d" % (label, module, ci))
        for f in glob.glob(os.path.join(SPEC, "*.tla")) + glob.glob(os.path.join(SPEC, "*.cfg")):
            shutil.copy(f, d)
        write_ndjson(os.path.join(d, "trace.ndjson"), ch)
        cmd = ["java", "-Xss512m", "-XX:+UseParallelGC", "-Xmx3g", "-cp", TLA_CP, "tlc2.TLC", "-workers", "1",
               "-metadir", os.path.join(d, "meta"), "-config", (cfg or module) + ".cfg", module + ".tla"]
        procs.append((d, ch, base, cmd))
        base += len(ch)
    bad = []
    maxpar = parallel or NCPU
    running = []
    queue = list(procs)
    t0 = time.time()

    def finish(item):
        d, ch, b, p, lf = item
        p.wait()
        lf.close()
        out = open(os.path.join(d, "tlc.log")).read()
        shutil.rmtree(os.path.join(d, "meta"), ignore_errors=True)
        res = parse_result(out)
        if p.returncode != 0 or res is None:
            raise Infra("trace validation by %s failed rc=%s (log %s/tlc.log)\n%s" % (module, p.returncode, d, tail(out, 50)))
        n, idx = res
        if n != len(ch):
            raise Infra("trace spec %s consumed %d of %d events" % (module, n, len(ch)))
        m = STAT_RE.search(out)
        if m:
            for mm in STAT_RE.finditer(out):
                g_, d_ = int(mm.group(1)), int(mm.group(2))
            ctx.states += d_
            ctx.transitions += g_
        for i in idx:
            bad.append(ch[i - 1])

    while queue or running:
        while queue and len(running) < maxpar:
            d, ch, b, cmd = queue.pop(0)
            lf = open(os.path.join(d, "tlc.log"), "w")
            p = subprocess.Popen(cmd, cwd=d, stdout=lf, stderr=subprocess.STDOUT)
            running.append((d, ch, b, p, lf))
        item = running.pop(0)
        try:
            item[3].wait(timeout=max(1, timeout - (time.time() - t0)))
        except subprocess.TimeoutExpired:
            for it in running + [item]:
                it[3].kill()
            raise Infra("trace validation timeout in %s" % module)
        finish(item)
    ntr = len({e.get("t", 0) for e in events})
    ctx.traces += ntr
    ctx.events += len(events)
    ctx.legs.setdefault(label, []).append(dict(module=module, events=len(events), traces=ntr, rejected=len(bad),
                                               wall_s=round(time.time() - t0, 1)))
    ctx.log("%s %s: %d events in %d traces, %d rejected, %.1fs" % (label, module, len(events), ntr, len(bad), time.time() - t0))
    return bad


# ----------------------------------------------------------------------------
# findings / verdict / evidence

def load_findings(pid):
    p = os.path.join(VERIF, "known_findings.json")
    if not os.path.exists(p):
        return []
    data = json.load(open(p))
    return [f for f in data.get("findings", []) if f.get("property") == pid and f.get("status") == "known"]


def finish(ctx, level, rule, assumptions, matchers=None, technique=""):
    """Apply known findings, write replay files and evidence, print verdict."""
    known = load_findings(ctx.pid)
    matchers = matchers or {}
    reported_known = {}
    violations = []
    for b in ctx.bad:
        hit = None
        for f in known:
            fn = matchers.get(f["id"])
            if fn and fn(b["event"]):
                hit = f
                break
        if hit:
            reported_known.setdefault(hit["id"], (hit, []))[1].append(b)
        else:
            violations.append(b)
    for fid, (f, lst) in reported_known.items():
        print("KNOWN-FINDING: property=%s %s (%s; %d event(s) this run)" % (ctx.pid, f["what"], fid, len(lst)))
    rc = 0
    if violations:
        rp = os.path.join(ctx.out, "replay_%s.json" % ctx.pid)
        json.dump(dict(property=ctx.pid, seed=ctx.seed, tier=ctx.tier,
                       violations=violations[:50], total=len(violations)), open(rp, "w"), indent=1)
        for v in violations[:5]:
            ctx.log("rejected:", json.dumps(v)[:600])
        print("VIOLATION property=%s replay=%s" % (ctx.pid, rp))
        rc = 1
    cov = dict(
        states=ctx.states, transitions=ctx.transitions,
        traces_validated_against_impl=ctx.traces,
        events_validated=ctx.events,
        model_states=ctx.model_states,
        evaluations=max(ctx.events, 1), distinct_nontrivial=len(ctx.distinct),
        rule=rule, samples=ctx.samples[:8] or ["(none)"],
        legs=ctx.legs, exhaustive=ctx.exhaustive,
        skipped_legs=ctx.skipped, notes=ctx.notes,
        known_findings_seen=sorted(reported_known.keys()),
    )
    ev = dict(property_id=ctx.pid, tier=ctx.tier, seed=ctx.seed, level=level, coverage=cov,
              assumptions=assumptions, wall_s=round(time.time() - ctx.t0, 1), violations=len(violations),
              technique=technique)
    os.makedirs(os.path.join(VERIF, "evidence"), exist_ok=True)
    json.dump(ev, open(os.path.join(VERIF, "evidence", ctx.pid + ".json"), "w"), indent=1)
    ctx.log("done rc=%d states=%d transitions=%d traces=%d events=%d distinct=%d wall=%.1fs"
            % (rc, ctx.states, ctx.transitions, ctx.traces, ctx.events, len(ctx.distinct), time.time() - ctx.t0))
    return rc


def digest(obj):
    return hashlib.sha1(json.dumps(obj, sort_keys=True).encode()).hexdigest()[:16]


def note_events(ctx, events, nontrivial=lambda e: True, keep=3):
    for e in events:
        if nontrivial(e):
            ctx.distinct.add(digest([e.get("op"), e.get("in")]))
    for e in events[:keep]:
        s = json.dumps(e)
        ctx.samples.append(json.loads(s) if len(s) < 1500 else {"op": e.get("op"), "truncated": s[:1200]})


def reproduce_revalidate(ctx, binp, bad_events, module, extra_env=None, chunk=4):
    """For calls whose result is legitimately nondeterministic (Mine with several workers): re-run the
    real code on the same inputs and let TLC judge the new events; a rejection is confirmed when the
    re-run of the same input is rejected again."""
    if not bad_events:
        return []
    d = ctx.rundir("reproduce")
    inp = os.path.join(d, "in.ndjson")
    write_ndjson(inp, [dict(op=e["op"], **{"in": e["in"]}) for e in bad_events])
    outp = os.path.join(d, "out.ndjson")
    run_driver(ctx, binp, "replay", outp, infile=inp, extra_env=extra_env)
    again = read_ndjson(outp)
    st, tr, ev, tn = ctx.states, ctx.transitions, ctx.events, ctx.traces
    rej = validate_trace(ctx, module, again, chunk=chunk, label="T_reproduce")
    ctx.events, ctx.traces = ev, tn
    if len(rej) != len(bad_events):
        ctx.notes.append("%d of %d rejections were not reproduced on a second run" % (len(bad_events) - len(rej), len(bad_events)))
        ctx.log("WARNING: %d rejected events were not reproduced" % (len(bad_events) - len(rej)))
    return rej


def reproduce_by_trace(ctx, binp, all_events, bad_events, extra_env=None):
    """For stateful packages a rejection may depend on the history (caches, selected word list, reused buffers):
    the whole trace the rejected event belongs to is replayed in a fresh process, and the rejection is confirmed when
    the event with the same (op, input) gives the same output again."""
    if not bad_events:
        return []
    confirmed = []
    key = lambda e: digest([e.get("op"), e.get("in")])
    for tno in sorted({b.get("t") for b in bad_events}):
        tev = [e for e in all_events if e.get("t") == tno]
        d = ctx.rundir("reproduce_t%s" % tno)
        write_ndjson(os.path.join(d, "in.ndjson"), [dict(op=e["op"], **{"in": e["in"]}) for e in tev])
        run_driver(ctx, binp, "replay", os.path.join(d, "out.ndjson"), infile=os.path.join(d, "in.ndjson"), extra_env=extra_env)
        seen = {}
        for a in read_ndjson(os.path.join(d, "out.ndjson")):
            seen.setdefault(key(a), []).append(a.get("out"))
        for b in [x for x in bad_events if x.get("t") == tno]:
            if b.get("out") in seen.get(key(b), []):
                confirmed.append(b)
            elif b.get("op", "").endswith(".par") and any((o or {}).get("panic") for o in seen.get(key(b), [])):
                confirmed.append(b)      # a concurrent phase deviated again (the wording of the finding may differ)
            else:
                ctx.notes.append("non-reproduced rejection dropped: %s" % json.dumps(b)[:300])
    if len(confirmed) != len(bad_events):
        ctx.log("WARNING: %d rejected events were not reproduced" % (len(bad_events) - len(confirmed)))
    return confirmed


def settle_whitebox(ctx, confirmed, wb_ops, escalate=None, label="", wb_all=None, reachable=None):
    """White-box events (calls of unexported functions) are a way to FIND interesting parameters; what an unexported
    function means is the implementation's business, so their rejections do not decide by themselves.

    * Confirmed rejections at the API the property names are violations (white-box ones are reported with them).
    * White-box rejections whose parameters the exported API can reach (`reachable(e)`): `escalate(events)` runs a
      directed campaign through the exported API and returns confirmed API-level rejections; those decide.
    * White-box rejections at parameters the API cannot reach in a test (a 3^40-hash search, say) decide only if the
      white-box leg is *calibrated*: at reachable parameters the unexported function demonstrably still has the meaning
      the specification assumes (at least 10 reachable white-box events, all conforming) - then a deviation beyond the
      reach of the API is a deviation of that same function.  If the function deviates at reachable parameters too
      while the API behaves, its meaning has changed and the whole white-box leg is skipped."""
    is_wb = wb_ops if callable(wb_ops) else (lambda e: e["op"] in wb_ops)
    api = [e for e in confirmed if not is_wb(e)]
    wb = [e for e in confirmed if is_wb(e)]
    if not wb:
        return api
    if api:
        return api + wb
    reach = reachable or (lambda e: True)
    wb_reach = [e for e in wb if reach(e)]
    if escalate:
        api = escalate(wb_reach or wb) or []
        if api:
            return api + wb
    calibrated = (not wb_reach) and wb_all is not None and len([e for e in wb_all if reach(e)]) >= 10
    if calibrated:
        ctx.notes.append("white-box rejections beyond the reach of the exported API accepted as decisive: the same function conforms on all "
                         "%d reachable white-box events (%s)" % (len([e for e in wb_all if reach(e)]), label))
        return wb
    msg = ("white-box deviation without a counterpart at the exported API (%s%d events, first: %s): an unexported function changed its "
           "meaning, or the deviation cannot be observed through the API; the white-box leg is skipped, not a verdict"
           % (label + ": " if label else "", len(wb), json.dumps({k: v for k, v in wb[0].items() if k in ("op", "in")})[:300]))
    ctx.skipped.append(msg)
    ctx.log("SKIPPED: " + msg)
    return []


def reproduce_concurrent(ctx, binp, all_events, bad_events, module, extra_env=None, tries=3, chunk=None, stateful=False):
    """Rejected events of a concurrent phase: which call is disturbed depends on the schedule, so the same input need not
    deviate twice.  The whole trace is run again (up to `tries` times) and judged by TLC again; the rejections are
    confirmed when a re-run is rejected as well (at any event of the concurrent phase).  The re-run's rejected events
    are reported together with the originals."""
    if not bad_events:
        return []
    confirmed = []
    for tno in sorted({b.get("t") for b in bad_events}):
        tev = [e for e in all_events if e.get("t") == tno]
        mine = [b for b in bad_events if b.get("t") == tno]
        again_bad = []
        for k in range(tries):
            d = ctx.rundir("reproduce_conc_t%s_%d" % (tno, k))
            seen, inputs = set(), []
            for e in tev:                      # one input per (op, in): the driver emits every distinct answer
                kk = digest([e["op"], e["in"]])
                if kk not in seen:
                    seen.add(kk)
                    inputs.append(dict(op=e["op"], **{"in": e["in"]}))
            write_ndjson(os.path.join(d, "in.ndjson"), inputs)
            run_driver(ctx, binp, "replay", os.path.join(d, "out.ndjson"), infile=os.path.join(d, "in.ndjson"), extra_env=extra_env)
            again = read_ndjson(os.path.join(d, "out.ndjson"))
            for i, a in enumerate(again):
                a["t"], a["i"] = 1, i + 1
            ev0, tn0 = ctx.events, ctx.traces
            again_bad = validate_trace(ctx, module, again, chunk=chunk, label="T_reproduce_conc", stateful=stateful)
            ctx.events, ctx.traces = ev0, tn0
            if again_bad:
                break
        if again_bad:
            confirmed += mine
        else:
            ctx.notes.append("concurrent rejection not reproduced in %d re-runs, dropped: %s" % (tries, json.dumps(mine[0])[:300]))
    return confirmed


def reproduce(ctx, binp, bad_events, extra_env=None, history=None):
    """A rejected event becomes a violation only if re-running the real code on
    the same logged input gives the same rejected output (rule 1).  With `history` (all events of the run): an event
    that does not repeat on its own is given a second chance with everything its driver process did before it (a
    deviation may depend on earlier calls: caches, reused buffers, memoised state)."""
    if not bad_events:
        return []
    if history is not None:
        first = reproduce(ctx, binp, bad_events, extra_env=extra_env)
        rest = [e for e in bad_events if not any(e is c for c in first)]
        if not rest:
            return first
        key = lambda e: digest([e.get("op"), e.get("in")])
        for src in sorted({e.get("_src", "") for e in rest}):
            hist = [e for e in history if e.get("_src", "") == src]
            last = max(i for i, e in enumerate(hist) if any(e is r for r in rest)) if any(any(e is r for r in rest) for e in hist) else len(hist) - 1
            d = ctx.rundir("reproduce_history")
            write_ndjson(os.path.join(d, "in.ndjson"), [dict(op=e["op"], **{"in": e["in"]}) for e in hist[:last + 1]])
            run_driver(ctx, binp, "replay", os.path.join(d, "out.ndjson"), infile=os.path.join(d, "in.ndjson"), extra_env=extra_env)
            seen = {}
            for a in read_ndjson(os.path.join(d, "out.ndjson")):
                seen.setdefault(key(a), []).append(a.get("out"))
            for b in [r for r in rest if r.get("_src", "") == src]:
                if b.get("out") in seen.get(key(b), []):
                    ctx.notes.append("rejection reproduced only together with the calls before it (history-dependent)")
                    first.append(b)
        return first
    d = ctx.rundir("reproduce")
    inp = os.path.join(d, "in.ndjson")
    write_ndjson(inp, [dict(op=e["op"], **{"in": e["in"]}) for e in bad_events])
    outp = os.path.join(d, "out.ndjson")
    run_driver(ctx, binp, "replay", outp, infile=inp, extra_env=extra_env)
    again = read_ndjson(outp)
    confirmed = []
    key = lambda e: digest([e.get("op"), {k: v for k, v in e.get("in", {}).items()}])
    seen = {}
    for a in again:
        seen.setdefault(key(a), []).append(a.get("out"))
    for e in bad_events:
        if e.get("out") in seen.get(key(e), []):
            confirmed.append(e)
        elif e.get("op", "").endswith(".par") and any((o or {}).get("panic") for o in seen.get(key(e), [])):
            confirmed.append(e)          # a concurrent phase deviated again (the wording of the finding may differ)
        else:
            ctx.notes.append("non-reproduced rejection dropped: %s" % json.dumps(e)[:300])
    if len(confirmed) != len(bad_events):
        ctx.log("WARNING: %d rejected events were not reproduced" % (len(bad_events) - len(confirmed)))
    return confirmed


def call_histories(ctx, binp, events, ops, module, what, chunk=None, extra_env=None, settle=None, prefix=None, select=None, stateful=False,
                   reject_from=None):
    """Leg G of the caller-history model (spec/CallHistory.tla): TLC writes all histories of three calls over three inputs
    x {own, keep} (CallHistoryGen); for each operation in `ops` three recorded inputs of one shape (equal field lengths,
    so that they share the caller's reused buffers) are taken from `events`, every history is replayed on the real
    function with the mode the model prescribes, and each call is judged by the property's own trace specification."""
    gen = read_ndjson(generate(ctx, "CallHistoryGen", name="G_CallHistoryGen"))
    items = []
    for op in ops:
        cand = [e for e in events if e["op"] == op and not e.get("par") and not (isinstance(e.get("in"), dict) and e["in"].get("par"))
                and (select is None or select(e))]

        def shape(e):
            return json.dumps({k: (len(v) if isinstance(v, list) else (v if not isinstance(v, (dict, float)) else None))
                               for k, v in sorted(e["in"].items())}, sort_keys=True)
        groups = {}
        for e in cand:
            groups.setdefault(shape(e), [])
            if all(digest(e["in"]) != digest(x["in"]) for x in groups[shape(e)]) and len(groups[shape(e)]) < 3:
                groups[shape(e)].append(e)
        full = [g for g in groups.values() if len(g) == 3]
        for g in full[:2]:                    # two shapes per operation
            for h in gen:
                for c in h["calls"]:
                    items.append(dict(op=op, mode=c["mode"], **{"in": g[c["i"] - 1]["in"]}))
    # failure histories (spec/CallFailure.tla): every kind of rejected call seen in the traces, followed by accepted calls
    fgen = read_ndjson(generate(ctx, "CallFailureGen", name="G_CallFailureGen"))
    nfail = 0
    for op in ops:
        cand = [e for e in events if e["op"] == op and not e.get("par") and isinstance(e.get("in"), dict) and not e["in"].get("par")
                and isinstance(e.get("out"), dict) and e["out"].get("panic", "") == "" and (select is None or select(e))]
        acc, rej = [], {}
        for e in cand:
            if e["out"].get("ok") is True and len(acc) < 2 and all(digest(e["in"]) != digest(x["in"]) for x in acc):
                acc.append(e)
            elif e["out"].get("ok") is False:
                rej.setdefault(str(e["out"].get("err", "")), []).append(e)
        # rejected calls of the package's OTHER operations (reject_from: (all events of the run, operations)): working memory is
        # often shared by the operations of a package, so a rejected Decode may be followed by an Encode
        for e in (reject_from[0] if reject_from else []):
            if e["op"] in reject_from[1] and e["op"] != op and isinstance(e.get("out"), dict) and e["out"].get("ok") is False \
                    and e["out"].get("panic", "") == "" and isinstance(e.get("in"), dict) and not e["in"].get("par"):
                rej.setdefault(e["op"] + ":" + str(e["out"].get("err", "")), []).append(e)
        if len(acc) < 2 or not rej:
            continue
        kinds = sorted(rej)
        picked = [rej[k][0] for k in kinds][:10 if reject_from else 8]
        if len(kinds) == 1:                       # no error kinds reported: a spread of the rejected inputs instead
            lst = rej[kinds[0]]
            picked = [lst[(k * (len(lst) - 1)) // 5] for k in range(6)]
            picked = [x for i, x in enumerate(picked) if all(digest(x["in"]) != digest(y["in"]) for y in picked[:i])]
        for r_ in picked:
            for h in fgen:
                for pos, sym in enumerate(h["calls"]):
                    src = r_ if sym == "r" else acc[0] if sym == "v1" else acc[1]
                    items.append(dict(op=src["op"], mode=("keep" if pos % 2 == 0 else "own"), **{"in": src["in"]}))
                    nfail += 1
    if not items:
        ctx.skipped.append("caller histories: no three recorded inputs of one shape for %s" % ", ".join(ops))
        return
    npre = len(prefix or [])
    items = list(prefix or []) + items
    d = ctx.rundir("call_histories")
    write_ndjson(d + "/in.ndjson", items)
    run_driver(ctx, binp, "replay", d + "/o.ndjson", infile=d + "/in.ndjson", extra_env=extra_env)
    ev = read_ndjson(d + "/o.ndjson")
    for i, e in enumerate(ev):
        e["t"], e["i"] = 1, i + 1
    note_events(ctx, ev, keep=0)
    ctx.legs.setdefault("G", []).append(dict(module="CallHistoryGen+CallFailureGen", histories=len(gen), failure_histories=len(fgen), calls=len(items),
                                             calls_in_failure_histories=nfail, ops=list(ops)))
    bad = validate_trace(ctx, module, ev, chunk=(10 ** 9 if stateful else chunk), label="T_call_histories", stateful=stateful)
    if not bad:
        return
    # a rejection is confirmed by replaying the whole sequence of calls (with its modes) once more
    run_driver(ctx, binp, "replay", d + "/o2.ndjson", infile=d + "/in.ndjson", extra_env=extra_env)
    again = read_ndjson(d + "/o2.ndjson")
    for b in bad:
        a = again[b["i"] - 1] if b["i"] - 1 < len(again) else None
        if a is not None and a.get("out") == b.get("out"):
            conf = dict(b)
            conf["history_position"] = b["i"]
            if settle is None or settle([conf]):
                ctx.bad.append(dict(event=conf, reason=what + " (in a TLC-generated caller history: reused input buffer, results overwritten or kept)"))
        else:
            ctx.notes.append("non-reproduced caller-history rejection dropped (call %d)" % b["i"])


def call_concurrent(ctx, binp, events, ops, module, what, per_op=16, extra_env=None, chunk=None):
    """Generic concurrent phase for drivers built on vMain (mode parreplay): recorded inputs of the pure operations `ops`
    (accepted and rejected ones) are executed by 8 goroutines at the same time for a time budget; every distinct answer
    per input is an event judged by the property's own trace specification.  A rejection is confirmed by running the
    batch again (up to three times) and having TLC reject it again."""
    items = []
    for op in ops:
        cand = [e for e in events if e["op"] == op and isinstance(e.get("in"), dict) and isinstance(e.get("out"), dict) and e["out"].get("panic", "") == ""]
        good = [e for e in cand if e["out"].get("ok") is not False]
        badk = {}
        for e in cand:
            if e["out"].get("ok") is False:
                badk.setdefault(str(e["out"].get("err", "")), e)
        step = max(1, len(good) // max(1, per_op - min(4, len(badk))))
        pick, seen = [], set()
        for e in good[::step] + list(badk.values())[:4]:
            k = digest(e["in"])
            if k not in seen and len(pick) < per_op:
                seen.add(k)
                pick.append(e)
        items += [dict(op=op, **{"in": e["in"]}) for e in pick]
    if len(items) < 2:
        ctx.skipped.append("concurrent phase: no recorded inputs for %s" % ", ".join(ops))
        return
    d = ctx.rundir("call_concurrent")
    write_ndjson(d + "/in.ndjson", items)
    run_driver(ctx, binp, "parreplay", d + "/o.ndjson", infile=d + "/in.ndjson", extra_env=extra_env)
    ev = read_ndjson(d + "/o.ndjson")
    for i, e in enumerate(ev):
        e["t"], e["i"] = 1, i + 1
    note_events(ctx, ev, keep=0)
    ctx.legs.setdefault("T_concurrent", []).append(dict(ops=list(ops), inputs=len(items), answers=len(ev)))
    bad = validate_trace(ctx, module, ev, chunk=chunk, label="T_concurrent")
    if not bad:
        return
    for k in range(3):
        run_driver(ctx, binp, "parreplay", d + "/o%d.ndjson" % k, infile=d + "/in.ndjson", extra_env=extra_env)
        again = read_ndjson(d + "/o%d.ndjson" % k)
        for i, e in enumerate(again):
            e["t"], e["i"] = 1, i + 1
        ev0, tn0 = ctx.events, ctx.traces
        again_bad = validate_trace(ctx, module, again, chunk=chunk, label="T_concurrent_again")
        ctx.events, ctx.traces = ev0, tn0
        if again_bad:
            for b in bad[:3]:
                conf = dict(b)
                conf["concurrent"] = True
                ctx.bad.append(dict(event=conf, reason=what + " (call made concurrently with other calls of the package; confirmed by a second concurrent run)"))
            return
    ctx.notes.append("concurrent rejection not reproduced in 3 re-runs, dropped: %s" % json.dumps(bad[0])[:300])


def call_history_model(ctx):
    """Leg M of the caller-history model: the honest implementation is correct for every history up to Depth; each of the
    three flawed implementations (memo by reference, cache entry handed out, pooled result) violates `Correct` within the
    depth the generated histories cover (vacuity control: the history set can expose what it is meant to expose)."""
    model_check(ctx, "CallHistory", cfg="CallHistory_honest", name="M_CallHistory_honest", timeout=300)
    for impl in ("memoByRef", "cacheEntry", "pool"):
        r = tlc(ctx, "CallHistory", cfg="CallHistory_" + impl, workers=2, name="M_CallHistory_" + impl, check_ok=False, count=False)
        if "Invariant Correct is violated" not in r["out"]:
            raise Infra("caller-history model: the flawed implementation %s is not exposed within the generated depth" % impl)
    ctx.notes.append("caller-history model: honest implementation correct to depth 3; memoByRef, cacheEntry and pool each violate Correct within depth 3")
    # what a rejected call may leave behind (CallFailure): honest correct; scratch given back dirty / twice on an error path exposed
    model_check(ctx, "CallFailure", cfg="CallFailure_honest", name="M_CallFailure_honest", timeout=300)
    for impl in ("dirtyOnError", "doubleRelease"):
        r = tlc(ctx, "CallFailure", cfg="CallFailure_" + impl, workers=2, name="M_CallFailure_" + impl, check_ok=False, count=False)
        if "Invariant Correct is violated" not in r["out"]:
            raise Infra("failure-history model: the flawed implementation %s is not exposed within the generated depth" % impl)
    ctx.notes.append("failure-history model: honest implementation correct to depth 3; dirtyOnError and doubleRelease violate Correct by <<rejected, valid>>")
